import RTV.Drv.Proto
import RTV.Drv.DtRes
import RTV.Model.TimePeriod
/-! Driver handlers for L6 `TimePeriod` (BaseTimePeriodParser / BaseDateTimeParser computations; C07, feeds C10 / C08).
Strings as code points, a list of strings as `;`-joined code-point strings (`[]` = empty list), a `Cal` reference as four
fields `Y M D secs`, a `DtRes.DT` as `y,m,d,h,mi,s`. `variant` = three 0/1 characters `rightAmGe secondsBail minuteBySpan`.
  tp.pure culture hours leftDesc rightDesc am pm rightAmHit rightPmHit                     -> res
  tp.spec variant culture hours mins descs time1 time2 leftDesc rightDesc firstInTime1 hasSec   -> res
  tp.tod culture source early late                                                         -> res
  tp.parse r1 r2 r3 r4      (each `ok|timex|b|e`, `none`, `err`)                           -> timex|start|end or none
  tp.now culture source whole Y M D secs                                                   -> timex|Y-M-D@secs|Y-M-D@secs or none
  tp.eod eod ref dateCount specificHit datePr(`none` or timex|dt|dt)                       -> DtRes res or err:Kind
  tp.ago durKind(none|novalue|ok) valueTimex timexStr srcUnit(`none` = no match) code(`none` = not in unit_map)
         containsAgo containsLaterOrIn Y M D secs                                          -> timex|Y-M-D@secs|mod or none or err:Kind
  tp.gdr unit num Y M D secs isFuture dateMode                                             -> timex|Y-M-D@secs or err:Other
res = ok|timex|comment|mod|startOff|endOff  or  none  or  err:Kind -/
namespace RTV.Drv.TimePeriodH
open RTV.Drv RTV.Py RTV.Cal RTV.TimePeriod

def parseList (f : String) : List Str :=
  if f == "[]" then [] else (f.splitOn ";").map parseCps

def parseVariant (f : String) : Variant :=
  match f.toList with
  | [a, b, c] => { rightAmGe := a == '1', secondsBail := b == '1', minuteBySpan := c == '1' }
  | _ => {}

def showTP : Res → String
  | .raises k => "err:" ++ k
  | .noResult => "none"
  | .ok t c m b e => s!"ok|{showCps t}|{showCps c}|{showCps m}|{b}|{e}"

def numbersOf (culture : String) : List (Str × Nat) :=
  match timeStyleOf culture false with
  | some (n, _, _) => n
  | none => []

def todHook (culture : String) : Str → Option Str :=
  if culture == "es" then esTodCode drvUni0 else enTodCode drvUni0

def mkDT (y m d s : String) : DateTime := ⟨⟨parseNat y, parseNat m, parseNat d⟩, parseNat s⟩
def showCalDT (x : DateTime) : String := s!"{x.date.y}-{x.date.m}-{x.date.d}@{x.secs}"

def parseSub (f : String) : Res :=
  match f.splitOn "|" with
  | ["ok", t, b, e] => .ok (parseCps t) [] [] (parseInt b) (parseInt e)
  | ["err"] => .raises "Other"
  | _ => .noResult

def parseAUnit (f : String) : Option AUnit := unitOfCode (ofString f)

end RTV.Drv.TimePeriodH
namespace RTV.Drv
open RTV.Drv.TimePeriodH RTV.TimePeriod RTV.Py in
def dispatchTimePeriod (op : String) (args : List String) : Option String :=
  match op, args with
  | "tp.pure", [cu, hours, ld, rd, am, pm, ra, rp] =>
    some (showTP (pureNumbers drvUni0 (numbersOf cu) (parseList hours) (parseCps ld) (parseCps rd) (parseCps am) (parseCps pm)
      (parseBool ra) (parseBool rp)))
  | "tp.spec", [v, cu, hours, mins, descs, t1, t2, ld, rd, f1, hs] =>
    some (showTP (specificTime (parseVariant v) drvUni0 (numbersOf cu) (parseList hours) (parseList mins) (parseList descs)
      (parseCps t1) (parseCps t2) (parseCps ld) (parseCps rd) (parseBool f1) (parseBool hs)))
  | "tp.tod", [cu, src, early, late] =>
    some (showTP (timeOfDay (todHook cu) (parseCps src) (parseCps early) (parseCps late)))
  | "tp.parse", [r1, r2, r3, r4] =>
    some (match periodParse [parseSub r1, parseSub r2, parseSub r3, parseSub r4] with
          | some (t, s, e) => s!"{showCps t}|{showCps s}|{showCps e}"
          | none => "none")
  | "tp.now", [_cu, src, whole, y, m, d, s] =>
    some (match basicRegex (enNowTimex drvUni0) (parseCps src) (parseBool whole) (mkDT y m d s) with
          | some (t, f, p) => s!"{showCps t}|{showCalDT f}|{showCalDT p}"
          | none => "none")
  | "tp.eod", [eod, ref, cnt, hit, pr] =>
    let datePr : Option (Str × RTV.DtRes.DT × RTV.DtRes.DT) :=
      match pr.splitOn "|" with
      | [t, f, p] => some (parseCps t, parseDT f, parseDT p)
      | _ => none
    some (showExcept showRes (specialTimeOfDate (parseBool eod) (parseDT ref) (parseNat cnt) (parseBool hit) datePr))
  | "tp.ago", [kind, vt, ts, su, code, ago, later, y, m, d, s] =>
    let dur : Option (Option (Str × Str)) :=
      if kind == "none" then none else if kind == "novalue" then some none else some (some (parseCps vt, parseCps ts))
    let srcUnit : Option Str := if su == "none" then none else some (parseCps su)
    let unitMap : List (Str × Str) := if code == "none" then [] else [(parseCps su, parseCps code)]
    some (match agoLater drvUni0 dur srcUnit unitMap (parseBool ago) (parseBool later) (mkDT y m d s) with
          | .raises k => "err:" ++ k
          | .noResult => "none"
          | .ok t v md => s!"{showCps t}|{showCalDT v}|{showCps md}")
  | "tp.gdr", [un, n, y, m, d, s, fut, dm] =>
    some (match parseAUnit un with
          | none => "none"
          | some u =>
            match getDateResultAll u (parseNat n) (mkDT y m d s) (parseBool fut) (parseBool dm) with
            | some (t, v) => s!"{showCps t}|{showCalDT v}"
            | none => "err:Other")
  | _, _ => none

end RTV.Drv
