import RTV.Drv.Num
import RTV.Model.NumFrac
import RTV.Gen.ReTables
/-! Driver handlers for L4b `NumFrac` (C03 / C04: fraction, point, power, suffix paths). Prefix `nf.`
  f64 mul|add <neg m e> <neg m e>          -> neg m e (odd mantissa)          binary64 arithmetic
  f64 ofint <i>                            -> neg m e
  f64 todec <neg m e>                      -> neg coeff exp                   Decimal(float)
  decpow <p> <neg coeff exp> <neg coeff exp> -> neg coeff exp | err:<Kind>    Context.power
  tok <culture> <cps>                      -> tok;tok;…                       finditer(text_number_regex)
  norm <culture> <tok;tok;…>               -> tok;tok;… | err                 normalize_token_set
  pv <culture> <p> <tok;tok;…>             -> neg coeff exp | err             __get_point_value
  digit <culture> <p> <handle> <m;m;…>     -> neg coeff exp | err             _digit_number_parse
  text <culture> <p> <handle>              -> neg coeff exp | err             _text_number_parse
  pow <culture> <fx> <p> <text>            -> neg coeff exp | err             _power_number_parse (fx = 1: X10^ -> E variant)
  frac <culture> <p> <text> <rm>           -> D neg coeff exp | F repr | err  _frac_like_number_parse
  parse <culture> <fx> <p> <num|pct> <supported;…> <type> <data|none> <text> <negLen|none> <lowered> <halfDozen>
        <m;m;…> <rm>                       -> none | <val>|<resolution> | err BaseNumberParser / BasePercentageParser.parse
  cfg <culture>                            -> marker|fracSep;…|oneHalf;…|langMarker|wordSep|matchLen|loose
rm = `none` or whole|multiplier|0/1.  Strings are code points; lists are `;`-joined (empty field = empty list). -/
namespace RTV.Drv.NumFracD
open RTV.Py RTV.Dec RTV.Num RTV.NumFrac RTV.Drv RTV.Drv.NumD

def reTok : TokTab where
  word c := inRangesArr RTV.Gen.reWordRanges c
  digit c := inRangesArr RTV.Gen.reDigitRanges c

def showFErr : FErr → String
  | .indexError => "err:IndexError"
  | .zeroDiv => "err:ZeroDivisionError"
  | .invalid => "err:ValueError"
  | .keyError => "err:KeyError"
  | .typeError => "err:TypeError"
  | .special => "err:Special"
  | .unsupported => "err:Unsupported"
  | .fuel => "err:Other"

def parseList (f : String) : List Str := if f == "" then [] else (f.splitOn ";").map parseCps
def showList (l : List Str) : String := ";".intercalate (l.map showCps)

def cfgOf (code : String) : Option FracCfg :=
  let c := parseCps code
  if c = esMx.code then (fracCfgOf esMx RTV.Gen.NumEsMx.writtenDecSep)
  else (fracCfgs.find? fun x => x.1 = c).map (·.2)

def lfOf (code : String) : Option (Nat × Nat) := (cultureOf (parseCps code)).bind (·.longFormat)

def withCfg (code : String) (f : FracCfg → String) : String :=
  match cfgOf code with
  | some c => f c
  | none => "bad-culture"

def showF (x : F64) : String := let (n, m, e) := x.canon; s!"{if n then 1 else 0} {m} {e}"
def parseF (n m e : String) : F64 := ⟨n == "1", parseNat m, parseInt e⟩

def showDecE : Except FErr Dec → String
  | .ok d => showDec d
  | .error e => showFErr e

def showVal : Val → String
  | .dec d => "D " ++ showDec d
  | .flt d => "F " ++ showCps (Dec.floatRepr d)

def parseRm (f : String) : Option RoundMatch :=
  if f == "none" then none
  else match f.splitOn "|" with
    | [w, m, fr] => some ⟨parseCps w, parseCps m, fr == "1"⟩
    | _ => none

def hF64 : Handler
  | ["mul", an, am, ae, bn, bm, be] => showF (F64.mul (parseF an am ae) (parseF bn bm be))
  | ["add", an, am, ae, bn, bm, be] => showF (F64.add (parseF an am ae) (parseF bn bm be))
  | ["ofint", i] => showF (F64.ofInt (parseInt i))
  | ["todec", n, m, e] => showDec (parseF n m e).toDec
  | _ => "bad-op"

def hDecPow : Handler
  | [p, an, ac, ae, bn, bc, be] => showDecE (decPow (parseNat p) (parseDec an ac ae) (parseDec bn bc be))
  | _ => "bad-op"

def hTok : Handler
  | [cu, s] => withCfg cu fun c => showList (textTokens reTok c.alts c.loose (parseCps s))
  | _ => "bad-op"

def hNorm : Handler
  | [cu, toks] => withCfg cu fun c =>
    match normalizeTokens c.norm c.lang c.wordSep c.oneHalf c.fracSep (parseList toks) with
    | .ok l => showList l
    | .error e => showFErr e
  | _ => "bad-op"

def hPv : Handler
  | [cu, p, toks] => withCfg cu fun c => showDecE (getPointValue (parseNat p) pyDigits c.lang (parseList toks))
  | _ => "bad-op"

def hDigit : Handler
  | [cu, p, h, ms] => withCfg cu fun c =>
    showDecE (digitNumberParse (parseNat p) pyDigits pySpace c.sep c.lang.round c.matchLen (parseList ms) (parseCps h))
  | _ => "bad-op"

def hText : Handler
  | [cu, p, h] => withCfg cu fun c =>
    showDecE (textNumberParse (parseNat p) pyDigits reTok c.lang c.alts c.loose c.writtenDecSep (parseCps h))
  | _ => "bad-op"

def hPow : Handler
  | [cu, fx, p, t] => withCfg cu fun c => showDecE (powerNumberParse (parseBool fx) (parseNat p) pyDigits c.sep.decSep (parseCps t))
  | _ => "bad-op"

def hFrac : Handler
  | [cu, p, t, rm] => withCfg cu fun c =>
    match fracLikeParse (parseNat p) pyDigits reTok pySpace c (parseRm rm) (parseCps t) with
    | .ok v => showVal v
    | .error e => showFErr e
  | _ => "bad-op"

def hParse : Handler
  | [cu, fx, p, kind, supported, ty, data, text, negLen, lowered, halfDozen, ms, rm] => withCfg cu fun c =>
    let aux : Aux := ⟨if negLen == "none" then none else some (parseNat negLen), parseCps lowered, parseCps halfDozen,
      parseList ms, parseRm rm⟩
    let d : Option Str := if data == "none" then none else some (parseCps data)
    let f := if kind == "pct" then percentParse else NumFrac.parse
    match f (parseBool fx) (parseNat p) pyDigits reTok pySpace c (lfOf cu) (parseList supported) (parseCps ty) d (parseCps text) aux with
    | .ok none => "none"
    | .ok (some (v, res)) => showVal v ++ "|" ++ showCps res
    | .error e => showFErr e
  | _ => "bad-op"

def hCfg : Handler
  | [cu] => withCfg cu fun c =>
    s!"{showCps c.fractionMarker}|{showList c.fracSep}|{showList c.oneHalf}|{showCps c.langMarker}|{showCps c.wordSep}|{c.matchLen}|{showBool c.loose}|{showList c.writtenDecSep}"
  | _ => "bad-op"

def dispatch (op : String) (args : List String) : Option String :=
  match op with
  | "nf.f64" => some (hF64 args)
  | "nf.decpow" => some (hDecPow args)
  | "nf.tok" => some (hTok args)
  | "nf.norm" => some (hNorm args)
  | "nf.pv" => some (hPv args)
  | "nf.digit" => some (hDigit args)
  | "nf.text" => some (hText args)
  | "nf.pow" => some (hPow args)
  | "nf.frac" => some (hFrac args)
  | "nf.parse" => some (hParse args)
  | "nf.cfg" => some (hCfg args)
  | _ => none

end RTV.Drv.NumFracD

namespace RTV.Drv
def dispatchNumFrac (op : String) (args : List String) : Option String := NumFracD.dispatch op args
end RTV.Drv
