import RTV.Drv.Proto
import RTV.Gen.Holiday
/-! Driver handlers for the holiday layer (C11).
  hol.getday y m week dow                      -> d | err:IndexError
  hol.fn <culture> <key> <year>                -> Y-M-D | err:raises | unknown | nokey
  hol.m2d <culture> <key|?> <year|?> <swift|?> ry rm rd rsecs
                                               -> ok <timex cps> F-Y-M-D P-Y-M-D | none | raises | noculture -/
namespace RTV.Drv
open RTV.Holiday RTV.Cal

def showHolDate (x : Date) : String := s!"{x.y}-{x.m}-{x.d}"

def holCultureTables (c : List Nat) : Option (List (List Nat × Fn) × List (List Nat × List Nat)) :=
  (RTV.Gen.holidayCultures.find? (fun e => e.1 == c)).map (·.2)

def dispatchHoliday (op : String) (args : List String) : Option String :=
  match op, args with
  | "hol.getday", [y, m, w, d] =>
    some (match getDay (parseNat y) (parseNat m) (parseInt w) (parseNat d) with
      | some x => toString x | none => "err:IndexError")
  | "hol.fn", [c, k, y] =>
    some (match holCultureTables (parseCps c) with
      | none => "noculture"
      | some (funcs, _) =>
        match dictGet funcs (parseCps k) with
        | none => "nokey"
        | some Fn.unknown => "unknown"
        | some f => match f.eval (parseNat y) with | some x => showHolDate x | none => "err:raises")
  | "hol.m2d", [c, k, y, s, ry, rm, rd, rs] =>
    some (match holCultureTables (parseCps c) with
      | none => "noculture"
      | some (funcs, tdict) =>
        let key := if k == "?" then none else some (parseCps k)
        let yg := if y == "?" then none else some (parseNat y)
        let sw := if s == "?" then none else some (parseInt s)
        match match2date funcs tdict key yg sw ⟨⟨parseNat ry, parseNat rm, parseNat rd⟩, parseNat rs⟩ with
        | .raises => "raises"
        | .noResult => "none"
        | .ok r => "ok " ++ showCps r.timex ++ "\t" ++ showHolDate r.future ++ "\t" ++ showHolDate r.past)
  -- hol.values <timex> fy fm fd py pm pd -> type~timex~value;…   (`holidayValues`: what the merged parser emits for a holiday
  -- entity; audit item 35: no correspondence op — tied in c11 to `_date_time_resolution` on the real `_match2date` result)
  | "hol.values", [tx, fy, fm, fd, py, pm, pd] =>
    let r : Res := ⟨parseCps tx, ⟨parseNat fy, parseNat fm, parseNat fd⟩, ⟨parseNat py, parseNat pm, parseNat pd⟩⟩
    some (";".intercalate ((holidayValues r).map fun v =>
      "~".intercalate [showCps v.type, showCps v.timex, match v.value with | none => "absent" | some x => showCps x]))
  | _, _ => none

end RTV.Drv
