import RTV.Model.Py
/-! Line protocol helpers shared by all driver handlers: tab-separated fields, strings as space-separated
decimal code points (`-` = empty string), lists joined by `;` and `,` as documented per operation. -/
namespace RTV.Drv
open RTV.Py

def parseCps (f : String) : Str :=
  if f == "-" || f == "" then [] else (f.splitOn " ").filterMap fun x => x.toNat?

def showCps (s : Str) : String :=
  if s.isEmpty then "-" else " ".intercalate (s.map toString)

/-- A numeric field.  A malformed field (`None`, `-1` where a natural number is expected, an empty field) used to be read
as 0 silently (audit item 35): now it panics with a `BadArg` message; the driver loop (`Driver.lean`) catches the message
and answers `err:BadArg` for that operation line instead of the handler's answer (the value continued with is 0, as
before, but nobody sees the result).  A handler that really wants "missing = 0" must say so: `parseNatD` / `parseIntD`. -/
def parseInt (f : String) : Int :=
  match f.toInt? with
  | some i => i
  | none => panic! s!"BadArg: malformed integer field {f.quote}"

def parseNat (f : String) : Nat :=
  match f.toNat? with
  | some n => n
  | none => panic! s!"BadArg: malformed natural-number field {f.quote}"

/-- explicit defaults (optional fields) -/
def parseIntD (f : String) (d : Int := 0) : Int := (f.toInt?).getD d
def parseNatD (f : String) (d : Nat := 0) : Nat := (f.toNat?).getD d

def showBool (b : Bool) : String := if b then "1" else "0"
def parseBool (f : String) : Bool := f == "1"

def showOpt (f : α → String) : Option α → String
  | none => "none"
  | some a => f a

abbrev Handler := List String → String

end RTV.Drv
