import RTV.Model.Py
/-! Line protocol helpers shared by all driver handlers: tab-separated fields, strings as space-separated
decimal code points (`-` = empty string), lists joined by `;` and `,` as documented per operation. -/
namespace RTV.Drv
open RTV.Py

def parseCps (f : String) : Str :=
  if f == "-" || f == "" then [] else (f.splitOn " ").filterMap fun x => x.toNat?

def showCps (s : Str) : String :=
  if s.isEmpty then "-" else " ".intercalate (s.map toString)

def parseInt (f : String) : Int :=
  match f.toInt? with
  | some i => i
  | none => 0

def parseNat (f : String) : Nat := (f.toNat?).getD 0

def showBool (b : Bool) : String := if b then "1" else "0"
def parseBool (f : String) : Bool := f == "1"

def showOpt (f : α → String) : Option α → String
  | none => "none"
  | some a => f a

abbrev Handler := List String → String

end RTV.Drv
