import RTV.Drv.Proto
import RTV.Model.Re
import RTV.Model.Seq
import RTV.Model.SeqEnv
import RTV.Gen.RegexIndex
import RTV.Gen.CharTables
/-! Driver handlers for L1 `Re` and the sequence model (C13).
  re.find <name> <real|ascii> <cps>          -> a:b;a:b   spans of `findAll` (finditer)  | err:KeyError
  re.ends <name> <real|ascii> <cps> <i>      -> j,j,...   all ends from i in priority order
  re.search <name> <real|ascii> <cps>        -> 0|1
  re.lang <name>                             -> cps;cps;…  finite language (no assertions) | none
  ip.extract <cps>                           -> start:len:textcps:data;…   (BaseIpExtractor.extract)
  ip.drop <cps>                              -> cps                         (BaseIpParser.drop_leading_zeros)
  ip.sweep <ip|seq> <cps> <n> <a:b:tag>…     -> start:len:textcps:data;…   (sweep on given match spans)
  guid.extract <cps>                         -> start:len:textcps:data;…   (BaseGUIDExtractor.extract)
  guid.score <cps>                           -> integer score 0..100 (the code returns score/100)
  re.findcap <name> <group number> <real|ascii> <cps>  -> a:b:cs:ce;…  (`-:-` when the group did not take part)
  url.extract <cps>                          -> start:len:textcps:data;…  | err:Other   (BaseURLExtractor.extract)
  phone.extract <cps>                        -> start:len:textcps:data;…   (BasePhoneNumberExtractor.extract, English)
  spec.url <cps>                             -> typecps:start:end:textcps:valuecps;…   (recognize_url)
  spec.seq <hashtag|mention|email|url|urlzh> <cps>  -> typecps:start:end:textcps:keycps=valuecps,…;…  (whole ModelResult)
  spec.ip <en|zh> <typed|score> <cps>        -> the same   (recognize_ip_address; resolution with `type` / with the pre-fix `score`)
  spec.guid <cps>                            -> the same   (recognize_guid)
  spec.bool <fixed|pscore0> <cps>            -> the same | err:Other   (recognize_boolean; True/False as text, the score as `#num/den`)
-/
namespace RTV.Drv
open RTV.Py RTV.Re RTV.Seq

def lookupRe (n : String) : Option RE := (RTV.Gen.allRegexes.find? (·.1 == n)).map (·.2)

def pickTables (w : String) : Tables := if w == "ascii" then asciiTables else RTV.Gen.reTables

def showSpans (l : List (Nat × Nat)) : String := ";".intercalate (l.map fun (a, b) => s!"{a}:{b}")

def hReFind : Handler
  | [n, w, s] => match lookupRe n with
    | some r => showSpans (findAll (pickTables w) (parseCps s).toArray r)
    | none => "err:KeyError"
  | _ => "bad-op"

def hReEnds : Handler
  | [n, w, s, i] => match lookupRe n with
    | some r => ",".intercalate ((ends (pickTables w) (parseCps s).toArray r (parseNat i)).map toString)
    | none => "err:KeyError"
  | _ => "bad-op"

def hReSearch : Handler
  | [n, w, s] => match lookupRe n with
    | some r => showBool (searches (pickTables w) (parseCps s).toArray r)
    | none => "err:KeyError"
  | _ => "bad-op"

def hReLang : Handler
  | [n] => match lookupRe n with
    | some r => match enumLang r with
      | some l => ";".intercalate (l.map showCps)
      | none => "none"
    | none => "err:KeyError"
  | _ => "bad-op"

def showER (r : ER) : String := s!"{r.start}:{r.len}:{showCps r.text}:{r.data}"
def showERs (l : List ER) : String := ";".intercalate (l.map showER)

def parseSpanTag (f : String) : Option (Nat × Nat × String) :=
  match f.splitOn ":" with
  | [a, b, t] => some (parseNat a, parseNat b, t)
  | _ => none

def hIpExtract : Handler
  | [s] => showERs (ipExtract RTV.Gen.reTables pyChars RTV.Gen.ipv4Regex RTV.Gen.ipv6Regex (parseCps s))
  | _ => "bad-op"

def hIpDrop : Handler
  | [s] => showCps (dropLeadingZeros (parseCps s))
  | _ => "bad-op"

def hIpSweep : Handler
  | w :: s :: _n :: rest =>
    let ms := rest.filterMap parseSpanTag
    showERs (if w == "ip" then ipSweep pyChars (parseCps s) ms else seqSweep pyChars (parseCps s) ms)
  | _ => "bad-op"

def hGuidExtract : Handler
  | [s] => showERs (guidExtract RTV.Gen.reTables pyChars RTV.Gen.guidRegex (parseCps s))
  | _ => "bad-op"

def hGuidScore : Handler
  | [s] => toString (scoreGuid RTV.Gen.reTables RTV.Gen.guidElementRegex (parseCps s))
  | _ => "bad-op"

def hReFindCap : Handler
  | [n, g, w, s] => match lookupRe n with
    | some r => ";".intercalate ((findAllCap (pickTables w) (parseCps s).toArray (parseNat g) r).map fun (a, b, c) =>
        match c with
        | some (x, y) => s!"{a}:{b}:{x}:{y}"
        | none => s!"{a}:{b}:-:-")
    | none => "err:KeyError"
  | _ => "bad-op"

def hUrlExtract : Handler
  | [s] => match RTV.Url.urlExtract (urlEnvOf genSeqEnv) (parseCps s) with
    | some ers => showERs ers
    | none => "err:Other"
  | _ => "bad-op"

def hPhoneExtract : Handler
  | [s] => showERs (phoneExtract genSeqEnv (parseCps s))
  | _ => "bad-op"

def hSpecUrl : Handler
  | [s] => ";".intercalate ((urlModelRun genSeqEnv (parseCps s)).map fun (t, a, b, x, v) =>
      s!"{showCps t}:{a}:{b}:{showCps x}:{showCps v}")
  | _ => "bad-op"

/-- `typecps:start:end:textcps:keycps=valuecps,keycps=valuecps`; a float value as the exact fraction `#num/den` -/
def showEnt (e : SpecEnt) : String :=
  s!"{showCps e.typeName}:{e.start}:{e.stop}:{showCps e.text}:" ++
    ",".intercalate (e.res.map fun (k, v) =>
      match v with
      | .text t => s!"{showCps k}={showCps t}"
      | .frac n d => s!"{showCps k}=#{n}/{d}")
def showEnts (l : List SpecEnt) : String := ";".intercalate (l.map showEnt)

def hSpecSeq : Handler
  | [w, s] =>
    let q := parseCps s
    showEnts (match w with
      | "hashtag" => simpleModelRun genSeqEnv RTV.Gen.hashtagRegex (ofString "hashtag") q
      | "mention" => simpleModelRun genSeqEnv RTV.Gen.mentionRegex (ofString "mention") q
      | "email" => simpleModelRun genSeqEnv RTV.Gen.emailRegex (ofString "email") q
      | "urlzh" => urlSpecRun genSeqEnv true q
      | _ => urlSpecRun genSeqEnv false q)
  | _ => "bad-op"

def hSpecIp : Handler
  | [w, v, s] => showEnts (ipModelRun genSeqEnv (w == "zh") (v == "typed") (parseCps s))
  | _ => "bad-op"

def hSpecGuid : Handler
  | [s] => showEnts (guidModelRun genSeqEnv (parseCps s))
  | _ => "bad-op"

def hSpecBool : Handler
  | [v, s] => match boolModelRun { RTV.Choice.genEnv with parserKeepsScore := v != "pscore0" } (parseCps s) with
    | some rs => showEnts rs
    | none => "err:Other"
  | _ => "bad-op"

def dispatchRe (op : String) (args : List String) : Option String :=
  match op with
  | "re.find" => some (hReFind args)
  | "re.ends" => some (hReEnds args)
  | "re.search" => some (hReSearch args)
  | "re.lang" => some (hReLang args)
  | "ip.extract" => some (hIpExtract args)
  | "ip.drop" => some (hIpDrop args)
  | "ip.sweep" => some (hIpSweep args)
  | "guid.extract" => some (hGuidExtract args)
  | "guid.score" => some (hGuidScore args)
  | "re.findcap" => some (hReFindCap args)
  | "url.extract" => some (hUrlExtract args)
  | "spec.url" => some (hSpecUrl args)
  | "phone.extract" => some (hPhoneExtract args)
  | "spec.seq" => some (hSpecSeq args)
  | "spec.ip" => some (hSpecIp args)
  | "spec.guid" => some (hSpecGuid args)
  | "spec.bool" => some (hSpecBool args)
  | _ => none

end RTV.Drv
