import RTV.Model.DefiniteRange
import RTV.Drv.Proto
/- driver op `rdef <hasMod 0|1> <strict 0|1> <type> <timex> <start|?> <end|?>` → `1` / `0` (RTV.DefRange.rangeDefiniteOK);
   `rperiod <timex>` → `<first> <after>` as YYYY-MM-DD or `none` -/
namespace RTV.Drv
open RTV.WF RTV.DefRange RTV.Cal

def dispatchDefRange (op : String) (args : List String) : Option String :=
  let opt (f : String) : Option Str := if f == "?" then none else some (parseCps f)
  match op, args with
  | "rdef", [m, st, t, x, s, e] =>
    some (if rangeDefiniteOK (m == "1") (st == "1") ⟨parseCps t, parseCps x, none, opt s, opt e⟩ then "1" else "0")
  | "rperiod", [x] =>
    some (match periodOf (parseCps x) with
      | some (b, a) => showCps (formatDate (Date.ofOrd b)) ++ "\t" ++ showCps (formatDate (Date.ofOrd a))
      | none => "none")
  | _, _ => none

end RTV.Drv
