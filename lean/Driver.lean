import RTV.Drv.Match
import RTV.Drv.WellFormed
import RTV.Drv.DefiniteRange
import RTV.Drv.Unit
import RTV.Drv.Num
import RTV.Drv.NumFrac
import RTV.Drv.NumCjk
import RTV.Drv.ResGen
import RTV.Drv.Timex
import RTV.Drv.Factory
import RTV.Drv.Re
import RTV.Drv.Choice
import RTV.Drv.Cal
import RTV.Drv.DtRes
import RTV.Drv.Span
import RTV.Drv.UnitExtract
import RTV.Drv.Periods
import RTV.Drv.Periods2
import RTV.Drv.DtPeriod
import RTV.Drv.Holiday
import RTV.Drv.Durations
import RTV.Drv.TimePeriod
import RTV.Drv.DtExtract
import RTV.Drv.DtExtract2
import RTV.Drv.CultureCfg
import RTV.Drv.ZhDateTime
import RTV.Drv.ZhTimePeriod
import RTV.Drv.DateParser
import RTV.Drv.NumExtract
import RTV.Drv.NumBig
import RTV.Drv.NumOrd
import RTV.Drv.DateFront
import RTV.Drv.DateFrontCul
import RTV.Drv.TimeFront
/-! Model driver: one operation per input line (tab-separated), one answer line per operation.
Run compiled (`.lake/build/bin/rtvdriver`) or with `lake env lean --run Driver.lean`. -/
open RTV.Drv

def dispatch (line : String) : String :=
  match line.splitOn "\t" with
  | op :: args =>
    (dispatchMatch op args
      <|> dispatchWF op args
      <|> dispatchDefRange op args
      <|> dispatchUnit op args
      <|> dispatchResGen op args
      <|> dispatchFactory op args
      <|> dispatchRe op args
      <|> dispatchChoice op args
      <|> dispatchTimex op args
      <|> dispatchCal op args
      <|> dispatchPeriods op args
      <|> dispatchPeriods2 op args
      <|> dispatchDtPeriod op args
      <|> dispatchHoliday op args
      <|> dispatchDurations op args
      <|> dispatchTimePeriod op args
      <|> dispatchDtExtract op args
      <|> dispatchDtExtract2 op args
      <|> dispatchCultureCfg op args
      <|> dispatchZhDateTime op args
      <|> dispatchZhTimePeriod op args
      <|> dispatchDateParser op args
      <|> dispatchDtRes op args
      <|> dispatchNum op args
      <|> dispatchNumFrac op args
      <|> dispatchNumCjk op args
      <|> dispatchSpan op args
      <|> dispatchUnitExtract op args
      <|> dispatchNumExtract op args
      <|> dispatchNumBig op args
      <|> dispatchNumOrd op args
      <|> dispatchDateFront op args
      <|> dispatchDateFrontCul op args
      <|> dispatchTimeFront op args
      -- <|> dispatchOther op args   (one alternative per layer)
      ).getD "bad-op"
  | _ => "bad-op"

partial def loop (h : IO.FS.Stream) (out : IO.FS.Stream) : IO Unit := do
  let line ← h.getLine
  if line.isEmpty then return ()
  let l := if line.endsWith "\n" then (line.dropEnd 1).toString else line
  out.putStrLn (dispatch l)
  loop h out

def main : IO Unit := do
  let out ← IO.getStdout
  loop (← IO.getStdin) out
  out.flush
