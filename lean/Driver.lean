import RTV.Drv.Match
import RTV.Drv.WellFormed
import RTV.Drv.DefiniteRange
import RTV.Drv.Unit
import RTV.Drv.UnitCompound
import RTV.Drv.Num
import RTV.Drv.NumFrac
import RTV.Drv.NumCjk
import RTV.Drv.ResGen
import RTV.Drv.Timex
import RTV.Drv.Factory
import RTV.Drv.Re
import RTV.Drv.Choice
import RTV.Drv.Cal
import RTV.Drv.DtRes
import RTV.Drv.Span
import RTV.Drv.UnitExtract
import RTV.Drv.Periods
import RTV.Drv.Periods2
import RTV.Drv.DtPeriod
import RTV.Drv.Holiday
import RTV.Drv.Durations
import RTV.Drv.TimePeriod
import RTV.Drv.DtExtract
import RTV.Drv.DtExtract2
import RTV.Drv.CultureCfg
import RTV.Drv.ZhDateTime
import RTV.Drv.ZhTimePeriod
import RTV.Drv.DateParser
import RTV.Drv.NumExtract
import RTV.Drv.NumBig
import RTV.Drv.NumOrd
import RTV.Drv.DateFront
import RTV.Drv.DateFrontCul
import RTV.Drv.TimeFront
/-! Model driver: one operation per input line (tab-separated), one answer line per operation.
Run compiled (`.lake/build/bin/rtvdriver`) or with `lake env lean --run Driver.lean`. -/
open RTV.Drv

def dispatch (line : String) : String :=
  match line.splitOn "\t" with
  | op :: args =>
    (dispatchMatch op args
      <|> dispatchWF op args
      <|> dispatchDefRange op args
      <|> dispatchUnit op args
      <|> dispatchUnitCompound op args
      <|> dispatchResGen op args
      <|> dispatchFactory op args
      <|> dispatchRe op args
      <|> dispatchChoice op args
      <|> dispatchTimex op args
      <|> dispatchCal op args
      <|> dispatchPeriods op args
      <|> dispatchPeriods2 op args
      <|> dispatchDtPeriod op args
      <|> dispatchHoliday op args
      <|> dispatchDurations op args
      <|> dispatchTimePeriod op args
      <|> dispatchDtExtract op args
      <|> dispatchDtExtract2 op args
      <|> dispatchCultureCfg op args
      <|> dispatchZhDateTime op args
      <|> dispatchZhTimePeriod op args
      <|> dispatchDateParser op args
      <|> dispatchDtRes op args
      <|> dispatchNum op args
      <|> dispatchNumFrac op args
      <|> dispatchNumCjk op args
      <|> dispatchSpan op args
      <|> dispatchUnitExtract op args
      <|> dispatchNumExtract op args
      <|> dispatchNumBig op args
      <|> dispatchNumOrd op args
      <|> dispatchDateFront op args
      <|> dispatchDateFrontCul op args
      <|> dispatchTimeFront op args
      -- <|> dispatchOther op args   (one alternative per layer)
      ).getD "bad-op"
  | _ => "bad-op"

/-- A `panic!` raised while an operation is evaluated (a malformed numeric field: `RTV.Drv.parseNat` / `parseInt`; an
out-of-range `get!` in a model) writes to the Lean-level stderr stream, which `main` points at `errBuf`: the operation is
then answered `err:BadArg` / `err:Panic` instead of a value computed from a silently defaulted field. -/
partial def loop (h : IO.FS.Stream) (out : IO.FS.Stream) (errBuf : IO.Ref IO.FS.Stream.Buffer) (orig : IO.FS.Stream) : IO Unit := do
  let line ← h.getLine
  if line.isEmpty then return ()
  let l := if line.endsWith "\n" then (line.dropEnd 1).toString else line
  let ans ← IO.lazyPure fun _ => dispatch l
  let eb ← errBuf.get
  if eb.data.size > 0 then
    errBuf.set {}
    let msg := (String.fromUTF8? eb.data).getD "PANIC (undecodable message)"
    orig.putStrLn (((msg.splitOn "\n").headD "") ++ "   [operation: " ++ ((l.splitOn "\t").headD "") ++ "]")
    out.putStrLn (if (msg.splitOn "BadArg").length > 1 then "err:BadArg" else "err:Panic")
  else
    out.putStrLn ans
  loop h out errBuf orig

def main : IO Unit := do
  let out ← IO.getStdout
  let orig ← IO.getStderr
  let errBuf ← IO.mkRef ({} : IO.FS.Stream.Buffer)
  let _ ← IO.setStderr (IO.FS.Stream.ofBuffer errBuf)
  loop (← IO.getStdin) out errBuf orig
  out.flush
