#!/venv/bin/python
"""mkrequired [--check] <Cxx> [<Cxx> …] | --all

Write harness/required/<Cxx>.txt: every PUBLIC theorem of the property's Props modules (PROPS_MODULES of harness/corr/<cxx>.py),
one `Module:Full.Theorem.Name` per line, read off the COMPILED modules (Audit.lean), minus the module's OPTIONAL_THEOREMS.
vcheck compares the compiled modules with the list on every run: a listed theorem that is gone (deleted, renamed, made
private) is a `missing theorem` proof problem; theorems that are not in the list yet are shown in the evidence
(`required_theorems.public_theorems_not_in_the_list`).  Regenerate (and commit) after an INTENDED rename / removal / addition.
The modules must have been built (`harness/lk build <modules>`); --check only prints the differences."""
import importlib
import os
import sys

HERE = os.path.dirname(os.path.abspath(__file__))
sys.path.insert(0, HERE)
from lib import common  # noqa: E402


def main(argv):
    args = [a for a in argv[1:] if not a.startswith('--')]
    check = '--check' in argv
    if '--all' in argv:
        args = sorted(f[:-3].upper() for f in os.listdir(os.path.join(HERE, 'corr')) if f[:1] == 'c' and f[1:3].isdigit() and f.endswith('.py'))
    if not args:
        print(__doc__)
        return 2
    rc = 0
    for prop in args:
        mod = importlib.import_module('corr.' + prop.lower())
        mods = getattr(mod, 'PROPS_MODULES', ['RTV.Props.' + prop])
        optional = set(getattr(mod, 'OPTIONAL_THEOREMS', []))
        try:
            thms, _suspects, _ = common.audit(mods)
        except common.InfraError as e:
            print('%s: NOT written (the modules are not all built: harness/lk build %s): %s' % (prop, ' '.join(mods), str(e)[-300:]))
            rc = 2
            continue
        names = sorted(n for n in thms if n.split(':')[0] in mods and not n.split(':', 1)[1].startswith('_private.')
                       and n not in optional and n.split(':', 1)[1] not in optional and n.split('.')[-1] not in optional)
        old = common.load_required(prop) or []
        gone, new = sorted(set(old) - set(names)), sorted(set(names) - set(old))
        print('%s: %d public theorems in %d modules; %d no longer there, %d new' % (prop, len(names), len(mods), len(gone), len(new)))
        for g in gone:
            print('   gone: ' + g)
        for g in new[:400] if check else []:
            print('   new:  ' + g)
        if check:
            rc = rc or (1 if gone else 0)
            continue
        text = ('# every public theorem of the Props modules of %s (harness/mkrequired.py; full names; compared by vcheck every run)\n'
                % prop + '\n'.join(names) + '\n')
        common.write_if_changed(os.path.join(common.REQUIRED, prop + '.txt'), text)
    return rc


if __name__ == '__main__':
    sys.exit(main(sys.argv))
