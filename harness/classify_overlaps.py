#!/venv/bin/python
"""classify_overlaps.py — sort the recorded C12 findings (overlapping entities, keyed by input) by mechanism.

Reads the input-keyed candidate files (findings_c12_candidates*.json), keeps the signatures that are recorded in
known_findings.json, re-runs every input through the instrumented extractors and the plain pipeline of the working
tree and writes findings/span/overlap-mechanisms.{md,json}.  Not part of any check."""
import collections
import datetime
import glob
import json
import os
import sys

HERE = os.path.dirname(os.path.abspath(__file__))
sys.path.insert(0, HERE)
from lib import common, spanpipe, spanunit  # noqa: E402


def main():
    known = {f['signature'] for f in common.load_known().get('findings', []) if f.get('property') == 'C12'}
    ents = {}
    for f in sorted(glob.glob(os.path.join(common.VERIF, 'findings_c12_candidates*.json'))):
        for e in json.load(open(f, encoding='utf-8')).get('input_keyed', []):
            if e['signature'] in known:
                ents[e['signature']] = e
    rec_of = {'DateTimeModel': 'DateTime', 'PhoneNumberModel': 'Sequence'}
    tasks, sigs = [], []
    for sig, e in sorted(ents.items()):
        rec = rec_of.get(e['model'], 'NumberWithUnit')
        ref = datetime.datetime.strptime(e['reference'], '%Y-%m-%dT%H:%M:%S') if e.get('reference') else None
        tasks.append((rec, e['model'], e['culture'], e['input'], ref))
        sigs.append(sig)
    res = spanpipe.run(tasks, cache=False)
    ops, _ = spanunit.unit_ops([t for t in tasks if t[0] == 'DateTime'], cache=False)
    mext = {}
    for o in ops:
        if o.get('kind') == 'mext' and o.get('task'):
            t = tuple(o['task'])
            if o['src'] == o['task'][3].lower() or t not in mext:     # the outermost call sees the whole query
                mext[t] = o
    rows = []
    for sig, t, r in zip(sigs, tasks, res):
        if not r or r[0] != 'ok':
            rows.append((sig, t, 'not reproduced (timeout / error)', ''))
            continue
        spans = r[1]
        ov = spanpipe.overlaps(spans)
        if not ov:
            rows.append((sig, t, 'no longer overlapping on this tree', ''))
            continue
        a, b = spans[ov[0][0]], spans[ov[0][1]]
        detail = '%s [%d,%d] x %s [%d,%d]' % (a[3], a[0], a[1], b[3], b[0], b[1])
        if t[0] == 'Sequence':
            mech = 'phone: international-prefix re-spanning reaches into the previous number'
        elif t[0] == 'NumberWithUnit':
            lo, hi = max(a[0], b[0]), min(a[1], b[1])
            shared = t[3][lo:hi + 1]
            nested = (a[0] <= b[0] and b[1] <= a[1]) or (b[0] <= a[0] and a[1] <= b[1])
            if nested:
                mech = 'number-with-unit: one result nested in another (b_add keeps a later result contained in an earlier one)'
            elif not any(c.isdigit() for c in shared):
                mech = 'number-with-unit: a unit token is the suffix of one number and the prefix of the next (%r)' % shared.strip()
            else:
                mech = 'number-with-unit: other crossing'
        elif t[2] == 'zh-cn':
            bad_span = any(s[0] < 0 or s[1] >= len(t[3]) or len(s[2]) != s[1] - s[0] + 1 for s in (a, b))
            mech = ('zh-cn: ChineseMergedExtractor.add_mod offset arithmetic (span no longer matches its text)' if bad_span
                    else 'zh-cn: ChineseMergedExtractor.add_to (first-overlap rule / move_overlap leaves a crossing or nested entity)')
        else:
            o = mext.get((t[0], t[1], t[2], t[3]))
            if o is None:
                mech = 'date-time: merged extractor call not recorded'
            elif o.get('crossings'):
                c = o['crossings'][0]
                mech = 'date-time: add_to keeps a crossing value (%s inserted across a %s)' % (
                    c[0].split('.')[-1], c[2].split('.')[-1])
            elif not o['hyp'].get('disjoint_out', True):
                mech = 'date-time: modifier extension in add_mod runs into a neighbour' if o.get('n_mods') else \
                    'date-time: merged extractor output overlaps without a crossing add_to step'
            else:
                mech = 'date-time: extractor output disjoint; the parser widens / splits an entity'
        rows.append((sig, t, mech, detail))
    by = collections.OrderedDict()
    for sig, t, mech, detail in sorted(rows, key=lambda r: (r[2], r[1][2], r[1][3])):
        by.setdefault(mech, []).append((sig, t, detail))
    os.makedirs(os.path.join(common.VERIF, 'findings', 'span'), exist_ok=True)
    head = common.run(['git', '-C', common.REPO, 'rev-parse', '--short', 'HEAD'])[1].strip()
    lines = ['# Recorded C12 findings (overlapping entities) by mechanism', '',
             'Working tree: /repo %s. %d recorded input-keyed signatures re-run through the plain pipeline and, for '
             'date-time, through the instrumented merged extractor (`harness/classify_overlaps.py`).' % (head, len(rows)), '',
             '| mechanism | inputs | cultures |', '|---|---|---|']
    groups = collections.OrderedDict()
    for mech, items in by.items():
        groups.setdefault(mech.split(' (')[0], []).extend(items)
    for mech, items in sorted(groups.items(), key=lambda kv: -len(kv[1])):
        cul = collections.Counter(t[2] for _, t, _ in items)
        lines.append('| %s | %d | %s |' % (mech, len(items), ', '.join('%s %d' % kv for kv in sorted(cul.items()))))
    lines += ['', 'Sub-classes (which entity type was inserted across which, which unit token is shared):', '',
              '| mechanism | inputs |', '|---|---|']
    for mech, items in sorted(by.items(), key=lambda kv: -len(kv[1])):
        lines.append('| %s | %d |' % (mech, len(items)))
    lines.append('')
    for mech, items in sorted(by.items(), key=lambda kv: -len(kv[1])):
        lines += ['## %s (%d)' % (mech, len(items)), '']
        for sig, t, detail in items[:8]:
            lines.append('* `%s` — %s `%s`: %s' % (sig.split(':')[3], t[2], t[3].replace('`', "'"), detail))
        if len(items) > 8:
            lines.append('* … %d more (see overlap-mechanisms.json)' % (len(items) - 8))
        lines.append('')
    open(os.path.join(common.VERIF, 'findings', 'span', 'overlap-mechanisms.md'), 'w', encoding='utf-8').write('\n'.join(lines))
    json.dump({mech: [{'signature': s, 'culture': t[2], 'model': t[1], 'input': t[3], 'pair': d} for s, t, d in items]
               for mech, items in by.items()},
              open(os.path.join(common.VERIF, 'findings', 'span', 'overlap-mechanisms.json'), 'w', encoding='utf-8'),
              ensure_ascii=False, indent=1)
    for mech, items in sorted(by.items(), key=lambda kv: -len(kv[1])):
        print('%4d  %s' % (len(items), mech))


if __name__ == '__main__':
    main()
