#!/venv/bin/python
"""mksets <Cxx> --sig <signature> [--sig …] [--note text] <dump.json> [<dump.json> …]

Write / extend the committed failing set of a recorded class-level signature
(/verif/findings/sets/<property>/<signature>.json) from `VERIF_DUMP_KNOWN=<file> harness/vcheck Cxx <tier>` dumps taken on
the UNCHANGED tree: the exact inputs (keys) on which the signature fails today.  From then on the check treats a failing
input of that signature OUTSIDE the set as a new violation and lists the inputs of the set that pass as stale.
Only for input families that are enumerated deterministically (independent of VERIF_SEED); a family sampled at random
must be split by the sub-family that really fails instead.  Existing sets are only ever extended (union)."""
import json
import os
import sys

HERE = os.path.dirname(os.path.abspath(__file__))
sys.path.insert(0, HERE)
from lib import common  # noqa: E402


def main(argv):
    if len(argv) < 3:
        print(__doc__)
        return 2
    prop = argv[1]
    sigs, dumps, note = [], [], ''
    i = 2
    while i < len(argv):
        if argv[i] == '--sig':
            sigs.append(argv[i + 1])
            i += 2
        elif argv[i] == '--note':
            note = argv[i + 1]
            i += 2
        else:
            dumps.append(argv[i])
            i += 1
    keys = {s: set() for s in sigs}
    for d in dumps:
        for reported, recorded, key in json.load(open(d, encoding='utf-8')):
            if recorded in keys and key is not None:
                keys[recorded].add(key)
    known = {f['signature'] for f in common.load_known().get('findings', []) if f.get('property') == prop}
    for s in sigs:
        if s not in known:
            print('not a recorded signature of %s: %s' % (prop, s))
            return 1
        path = os.path.join(common.SETS, prop, common.set_file_name(s))
        old = set()
        j = {}
        if os.path.exists(path):
            j = json.load(open(path, encoding='utf-8'))
            old = set(j.get('failing', []))
        allk = sorted(old | keys[s])
        if not allk:
            print('no failing input of %s in the dumps: nothing written' % s)
            continue
        os.makedirs(os.path.dirname(path), exist_ok=True)
        out = {'property': prop, 'signature': s,
               'key': j.get('key', 'culture|query[|reference] of the failing input (lib/common.input_key)'),
               'note': note or j.get('note', ''),
               'failing': allk}
        common.write_if_changed(path, json.dumps(out, ensure_ascii=False, indent=0) + '\n')
        print('%s: %d inputs (%d new) -> %s' % (s, len(allk), len(set(allk) - old), os.path.relpath(path, common.VERIF)))
    return 0


if __name__ == '__main__':
    sys.exit(main(sys.argv))
