#!/usr/bin/env python3
"""Regenerates /verif/MANIFEST.json from the table below (kept here so the manifest is always valid JSON and in
step with the checks that exist)."""
import json, os
VERIF = os.path.dirname(os.path.dirname(os.path.abspath(__file__)))

CHECKS = {}
NA = {}


def check(pid, category, text, note, technique, design_ref, thorough=True):
    CHECKS[pid] = {
        'property_id': pid,
        'quick_cmd': 'harness/vcheck %s quick' % pid,
        'thorough_cmd': 'harness/vcheck %s thorough' % pid,
        'evidence_file': 'evidence/%s.json' % pid,
        'replay_cmd_template': 'harness/vcheck %s quick --replay {path}' % pid,
        'engine': 'rtv-lean',
        'level_claimed': {'category': category, 'text': text, 'design_ref': design_ref},
        'level_note': note,
        'technique': technique,
    }


TB = ('Trusted: Lean 4.33 kernel; axioms propext/Classical.choice/Quot.sound only (audited each run, no native_decide, '
      'no sorry, no own axioms); the translator and the correspondence harness; the shims for datedelta/grapheme/ruamel; '
      'CPython/regex behaviour. ')

check('C01', 'proof',
      'Span algebra proved universally over ANY list of regex match spans (the regex engine is a parameter): sweep_spans / '
      'sweep_spans_ip / sweep_spans_number (every extracted result is non-empty, in bounds and its text is the stripped slice), '
      'percent_posmap_monotone / percent_restore_span, mergeAllTokens_text, mergeModPrefix_span, modifier_push_pop, '
      'phoneRespan_span, model_end (end = start + length - 1); preprocess_length: query normalisation (recode table '
      'regenerated from QueryProcessor.preprocess each run + per-character lower-casing) preserves the length for every '
      'query, with the negative theorem for the pre-fix str.lower() (U+0130). Unit correspondence replays ~40k RECORDED '
      'calls of the real extractors (regex match spans captured by wrapping regex from the harness) through the Lean model; '
      'preprocess is compared on EVERY code point. Pipeline: the predicate spanOK on every entity of every registered '
      '(model, culture) pair (81) over Specs inputs, generated expressions in carriers and a noise pool. '
      'BaseMergedExtractor.extract\'s span pipeline (add_to chain, filters, add_mod merges, sort) is modelled for ANY '
      'sub-extractor outputs and regex outcomes: mergedExtract_spans (outputs lie in the query, text = slice, each comes from a '
      'sub-extractor entity); BaseMergedParser\'s modifier push/pop with both modifiers in sequence: parser_push_pop (restored '
      'start/length/text equal the originals for every modifier combination at the start of the text) with kernel-decided '
      'witnesses for a dropped has_around reset, equal+around and a leading blank. Recorded calls of the real merged extractors '
      '(8 cultures), Chinese add_to and the merged parser are replayed in the model.',
      TB + 'Culture configurations, the date-time sub-extractors\' own token arithmetic (before merge_all_tokens) and '
      'ChineseMergedExtractor.add_mod are reached only by the pipeline predicate (NumberWithUnit extraction: C05/UnitExtract; '
      'Choice: C20). 58 recorded findings keyed by input (zh-cn date-time offsets).',
      'Lean 4 proof (span algebra universal over regex behaviour) + recorded-call correspondence + pipeline predicate',
      'DESIGN.md §3 C01')

check('C02', 'proof',
      'Hidden state made explicit (Env = ambient decimal precision, process-wide cache, history). Proved: cache_transparent '
      '(warm = cold after any history), recognition_pure (entities are a function of request and query alone: any history, '
      'cache state, thread precision — every Decimal computation is reached through @precision(15)), interleave_cache (any '
      'number of threads, any schedule of the atomic dict operations of ModelFactory.get_model: every answer is the '
      'request\'s own cold answer; double construction possible, foreign model never), decorated_prec_indep / '
      'digit_value_prec_indep; regression section for the repaired defect (undecorated_prec_dependent: 1/3 at precision 15 '
      'vs 28). Tie: 120-400 seeded dict-op schedules executed exactly on the real ModelFactory with a semaphore-controlled '
      'cache dict against the Lean scheduler, and a 1.5k-2.8k tuple pool run cold / warm / permuted / on 1-16 threads / on a '
      'fresh thread / as single calls against the sequential cold answers.',
      TB + 'PARTIAL: GIL atomicity of dict get/set, immutability of model objects after construction, preemption inside regex and GC '
      'are assumptions the model cannot exhibit; the free-running thread runs are validation, not proof.',
      'Lean 4 proof (non-interference, interleaving invariant) + controlled-schedule and pool correspondence',
      'DESIGN.md §3 C02')

check('C03', 'proof',
      'Lean model of Python `decimal` under a context (precision p, half-even), `_get_digital_value`, sign handling and '
      '`CultureInfo.format`, with the ten cultures\' parser configurations regenerated from the working tree each run. Proved '
      'for each regenerated configuration and EVERY well-formed literal (plain, grouped, decimal, grouped+decimal, optionally '
      'negative) of at most 15 digits written with that culture\'s own marks: digital_exact_literal and its shape corollaries '
      '(the parser returns exactly the number written; the one exact guard — a single grouping mark without fraction must be '
      'standard grouping in the multi-decimal-separator cultures — has a witness); format_canonical_general (for adjusted '
      'exponent >= -6 the resolution consists of digits, an optional sign and the culture\'s decimal mark only: no exponent, '
      'never the grouping mark); percent_literal_general (percentage = number resolution + one %, all cultures but zh-cn); '
      'digital_round16; facts on the regenerated configurations (marks read = marks written, grouping mark foreign to the '
      'output); format_canonical_reads_back / number_literal_general: for values >= 10^-6 the resolution string read with the '
      'culture\'s decimal mark is exactly the literal\'s sign and value, no trailing fraction zeros (witnesses outside the guard: '
      'zero_fraction_witness 0.0 -> 0E-55, single_mark_nonstandard_witness); constants_regenerated (NBSP, Decimal(0.1), the '
      '@precision argument). Tie: ~130k decimal / parser / format operations per run against CPython and the parser, and '
      'the pipeline oracle (literal shape x boundary magnitude x culture through recognize_number / recognize_percentage).',
      TB + 'Extractor regexes and the percentage position map are monitored only. 8 recorded findings (CJK grouped percentages).',
      'Lean 4 proof (general over literals and configurations) + regenerated configurations + unit and pipeline correspondence',
      'DESIGN.md §3 C03')

check('C04', 'proof',
      'english_cardinal / english_ordinal: getIntValue en (spell n v) = n and the ordinal analogue for ALL n < 10^15 and all 8 '
      'spelling variants, by induction over the group structure, with the finite word facts evaluated by the kernel on the '
      'regenerated English maps (a changed map entry breaks an obligation). Other cultures, with their regenerated maps and '
      'their own resolve_composite_number: spanish_ / portuguese_ / german_ / dutch_sub1e6 (ALL n < 10^6, structural lemma '
      'thousand_group for any language configuration + sub-1000 kernel evaluation), french_sub1000_partial and italian_sub1000_partial (exact guards + witnesses that are the '
      'recorded findings: plural `cents`, accented `-tré`), cjk_int_zh (all n < 10000), cjk_int_ja_partial (exact guard + '
      'witnesses 二百十八 -> 228). The Lean spell functions are the generators the harness uses; text_number_regex must tokenise '
      'each numeral into exactly the specification\'s tokens. round_map_consistent (en, es, fr, pt, it, nl: every RoundNumberMap '
      'word that is also a cardinal/ordinal key has the same value there; round_map_consistent_de_partial + '
      'german_milliard_witness). Unit correspondence (~60k operations); pipeline oracle for nine cultures incl. scale words up '
      'to 10^12 with each culture\'s apocope/agreement rules and ordinals of es fr pt de it nl; every key of the Cardinal/Ordinal '
      'maps read from Patterns/<Lang>-Numbers.yaml AND the module asked alone (1571 keys, contract of 237 non-numerals committed).',
      TB + 'Extraction regexes are tied by the pipeline only; above 1000 (European) / 10000 (CJK) the other cultures have no theorem '
      '(pipeline families only). 17 recorded findings (regex / resource data of fr, it, pt, ja, es, English ordinals).',
      'Lean 4 proof (induction for English, kernel evaluation over full ranges for the other cultures) + regenerated maps + unit/pipeline correspondence',
      'DESIGN.md §3 C04')

check('C06', 'proof',
      'Lean model of match_to_date (BaseDateParser and ChineseDateParser), generate_dates + validity guard, luis_date/format_date, '
      '_date_time_resolution. Proved for every layout group decoding, table spelling and reference: abs_date / '
      'abs_date_reference_independent (valid date 1900-2099 -> exactly [YYYY-MM-DD, date, YYYY-MM-DD]), abs_date_zh (Chinese '
      'digit / hanzi month-day keys, digit or converted hanzi year), two_digit_year + two_digit_year_gap + witness (3/5/30 -> '
      '0030), invalid_date_not_resolved; table facts re-decided each run on the regenerated maps (month_map_*/day_map_* for 8 '
      'cultures, english_month_names, zh_tables, pivots_sane).',
      TB + 'Regex engine, extractors, get_year_from_text and convert_chinese_year_to_number are model inputs (pipeline only). '
      'Two-digit years are outside the property (gap 30-39 -> 00YY proved and replayed as an observation). Thorough covers every '
      'date and every contract layout, not their full product.',
      'Lean 4 proof about a faithful model + tables regenerated from the parser configurations + unit correspondence (format on '
      'all 73,049 dates, generate_dates grid, ~14k real match_to_date calls in 9 cultures) + pipeline over the committed layout '
      'contract contracts/C06.json x references 1950-2090', 'DESIGN.md §3 C06')

check('C07', 'proof',
      'Lean model of match_to_time (both variants of the hour-0 test), adjust_by_prefix/adjust_by_suffix of all 8 BaseTimeParser '
      'cultures, ChineseTimeParser decode/pack, DateTimeFormatUtil incl. to_pm/all_str_to_pm, _resolve_ampm, merge_date_and_time. '
      'Proved for all h<24, m,s<60, any reference: clock24, clock12, ambiguous_two_readings, date_at_time (+_unambiguous/_ambiguous), '
      'clock_cultures / date_at_time_cultures / designator_cultures (every culture configuration; phrase designators h am -> h mod '
      '12, h pm -> h mod 12 + 12), clock24_zh; regression witnesses clock24_hour0_unresolved, afternoon_12_both_readings, '
      'zh_ampm_any_hour_witness for the pre-fix code.',
      TB + 'Group values and regex outcomes (desc/prefix/suffix classification, German/Dutch token regexes, PM/AMTimeRegex of '
      'merge_date_and_time) are model inputs: regex-level changes are caught by the pipeline only. handle_less (Chinese) not '
      'modelled. Defects found and fixed: 5938cc07e, 2534fc60f, 1a38b64a7, 5092b5407, a2b747947; two recorded: date-at-12-word, '
      'it-midnight-attached.',
      'Lean 4 proof about a faithful model + unit correspondence (format util over full ranges, ~16k real match_to_time calls in 8 '
      'cultures, 4.4k ChineseTimeParser.parse, resolution, merge) + pipeline over contracts/C07.json (24-hour, am/pm designators, '
      'word times alone and attached to dates, all 86,400 HH:MM:SS in thorough)', 'DESIGN.md §3 C07')

check('C08', 'proof',
      'Lean theorems for EVERY reference datetime (valid date 0001..9999, no other bound), every N and every shift k about a '
      'function-by-function model of DateUtils.this/next/last, AgoLaterUtil.get_date_result (days, weeks, months, years, hours, '
      'minutes, seconds), BaseDateParser.parse_implicit_date (special days, next/this/last weekday), '
      'BaseDatePeriodParser._parse_one_word_period (week, weekend, month, year, early/mid/late prefixes, year/month to date) and '
      'the rest-of block of _parse_duration, on top of CPython\'s calendar (the _ymd2ord/_ord2ymd round trip and a full '
      'characterisation of isocalendar() are proved): next/this/last <weekday> has the asked weekday and lies in the ISO week '
      'shifted by +1/0/-1 (this_in_iso_week, next_is_following_week, last_is_preceding_week); today/tomorrow/yesterday = R.date '
      '+0/+1/-1; N days ago / in N days = R -/+ N days, N weeks = 7N days (n_days_ago, in_n_days, n_weeks_is_7n_days); N '
      'hours|minutes|seconds ago/later = the reference instant -/+ N units (hms_ago_later, hms_units); this/next/last week = '
      '[Monday(R)+7k, +7) with TIMEX = ISO year and week of that Monday although the code reads them off the Thursday '
      '(this_week_is_monday_to_monday, week_timex_matches_isocalendar); weekend = [Saturday, Monday) with TIMEX = ISO year and '
      'week of the Saturday (weekend_timex_fixed); month = [1st of the shifted month, 1st of the next) with TIMEX YYYY-MM '
      '(month_period_fixed); year = [Jan 1 y+k, Jan 1 y+k+1) (year_period); year/month to date = [Jan 1 | 1st of the month, R] for '
      'the past and the future value (year_to_date, month_to_date); now = R. For early/mid/late and rest-of the theorems state '
      'what the code computes (week_prefix_period, month_prefix_period, year_prefix_period, rest_of_week/month/year: inclusive '
      'end, P<n>D with n = end-begin for weeks but end-begin+1 for months and years). The model mirrors the code after five '
      'fixes found by this check (next-month-day-overflow, weekend-timex-reference-year, month-to-date-past-start, '
      'zh-ago-number-truncated here; written-day-past-year-plus-one in C09); each pre-fix variant stays modelled in a labelled '
      'REGRESSION section with its exact guard and a decide-witness (2020-01-31, 2020-12-31/2021-01-03, 2020-05-20), so a revert '
      'is named with that input. Tie: CPython ord2ymd/weekday/isocalendar vs the model on every ordinal 1..3652059 (thorough) / '
      'every day 1950..2090 + stride (quick); the datedelta shim; DateUtils on every day 1950..2090; get_date_result and the '
      'three parser functions called directly on boundary-first references x three times of day; recognize_datetime on the '
      'property\'s English expression families and on the expressions of contracts/C08.json for es-es, es-mx, fr-fr, pt-br, '
      'it-it, de-de, nl-nl, zh-cn, en-us (the culture\'s own words: texts and expected values taken from the cross-platform Specs '
      'and classified with the property itself at the Specs reference, committed), numbers varied, with the property computed '
      'independently as oracle and the model\'s prediction compared as well.',
      TB + 'datedelta is a shim (documented roll-forward / clamp semantics). Not modelled (pipeline-monitored only): every '
      'culture\'s get_swift_* / regexes / extractor and merger plumbing, the Chinese date parser; for early/mid/late and rest-of '
      'the oracle is the model, not a property. es-mx has no Specs of its own and is held to the Spanish contract.',
      'Lean 4 proof (omega over ordinals after a proved _ord2ymd round trip and isocalendar characterisation; decide for '
      'in-year tables and witnesses) + unit, function-level and nine-culture pipeline correspondence with an independent oracle',
      'DESIGN.md §3 C08')

check('C09', 'proof',
      'Lean theorems for every reference about the model of DateUtils.generate_dates, the bare-weekday branch of '
      'BaseDateParser.parse_implicit_date and the month + spelled-out-day tail of parse_number_with_month: bare weekday -> '
      'future = past + 7, past < R.date <= future, stated weekday, midnight, TIMEX XXXX-WXX-d, also when the stated weekday is the '
      'reference\'s own (weekday_candidates, weekday_candidates_adjacent); month-day -> the same (m, d) in two consecutive years '
      'with past < R.date <= future, TIMEX XXXX-MM-DD, proved under the exact guard "reference time of day = 00:00:00" '
      '(monthday_candidates_partial; negative witness May 10 @ 2020-05-10 14:00 -> [2020-05-10, 2021-05-10] proved; the full '
      'statement proved for the variant that compares dates, monthday_candidates_fixed) - this is the recorded finding '
      'monthday-reference-time-of-day, kept because six Specs cases encode it; month + spelled-out day ("february twenty '
      'second", "mayo veintiuno") -> nearest past / next future occurrence (written_day_fixed; the pre-fix year+1 variant kept as '
      'a labelled regression with guard and witness 2020-02-21); 29 February -> the neighbouring leap years with no leap year '
      'strictly between, century rules included: unconditional from non-leap years, guarded from leap years (witnesses '
      '2020-02-29 14:00 and 2096-03-01 proved; the guard is shown to hold throughout 1950..2090). Tie: generate_dates on all 366 '
      '(m, d) x boundary references x three times of day (also explicit years, invalid days, the edges of 0001..9999), the bare '
      'weekday branch on every day 1950..2090 x all spellings, parse_number_with_month called directly, and recognize_datetime on '
      'English month-day layouts / weekday names and on the expressions of contracts/C09.json for es-es, es-mx, fr-fr, pt-br, '
      'it-it, de-de, nl-nl, zh-cn, en-us (texts and expected values from the cross-platform Specs, classified with the property '
      'itself, committed) x references around the stated day (day before, the day at 00:00:00 and with a time of day, day after) '
      '+ seeded, with the property computed independently as oracle.',
      TB + 'The order of the two values (past first) is monitored, not modelled (C11). Other cultures: pipeline only; an '
      'expression known from parser-level Specs only is demanded when the pipeline extracts it on its own, otherwise it is retried '
      'inside the Specs\' own sentence. Outside 1950..2090, 29 February asked in a leap year next to a non-leap century (1896, '
      '1904, 2096, 2104) yields min_value for one candidate - proved (feb29_fails_next_to_century) and recorded as an observation.',
      'Lean 4 proof + unit, function-level and nine-culture pipeline correspondence with an independent oracle',
      'DESIGN.md §3 C09')

check('C10', 'proof',
      'Lean theorems over RTV/Model/WellFormed.lean: duration_timex_reads_back (for every N and each of the seven unit codes '
      'the TIMEX P[T]N<U> the duration parser writes denotes exactly N of that unit), duration_value_matches_timex, '
      'unit_tables_consistent (the duration tables of EVERY culture, regenerated from the working tree each run, assign each '
      'spelling the length of its unit code — kernel-checked), luis_time_span_inverse, between_dates_consistent (the '
      '(begin,end,PnD) triple is self-consistent for ALL valid dates begin <= end), between_times_consistent (the '
      '(THH:MM:SS,THH:MM:SS,PT…) triple written with luis_time_span is self-consistent for ALL times t1 < t2). The property predicate tripleOK is a Lean '
      'function evaluated through the compiled driver on every range entity the real model returns over all Python-supported '
      'DateTime Specs inputs; pipeline: N x every unit spelling of every culture, ordered pairs of absolute dates and clock '
      'times ("from A to B", "between A and B").',
      TB + 'Not modelled: the regex front end that finds "N <unit>" and the period parsers\' plumbing (pipeline only). 55 recorded '
      'findings (single-letter unit spellings that are never extracted; inclusive "rest of …" triples; Specs-expected).',
      'Lean 4 proof + kernel-checked regenerated tables + Lean spec predicate evaluated on the implementation\'s output',
      'DESIGN.md §3 C10')

check('C11', 'proof',
      'The property predicate wellFormed (shape per type, definite TIMEX => equal value, type name) is a Lean function; the '
      'theorems show that what the resolution assembly emits for slots built from datetime objects satisfies it for every '
      'valid date 0001..9999 and time of day (format_date/_time/_datetime_wellformed, assembly_wellformed_date, '
      'definite_timex_value_date, min_value_filtered: the minimum date never reaches the output, type_name_agrees), tied to '
      'DateTimeFormatUtil / _determine_date_time_types / _date_time_resolution by unit correspondence. The predicate is '
      'evaluated (compiled driver) on every entity of recognize_datetime over all Python-supported DateTime Specs inputs of '
      'all cultures and generated expressions (incl. dates that do not exist, a bare day of the month under a reference in every '
      'month for 8 cultures, holidays) under references spread over 1950..2090; sentinelOK rejects values derived from the '
      'minimum-date marker (0001-02-01 ...). HOLIDAYS are modelled: the date-function tables of 7 cultures are translated from '
      'the source text (ast) on every run, get_day / get_last_day, every function and _match2date (year, next/last/this, '
      'future/past choice) are Lean functions; proved for any table, key, year, order word and reference: '
      'holiday_values_wellformed (every emitted value is a valid calendar date or not resolved), holiday_definite_agrees (explicit '
      'year + fixed-date holiday: TIMEX YYYY-MM-DD = value), holiday_values_sentinel_free; for every year 1..9999 '
      'holiday_fn_never_raises, holiday_nth_weekday / holiday_last_weekday (the (k+1)-th / last <weekday> of the month) on the '
      'regenerated tables (holiday_tables_sane; holiday_unknown_functions lists what the translator cannot classify).',
      TB + 'Period parsers (see C08/C10 for the calendar arithmetic) and CJK parsers (incl. ChineseHolidayParser) build value strings '
      'that are NOT modelled here: for them the Lean predicate evaluated on the real output is the only check. The regex match '
      'and holiday_names lookup are inputs of the holiday model. Entities with resolution None are counted, not judged. Recorded '
      'findings keyed by input.',
      'Lean 4 proof about the assembly and the holiday parser (tables translated from source) + Lean spec predicates evaluated on every entity the implementation returns',
      'DESIGN.md §3 C11')

check('C12', 'proof',
      'Proved for every list of regex match spans: runs_disjoint, sweep_disjoint (sequence), sweep_disjoint_ip, '
      'sweep_disjoint_percent, sweep_disjoint_number (under the NegInside/NegClear guards the repaired extractor meets, with '
      'the pre-fix counterexample "minus 5 and 6"), mergeAllTokens_disjoint (every token list), nwu_filter_no_containment. '
      'BaseMergedExtractor.add_to does NOT preserve disjointness: addTo_crossing_counterexample (kernel-decided) and the '
      'positive addTo_disjoint_of_noCrossing under a monitored hypothesis. Unit correspondence on recorded calls of the real '
      'sweeps / merge_all_tokens / add_to / the NumberWithUnit filter; pipeline: pairwise disjointness of the entities of '
      'every registered (model, culture) pair over Specs inputs, generated expressions (alone, in carriers, several per '
      'sentence) and noise. mergedExtract_disjoint: the merged extractor\'s output is disjoint whenever no add_to step crosses '
      '(ChainNoCrossing, shown to be the EXACT per-step condition by addTo_step_disjoint_iff) and modifier extensions stay clear; '
      'mergedExtract_disjoint_of_laminar: the chain condition holds for nested-or-apart sub-extractor outputs; '
      'nwu_filter_sym_no_nesting for the repaired NumberWithUnit filter (fix dd3ca4396).',
      TB + 'The recorded overlaps are classified by mechanism in findings/span/overlap-mechanisms.md. ~650 recorded findings keyed by input: overlapping entities that the cross-platform Specs expect (date-time add_to crossings), '
      'NumberWithUnit results sharing a unit character, zh-cn date-time spans. A new overlapping input is still a violation.',
      'Lean 4 proof (universal over regex behaviour) + recorded-call correspondence + pipeline disjointness monitor',
      'DESIGN.md §3 C12')

check('C13', 'proof',
      'The IPv4 / IPv6 / GUID patterns are re-translated from the working tree\'s resource files into Lean regex ASTs on every '
      'run (translator validated by a regex correspondence against the real `regex` module on ~12k (pattern, string) pairs) '
      'and the theorems are re-checked against them: octet_lang / ipv4_lang / ipv4_sound (every match is a valid dotted '
      'quad, for any engine tables) / ipv4_complete_unique / ipv4_reported_span; hextet_lang / ipv6_lang / ipv6_sound / '
      'ipv6_complete (all RFC 4291 exploded and `::` forms); guid_lang / guid_sound / guid_complete_unique_*; '
      'drop_zeros_same_address / _canonical / _group_value; ip_extract_sound, guid_extract_sound (every reported entity has '
      'the span of a regex match). Pipeline: recognize_ip_address / recognize_guid against Python\'s ipaddress / uuid as '
      'independent oracles (10^4 boundary quads, seeded v4/v6 at every compression position, near misses, 4 GUID layouts, '
      'carrier sentences; zh-cn / ja-jp models too). Hashtag, mention and e-mail languages are proved as well (hashtag_lang, '
      'hashtag_reported_span, mention_lang, mention_reported_span, email_lang). URL: BaseURLExtractor is modelled (three '
      'regenerated regexes with a capture matcher endsCap, _is_valid_match with the TLD check through the C16 trie model on the '
      'regenerated TldList, ambiguous-time-term rejection, sweep): url_reported_valid (UNIVERSAL: every reported URL has the span '
      'of a match that passed _is_valid_match) and url_grammar_recognised (an explicit 1080-string grammar scheme x host x listed '
      'TLD x tail: a covering family of 130 queries kernel-evaluated through the whole modelled recognize_url, the full language '
      'through the implementation). Phone: BasePhoneNumberExtractor.extract is modelled with every regex answer as an oracle: '
      'phone_post_span, phone_kept_prefix (for ANY regex outcome), phone_extract_spec (on the regenerated regexes).',
      TB + 'IPv6 exact reported span (no uniqueness theorem: `1::2` is also a match inside `1::2:3`), e-mail first-end, URL '
      'completeness beyond the grammar and phone completeness / score are covered by correspondence only; preprocess via the C01 model. The `regex` module\'s own \\d/\\w/\\s tables are exported each run.',
      'Lean 4 proofs on regex ASTs regenerated from source + regex/unit/pipeline correspondence',
      'DESIGN.md §3 C13')

check('C14', 'proof',
      'Lean model of datatypes_timex_expression parse / infer / format (the working tree\'s package, never site-packages). '
      'Proved for ALL strings of the 12 date patterns, the 4 time patterns and PRESENT_REF (digits universally quantified): '
      'parse_format_fields (parse∘format∘parse = parse), format_idempotent, canonical_fixed; from_date / from_date_time / '
      'from_time produce the canonical ISO rendering for every valid date 0001..9999 and every time; the pattern texts, '
      'TimexCreator constants and DAYS the proofs were written for are re-read from the tree each run (genCfg_ok). '
      'Also proved: date+time and date+part-of-day combinations, integer durations for all seven units (parse_dur, format_dur, '
      'duration_int_roundtrip) and fractional amounts (duration_frac_roundtrip, under the exact guard that str(Decimal) stays '
      'plain; tiny_amount_general proves the other side: beyond the guard the text is scientific and no longer parses — the '
      'recorded tiny-amount finding). The rest of the package (to_string, to_natural_language, TimexCreator, inference on the '
      'grammar) is modelled, tied by correspondence and characterised by theorems, but lies outside the property. Correspondence ~18k parse + 10k from_* cases, a '
      'regex-independent constructor field grid and a committed corpus of 915 canonical strings.',
      TB + 'CPython Decimal printing is modelled (incl. scientific form). One recorded finding: tiny-amount-scientific.',
      'Lean 4 proof about a faithful model + unit correspondence against the working tree\'s package',
      'DESIGN.md §3 C14')

check('C15', 'proof',
      'Proved for all inputs on the Lean model of TimexResolver / TimexHelpers / TimexConstraintsHelper: weekday_resolve '
      '(exactly two date values, the asked weekday strictly before / after the reference, within 7 days), duration_seconds '
      '(all seven units), year_range, month_range including December, week_range (Monday to next Monday from CPython\'s ISO '
      'week rule), collapse_terminates (at most len(ranges) rounds for any overlap predicate). TimexRangeResolver.evaluate: '
      'evaluate_sound end to end for all candidate families (stages234_sound), evaluate_sound_durations (duration candidates: '
      'stage 1 = calendar sum of datetime constraint and duration, datetimeAdd_dur), evaluate_sound_grammar (candidate '
      'hypotheses discharged for ALL grammar strings), evaluate_complete_weekday / _monthday / _hours, '
      'monthday_stage_never_raises. Tie: model-vs-tree correspondence (~81k operations per quick run, every resolver/evaluate '
      'call in a guarded worker with time and memory limits) and independent property oracles (timedelta sums).',
      TB + 'Not covered by a theorem: duration candidates against time-only / time-range constraints and year/month durations; '
      'time-range candidates. Nine defects of the package found by this check were repaired in /repo (fix: commits listed in '
      'known_findings.json).',
      'Lean 4 proof about a faithful model + unit and pipeline correspondence',
      'DESIGN.md §3 C15')

check('C16', 'proof',
      'Lean theorems for every string, dictionary and query and any Unicode database: both tokenizers produce in-bounds, '
      'non-empty, ordered, non-overlapping tokens whose text is the input slice and which cover exactly the non-space '
      'positions (tokenize*_slices/_ordered_disjoint/_covers, cov_unique); TrieTree.find after batch_insert reports '
      'exactly the occurrences of inserted phrases with their ids (trieFind_spec: no misses, no extras) and every match '
      'spans >= 1 token (trieFind_len_pos); StringMatcher.find maps them to the right character offsets, length and text '
      '(matcherRun_offsets). The hand-written model is tied to the working tree by unit correspondence on exhaustive '
      'small strings/dictionaries plus seeded larger ones, both tokenizers and all three init forms.',
      TB + 'Modelled, not verified: the Python classes themselves (tied by correspondence only); AcAutomaton strategy not modelled.',
      'Lean 4 proof (induction over the tokenizer loop / trie paths) + model-vs-implementation correspondence',
      'DESIGN.md §3 C16')

check('C05', 'proof',
      'Lean theorems for every table, spelling and numeral: after add_dict_to_unit_map a spelling maps to the key of the '
      'FIRST row that lists it (unitmap_lookup / unitmap_listed), the parser\'s unit key for `number rest` / `prefix number` is '
      'exactly the stripped rest / prefix (key_assembly_suffix / _prefix), the lookup answers the mapped unit '
      '(parse_suffix_unit), compound amounts are exactly N + M/10^k (compound_value_exact). THE EXTRACTOR is modelled too '
      '(NumberWithUnitExtractor.extract, _extract_separate_units, _select_candidates, expand_half_suffix, '
      'BaseMergedUnitExtractor grouping) and proved for ANY StringMatcher / number-extractor / regex behaviour with spans '
      'inside the string: nwu_longest_suffix_wins, nwu_suffix_span, nwu_prefix_span, nwu_result_text_is_slice, '
      'nwu_relative_number_start (exactly what the key-assembly theorems assume), end to end extract_then_parse_unit '
      '(`numeral blanks spelling` => one result whose parsed unit is the spelling\'s unit), select_no_conflict_identity, '
      'merged_result_text_is_slice. Tie: bound unit_map of all 33 parser configurations entry for entry; real parser per '
      'row; ~20k RECORDED calls of the real extract / _select_candidates / BaseMergedUnitExtractor.extract replayed through '
      'the Lean model; EVERY (culture, type, unit, spelling) row (~12.5k) through recognize_* with the property oracle; all '
      'main/fraction currency pairs, each asked after a mismatched pair in the same process.',
      TB + 'Parameters of the extractor model (recorded per call, not modelled): StringMatcher results (C16 proves the matcher), number '
      'extractor results, the gating regexes and the keep-masks of _filter_ambiguity. Negative theorems with witnesses for '
      'extractor defects outside the property\'s quantifier (a bracketed match tying max_len; _select_candidates IndexError). '
      '467 failing rows are listed one by one in known_findings.json.',
      'Lean 4 proof (first-writer-wins characterisation, loop invariants of key assembly, fold invariants of the extractor) + recorded-call and exhaustive table correspondence',
      'DESIGN.md §3 C05')

check('C17', 'proof',
      'Lean model of Culture.map_to_nearest_language, ModelFactory (class-level cache, CacheKey, get_model / try_get_model / '
      'register_model / initialize_models), Recognizer.get_model, the get_*_model wrappers and constructor option validation, '
      'over the supported-culture list, the registration table of the five recognisers and the option intervals regenerated '
      'from the working tree each run. Proved for all culture strings, instances, types, options, fallback flags and any '
      'str.lower: map_supported_any_case, map_unique_language, map_other_falls_back (the full routing statement), '
      'no_model_falls_back, cache_key_separation (every history of construct / get / wrapper / factory-get / try-get / init: '
      'each returned model was built by the constructor registered for exactly the requested type, resolved-or-fallback '
      'culture and options), same_key_same_object, register_duplicate_rejected, options_out_of_range_rejected, '
      'target_default_equiv (a recogniser with target T asked with culture None answers exactly like culture T), '
      'empty_culture_never_target, getter_case_insensitive (equal str.lower => identical routing in every getter incl. the '
      'zh-/ja- shortcut ones); table facts re-decided by the kernel. Tie: ~24k culture strings, register/option unit checks, a '
      '~20k-op seeded history on instrumented real recognisers predicted exactly incl. object identities: recogniser objects of '
      'all five kinds x ~85 target spellings (letter case, regional variants, unknown, empty, None) x request culture None / '
      'empty / explicit x every getter x fallback, every supported code in all 16 letter-case patterns; models identified by '
      'identity against reference models from try_get_model.',
      TB + 'Constructors assumed total and deterministic; user register_model on live recognisers outside the histories; final-sigma '
      'lower-casing not modelled.',
      'Lean 4 proof (invariant over operation histories) + regenerated tables + unit and history correspondence',
      'DESIGN.md §3 C17')

check('C18', 'translation_validation',
      'Exhaustive on every run: the repository\'s own resource generator is re-run on Patterns/*.yaml for every entry of the '
      'five resource-definitions.json and compared with the checked-in module definition by definition (source text and '
      'evaluated attribute values); every checked-in resource module must be generated by some entry (orphan-module); a finite '
      'artefact equality is decided by comparison, not by a theorem. Lean supplies a '
      'verified reference emitter for the WHOLE generator (every writer of code_writer.py behind generate_code\'s dispatch, '
      'generate\'s file assembly incl. str.splitlines) that must be byte-identical to the repository\'s generator on every one '
      'of the 3,732 definitions / 45 modules, and an evaluator of the emitted text (f-strings with {Name}/{Cls.Name} fields, '
      'plain and raw literals, dict and list entries) whose values must equal the attributes of the imported checked-in '
      'modules. Proved for ALL definitions: nested_regex_faithful (evalF(sanitize d refs) = subst d refs for distinct plain / '
      'dotted reference names; witnesses for a duplicated and a non-name reference), simple_/params_regex_faithful, '
      'regex_definition_faithful, dictionary_faithful + dict_entry_faithful (surrogate-pair witness), list_entry_raw / '
      'list_faithful (witnesses for odd backslash runs), default_writer_value/_faithful, bool_writer_faithful, '
      'block_single_line (U+2028 witness), sanitize_fstring_roundtrip, create_entry_roundtrip.',
      TB + 'ruamel.yaml replaced by a shim over vendored PyYAML with YAML-1.2 resolvers; the generator under test is the repo\'s own; '
      'YAML reading and the header import statements are not modelled.',
      'translation validation (exhaustive regeneration diff) + Lean 4 verified reference emitter and evaluator + proofs that emitted text evaluates back',
      'DESIGN.md §3 C18')

check('C19', 'other',
      'Exhaustive replay of the Python-supported Specs corpus (14,914 cases: model / extractor / parser / merged-parser '
      'levels) through the repository\'s own runner against the working tree on every run; each failing case is reported as a '
      'concrete failing input. For the spec families the Lean models cover end to end (233 cases: Sequence IpAddress (en, zh/ja), '
      'GUID, Hashtag, Mention, Email, URL (en, zh/ja) and English BooleanModel) the model is a kernel-checked intermediary: '
      'RTV.Props.C19 proves model(input) = expected entities for every regenerated case (spec_ip_cases, spec_ip_cases_zh, '
      'spec_guid_cases, spec_boolean_cases, spec_hashtag_cases, spec_mention_cases, spec_email_cases, spec_url_cases, '
      'spec_url_cases_zh by decide +kernel) and the correspondence gives implementation = model on the same inputs. For '
      'all other cases no theorem applies: the subject is the whole un-modelled implementation on a literal corpus.',
      'Trusted: the repository\'s test runner (Python/tests), pytest, the datedelta/grapheme shims. The pinned 204-test suite '
      'never touches /repo\'s recogniser code (it imports site-packages); this check sets PYTHONPATH to the working tree.',
      'exhaustive differential replay of the Specs corpus + kernel-checked model = spec obligations for 233 cases',
      'DESIGN.md §3 C19')

check('C20', 'proof',
      'The boolean patterns are regenerated from the working tree each run; the alternatives form a finite language that Lean '
      'enumerates and checks with the kernel on the real regenerated environment: alts_listed, alts_polarity (every '
      'alternative incl. the emoji × {lower, UPPER, Title} × 8 contexts → exactly one entity with the exact span and its own '
      'polarity), neutral_nothing, both_polarities_one_entity, reported_score_unit_interval (all environments and queries); '
      'the model mirrors tokenisation, match_value (exact fractions), top-match selection, parser and model, and is tied by '
      'unit + pipeline correspondence (every alternative × 3 cases × 12 contexts, substring fillers, neutral pool, all pairs).',
      TB + '`\\s+` inside multi-word alternatives is taken as one blank in the theorems (three blanks in the pipeline); English is the only culture with a boolean model.',
      'Lean 4 kernel evaluation over the regenerated finite alternative language + unit/pipeline correspondence',
      'DESIGN.md §3 C20')


# ---------------------------------------------------------------------------------------------------------------------
# Round 3 (extensions): more of the code inside the model. Appended to the texts above.
def extend(pid, text, note=''):
    CHECKS[pid]['level_claimed']['text'] += ' ' + text
    if note:
        CHECKS[pid]['level_note'] += ' ' + note


extend('C01',
       'ROUND 3 — the token arithmetic of the date-time SUB-EXTRACTORS (date, time, duration, date-time, date-period and '
       'date-time-period range merging, the ago/later utility; Props/C01DtExtract, 38 theorems) is modelled function by '
       'function over abstract match facts and proved for ALL regex outcomes and ALL sub-extractor results lying inside the '
       'text: every token handed to merge_all_tokens satisfies 0 <= start <= end <= |text|, hence '
       '(subextractor_results_ok) every ExtractResult is inside the text, its text is the slice at its span and results '
       'are pairwise disjoint; exact guards + witness theorems where the code does not guarantee it (year + week-day double '
       'extension, in-prefix connector reversal, time-period "between after", match_duration suffix look-up, from/between '
       'index taken in the stripped prefix). Tie: recorded-call correspondence over six cultures (~7,000 frames per quick '
       'run, theorem hypotheses monitored on every frame).',
       'The set / holiday / timezone extractors and the remaining period-extractor functions are reached by the pipeline '
       'predicate only.')
extend('C12',
       'ROUND 3 — the sub-extractor token theorems of Props/C01DtExtract (see C01) are also required here: tokens inside '
       'the text + mergeAllTokens_disjoint give pairwise disjoint sub-extractor results for any regex behaviour; recorded '
       'finding range-prefix-index-leading-blank (from/between index taken in the stripped prefix) with witness theorem.')
extend('C03',
       'ROUND 3 — the suffix-multiplier, "point", fraction and power paths of BaseNumberParser are modelled function by '
       'function (Model/NumFrac: tokenizer, binary64 mantissa arithmetic, libmpdec integer power; Props/C03Frac, 59 '
       'theorems): a multiplier suffix is ONE half-even rounding of literal x 10^k, exact up to 15 digits, for every literal '
       'shape of all eight BaseNumberParser cultures (suffix_exact_literal); digit words after "point" give the exact '
       'decimal (point_digits_exact); a/b, w a/b, -a/b are the 15-digit Decimal quotient plus the integer part '
       '(fraction_notation_value); M e E, M x10^ E and N ^ E are exact while the result fits 15 digits (power_e_exact, '
       'power_x10_exact, power_caret_exact — libmpdec square-and-multiply proved exact). ~70k unit operations per run '
       'against the real parsers of en/es/fr(/de) fed extractor-built ExtractResults, ~7k generated expressions through '
       'recognize_number with an exact-rational oracle. Defects found: 1.5x10^3 (repaired in /repo, variant switch, '
       'regression witness), mixed numbers in hundredths, "thirty-seconds" (recorded, witness theorems).',
       'The sign / multiplier / half-a-dozen regexes are inputs computed by the real configuration; the list-data branch of '
       'parse and non-integral exponents are outside the model.')
extend('C04',
       'ROUND 3 — the whole CJKNumberParser (Chinese and Japanese configurations) is modelled function by function over '
       "Python's int / float (software binary64 with shortest repr) / Decimal, with the configuration's eleven regexes "
       'regenerated as RE terms and executed in Lean (Props/C04Cjk): theorems for every configuration and string on how the '
       'ordinal, sign, dozen, fraction, decimal and percentage paths compose (cjk_ordinal_is_cardinal, cjk_sign_restores, '
       'cjk_fraction_value, cjk_double_value, cjk_percent_plain/_scaled); kernel evaluation of the typed integer walk for '
       'every numeral below 10000 and of whole-parse families (ordinals, signs, dozens, all 81 cheng/zhe combinations, '
       'fractions, digit strings); negative theorems give the exact failure set of spelled decimals (binary-float '
       'get_point_value: recorded finding). ~79k unit operations per run + exact-rational pipeline oracles.',
       'The Pow path of the CJK parser (covered by NumFrac for the base parser) and the extractor regexes are not modelled.')
extend('C07',
       'ROUND 3 — BaseTimePeriodParser.parse_pure_numbers / parse_specific_time / parse_time_of_day and the order of '
       'parse, and BaseDateTimeParser\'s "now", "end of day/date" and "N units ago/later" are modelled (Model/TimePeriod; '
       'Props/C07TimePeriod, 35 theorems): the am/pm rules of hour-pair ranges for all 12-hour pairs (12 am = 00, 12 pm = '
       '12), every successful parse_specific_time computation yields begin <= end < begin + 24 h and a (Tb,Te,PT..) TIMEX '
       'satisfying the C10 triple predicate, exact endpoints when both sides carry am/pm, the part-of-day table row by '
       'row, ago/later = reference -/+ N x unit seconds for every reference and N, "now" = the reference. ~32k unit calls of '
       'the real English and Spanish methods per run + a pipeline oracle on designated "from A to B" ranges. Three defects '
       'of parse_specific_time found and REPAIRED in /repo (12 am end not folded, seconds dropped, minute attributed by a '
       'substring test): variant switches, witnesses kept as regressions.')
extend('C10',
       'ROUND 3 — (a) Props/C10Periods (33 theorems on BaseDatePeriodParser: month/year/half-year/quarter/simple case/week '
       'of year and month/which week/duration prefixes/merge of two points) is now a property module of this check; the '
       'numbered week-of-year TIMEX defect was repaired in /repo (week_of_year_numbered_spec at full strength). (b) '
       'BaseDateTimePeriodParser (Model/DtPeriod; Props/C10DtPeriod, 27 theorems): two-point merges, date + time period, '
       'hour pairs, part-of-day table, "last/next N units", "next hour", "rest of the day" — for every reference and input '
       'the definite ordered cases give valid datetimes with begin <= end and a triple satisfying tripleOK, parts of day '
       'never cross midnight, dated cases are reference-independent, and exactly when the code emits an end before its '
       'begin (reversed hour pairs, a period crossing midnight on one date, durations without a known prefix: proved '
       'rejected for all inputs; five recorded dtperiod:* findings). ~8k unit calls per run. (c) every path of '
       'BaseDurationParser and BaseSetParser (Model/Durations over a software binary64 reproducing float(Decimal), float '
       '+ and x, float_or_int and repr; Props/C10Durations, 40 theorems): every path writes P[T]<amount><unit letter> with '
       'value amount x seconds; integral amounts below 2^53 are exact at any size; "and a half/quarter" add exactly 1/2 / '
       '1/4; witnesses for float products (1.15 days), unit codes with a numeric or two-letter form (decade P31, fortnight '
       'P32, weekend), the magnitude guard on one path only. ~100k unit operations over eight cultures per run.')
extend('C11',
       'ROUND 3 — range values agree with a definite period TIMEX (Model/DefiniteRange, Props/C11Range): periodOf reads the '
       'period off YYYY / YYYY-MM / YYYY-Www / YYYY-Www-WE; week_period_range_definite: for EVERY reference and shift the '
       'modelled "this/next/last week" satisfies the predicate (TIMEX = ISO year-week of [begin, end)); the predicate is '
       'evaluated through the driver on every daterange value of the real model — strictly (equality) on plain period '
       'expressions of every culture (the committed C08 contract texts) under references at year and month turns, as '
       'containment elsewhere ("later this week" is a sub-range without Mod on every platform). It found the numbered '
       'week-of-year TIMEX defect (repaired in /repo).')
extend('C16',
       'ROUND 3 — MatchStrategy.AcAutomaton is probed with the same oracle (recorded finding acautomaton-unusable: the port '
       'cannot be constructed).')

extend('C08',
       'ROUND 3 — (a) the Chinese configuration\'s own parsers (chinese/date_parser, dateperiod_parser, duration_parser, '
       'datetime_parser) are modelled function by function (Model/ZhDateTime; Props/C08Zh): the C08 statements (今天…大前天, '
       '这/下/上 + weekday, N天/周/月/年 前/后, 这周/下个月/明年…) are proved for that code for every reference and every N; 今年 = '
       'year to date (expected by the Specs) is proved as a theorem and recorded; three defects found here (N个月/年 前/后 '
       'ignored N, relative-month simple ranges, fourth quarter) were REPAIRED in /repo — repaired variants at full '
       'strength, pre-fix variants as labelled regressions, the harness probes which variant the tree follows; ~35k unit '
       'calls per run + a zh-cn pipeline oracle. (b) the decision methods of the culture parser CONFIGURATIONS (get_swift_*, '
       'is_future, is_last_cardinal, get_hour …: 223 methods of 8 cultures) are TRANSLATED FROM THE SOURCE TEXT on every '
       'run into a decision-expression language with a total Lean evaluator (Model/CultureCfg; Props/C08Config*): '
       'kernel-checked theorems on the regenerated definitions (every get_swift* answers only its listed shifts for every '
       'text; each culture\'s own today/tomorrow/yesterday words and every instance of its Next/Previous/This prefix regex '
       'give +k/+1/-1/0; get_hour stays in 0..23), unit correspondence of every translated method (~0.7M calls quick, 2M '
       'thorough), two pipeline sweeps, and a search that replays changed terms through recognize_datetime when an '
       'obligation breaks. Found: the German and Italian "last" words resolve to the current period (recorded, fix pending).',
       '79 configuration methods (index-returning extractor methods, adjust_by_prefix/suffix) are emitted as unsupported '
       'and counted in the evidence.')
extend('C09',
       'ROUND 3 — the remaining BaseDateParser branches (a day number on its own, N weekdays from now, N days from tomorrow, '
       '"Friday the 15th", "Friday 15", k-th weekday of a month, parse_single_number, the order of parse\'s sub-parsers) are '
       'modelled (Model/DateParser; Props/C09DateParser, 33 theorems) and tied to BaseDateParser of four cultures (every '
       'cardinal x weekday x month triple, boundary-first references): the k-th weekday is that weekday inside that month or '
       'the code raises exactly when it does not exist; past < R <= future with year/month selection for weekday-of-month '
       'and day numbers 1..28; all on-day values are valid dates; "Friday 15" results are that day and weekday on each side '
       'of R and both searches terminate within the stated fuel; nine deviations are witness theorems replayed on the code.')
extend('C06',
       'ROUND 3 — shared-text histories: the same numeric text is asked of month-first and day-first cultures in ONE '
       'process, in both orders (a match cache shared across cultures swaps day and month only then).')
extend('C05',
       'ROUND 3 — numerals made of a digit of the unit spelling ("2 m2", "3 km^3") are asked for every such row (a unit key '
       'cut by splitting on the number text confuses the two digits).')

extend('C03',
       'ROUND 3 (extraction) — the extraction front end is inside the model: the digit-family regexes of the seven '
       'BaseNumberParser extractor lists (NumberMode.DEFAULT and PURE_NUMBER) are regenerated from the real extractor '
       'objects as RE terms and proved to be IntegerRegexDefinition / DoubleRegexDefinition of the model '
       '(gen_integer_definitions, gen_double_definitions); over the regenerated regexes and the backtracking matcher it is '
       'proved that every grouped, grouped-decimal, plain and plain-decimal literal is returned by '
       'BaseNumberExtractor.extract (finditer + sweep + negative-term widening + ambiguity filter) as exactly ONE result '
       'spanning the whole literal — for any number of thousands groups and digits, either sign, in any blank-delimited '
       'carrier free of digits and marks (grouped_literal_extracted, grouped_decimal_literal_extracted for all eight '
       'cultures, plain_literal_extracted, decimal_literal_extracted; rep_det_cons is the inductive step over the group '
       'count); the remaining (culture, shape) cells are kernel-evaluated on bounded instances; witness theorems for the '
       'forms the real regexes lose (de-de / nl-nl 1234,5 and -1.000, es-mx 1,000,000). Tie: per-regex finditer '
       'correspondence (~45k) + the real extract on a family-restricted clone (~15k) + whole-literal oracle calls (~13k).',
       'The word / suffix / CJK regexes and BaseMergedNumberExtractor stay monitored only; the full extract theorems carry '
       'the hypothesis QuietAt (no negative term ends at the literal, no ambiguity-filter match meets it), shown satisfiable.')

extend('C04',
       'ROUND 3 (above 1000) — spanish_cardinal, german_cardinal, dutch_cardinal: for EVERY n < 10^15, __get_int_value on '
       'the tokens of the written-out form (spellHuge: scale nouns up to 10^12, long-scale Spanish "mil millones", apocope and '
       'feminine multipliers, German "eine million") returns n; portuguese_cardinal_partial: the same except numerals ending '
       'in "... e mil" (witness "um milhao e mil" -> 1000000, recorded). The proof is an induction over the scale-word list '
       'through the round-number step (nothing enumerated above 999; multiplier facts and the scale-word table are '
       'kernel-evaluated on the REGENERATED maps, so a changed map entry breaks the obligation). The same generator feeds '
       'the harness every run (tokenisation tie, implementation vs model vs n, recognize_number alone and in a carrier).',
       'French / Italian above 10^6 and the ordinals of the European cultures remain pipeline-only in this revision.')
extend('C13',
       'ROUND 3 — the pipeline generator also emits URLs with "!" in the path (hashbang routes) and phone numbers with the '
       '"00" exit code or an "x" extension (several patterns match a prefix of these: the longest match must win).')

extend('C10',
       'ROUND 3 (d) — the rest of BaseDatePeriodParser and the whole DateContext (Model/Periods2; Props/C10Periods2, 25 '
       'theorems): for "past/next/in N months|years" the set of references on which the (begin,end,P<N>M|Y) triple is '
       'consistent is characterised EXACTLY (the day of the month survives the datedelta shift; a 29 February never meets '
       'a year without one); "from A to B <year>" puts both ends in the stated year with a consistent day triple; '
       '__set_date_with_context and sync_year never produce an invalid date (a 29 February under a non-leap stated year '
       'becomes the 0001-01-01 marker, shown as not resolved); the ORDER of the sixteen sub-parsers is a theorem (first '
       'success wins, an earlier exception escapes) and the correspondence runs every real sub-parser on its own so that a '
       'reordering is caught; the tree\'s decade parser is proved never to succeed, with the repaired computation specified. '
       'One recorded finding: week-of-month ends under a year context.')

extend('C06',
       'ROUND 3 (front end) — for English the step from TEXT to groups is a theorem: front_abs_date proves that '
       'BaseDateParser.parse_basic_regex_match (the loop over the eleven compiled date regexes REGENERATED from the working '
       'tree as RE terms, regex.search, the whole-text test, the token-prefix retry, get_group), composed with match_to_date and '
       'the resolution assembly, gives TIMEX = value = the date for every reference, for EVERY layout of the committed C06 '
       'contract and EVERY calendar date 1900-2099 (no representative dates: year digits fully symbolic, day digits grouped '
       'by the classes the regexes distinguish; 2,380 abstract texts kernel-evaluated; a monotonicity theorem for the '
       'matcher — for all regexes and continuations — lifts each abstract outcome to every concrete text). The matcher and '
       'translator are validated against the real regex module and the real parser object every run (~31k unit operations '
       'quick, ~960k thorough).',
       'The date extractor, the lower-casing and the other cultures\' front ends remain pipeline-level observations.')
extend('C10',
       'ROUND 3 (e) — the Chinese time-period, date-time-period, set and holiday parsers (Model/ZhTimePeriod; Props/C10Zh, 48 '
       'theorems): the exact am/pm inference rules, a time range resolves to the stated clock times with the documented '
       'next-day roll and a (T..,T..,PT..) TIMEX satisfying tripleOK, part-of-day rows inside one day, 明天下午三点到五点 is a '
       'consistent same-day triple, 前N小时 / 未来N分钟 = [R - N u, R] / [R, R + N u] for every R and N, the set TIMEX forms, every '
       'fixed and k-th-weekday holiday function for all years 1..9999 by theorem; five defects found and REPAIRED in /repo '
       '(cross-midnight range on one date, short-left hour read from its last character, empty PT span, two holiday '
       'year-reading bugs). ~12k unit cases quick / 245k thorough. The predicate tripleOK now rejects, between two definite '
       'points, a duration that is neither P<n><U>, open (X) nor a calendar compound (P-4D, an empty component).')
extend('C01',
       'ROUND 3 (rest) — every remaining function of the date-period, time-period, date-time-period, set and holiday '
       'extractors is modelled over abstract match facts (Props/C01DtExtract2, 55 theorems; ~5,300 replayed calls per run, '
       'variant probes for the repairs): tokens inside the text for any regex outcome, exact guards and witness theorems where '
       'the code does not guarantee it; three witnesses were reachable with the shipped regexes and REPAIRED in /repo '
       '(century-suffix offset, reversed year-period token, period-prefix leading blank) plus the leading-blank duration token. '
       'Options-gated code (time zones, DateTimeAlt, pure-number cases, check_both_before_after) is not reachable with '
       'default options and is only named.')
extend('C04',
       'ROUND 3 (fr / it / ordinals) — french_cardinal_partial (every n < 10^12 under the exact guard frBigGuard: plural '
       '"cents", the single-token "un million" / "un milliard"), italian_cardinal_partial (every n < 10^15 whose groups do not '
       'end in accented "-tre"), ordinals of es / pt / de / nl / fr / it for every 1 <= n < 1000 (exact guards: Spanish '
       '"decimoseptimo", Italian compound ordinals) and German for every n < 10^6; kernel-checked witnesses for every '
       'excluded class; 15 extraction-regex / resource defects recorded by word class.')

extend('C02',
       'ROUND 3 — "no other hidden state" is a REGENERATED obligation: an ast inventory of the seven libraries (class-level '
       'containers and their writers, module state mutated by functions, decorators and memoisers, mutable defaults, '
       'instance writes outside __init__, in-place argument mutations, global settings) is emitted on every run and checked '
       'by the kernel against a committed allow-list of 264 justified entries (Props/C02State: class_state_inventory, '
       'module_state_inventory, memo_inventory, mutation_inventory, settings_inventory; frame_pure states what a write set '
       'buys); what remains modelled is exactly the model cache and the decimal precision. A run-time walk compares 760 '
       'class- and module-level containers, lru caches and default objects against a fresh import, and ~182k instance '
       'attributes below the cached models across unseen inputs. When a site is new the check searches targeted call '
       'histories (same call twice, two cultures, two references, another offset, another query first, fallback then '
       'no-fallback, main/worker thread, paused interleavings) in forked children and reports the first that differs from the '
       'single-call answer; thorough validates 2,161 such histories on the unchanged tree. All six stored state-introducing '
       'seeded changes (C02-r21, C02-r22, C03-r21, C06-r22, C09-r21, C17-r22) are caught by C02 with a concrete history.',
       'Not covered: aliasing through call results, call-locality of the listed in-place mutations beyond the execution '
       'disciplines, state created during model construction (covered by the fresh-process disciplines).')

extend('C07',
       'ROUND 3 (front end) — for English the path from the TEXT of a clock time to the groups match_to_time reads is proved: '
       'BaseTimeParser.parse_basic_regex_match is modelled (strip/lower, at_regex with the token-prefix retry and whole-text '
       'test, the number-word branch, the exact_match loop over the twelve time_regexes, every pattern REGENERATED from the '
       'working tree as an RE term); front_groups_en: for every layout of contracts/C07front.json (21 layouts) and every hour, '
       'minute and second the front end hands over exactly the hour/min/sec groups and am/pm flags that clock24 / clock12 / '
       'ambiguous_two_readings assume; front_clock24 / front_clock12 / front_ambiguous_two_readings compose the two — TIMEX and '
       'value of the text are that time for all 86,400 HH:MM:SS times (kernel evaluation of the backtracking matcher on '
       'abstract texts, made sound by matchK_mono / abs_refines_conc). ~34k unit operations per quick run against the real '
       'parser object and regex module; thorough runs all 86,400 times per layout.',
       'The time extractor and the prefix / suffix adjuster regexes remain assumptions (pipeline level).')
extend('C03',
       'HARDENING (audit) — the extraction theorems are statements about the DIGIT FAMILY of each extractor list on carriers '
       'whose right part does not begin with a follower word (regenerated RTV/Gen/NumFollow: round-number words, suffix letters, '
       '"dozen" …); that the remaining entries of the real list add nothing on such carriers is sampled every run (follower / '
       'bounded ties on the exact Lean carriers), not proved; "a 7777 b", "… k", "… dozen" are outside the contract (witness '
       'theorems); a digit literal followed by a multiplier word is lost entirely by the matched[] sweep (42 recorded findings '
       'by culture x shape); number_literal_zero.')
extend('C04',
       'HARDENING (audit) — theorems start at the token list; for en / es / fr / de the tokeniser model, whose alternation IS the '
       'real pattern\'s (alts_are_pattern), is inside the statement on samples (english_text_sample, spanish_/german_/'
       'french_text_sample, ordinals); all other numerals and pt / it / nl are tied to the real tokeniser by the harness; the 8 '
       'English variants are 8 texts and 4 token lists; compound-ordinal theorems give the value of the tokeniser\'s token list.')
extend('C05',
       'HARDENING (audit) — __merge_compound_unit is modelled on the Dec layer under the 15-digit context (Model/UnitCompound; '
       'Props/C05Compound): compound_value_exact / compound_end_to_end — one entity in the main unit worth exactly N + M/ratio '
       'when N 10^k + M (10^k/ratio) < 10^15, for every ratio of the tables (4, 5, 10, 20, 100, 1000, 10^8); beyond that the '
       'cents are rounded (compound_precision_witness: the documented 15-digit precision); the real BaseCurrencyParser.parse is '
       'compared on ~3.9k hand-built compounds per run; prefix end-to-end and ISO-code theorems (parse_prefix_unit, '
       'iso_code_is_table_code); the row oracle\'s expected unit comes from the tables and the compound oracle checks unit and '
       'ISO code.')

extend('C06',
       'ROUND 3 (front end, other cultures) — the same theorem for Spanish (es-es and es-mx), French, Portuguese and German: '
       'front_abs_date_es / _esmx / _fr / _fr_day1 / _pt / _de — parse_basic_regex_match on the culture\'s regenerated date_regex '
       'list, applied to any layout of the committed contract and any date 1900-2099 (year digits symbolic, the culture\'s '
       'day-month order included), followed by match_to_date and resolution, yields TIMEX = value = that date for every '
       'reference; token_tables_<cul> pin the culture\'s month / day words on the regenerated maps (a swapped "enero -> 2" breaks '
       'an obligation). Italian and Dutch run the same model in correspondence only (their certificates exceed the build '
       'budget). ~27 s of correspondence over seven cultures per quick run.')
extend('C11',
       'HARDENING (audit) — the assembly set_parse_result -> _date_time_resolution is modelled for every slot kind, modifier '
       'and flag (Model/Assemble) and compared on thousands of constructed slots each run; type-name agreement, value = '
       'definite TIMEX (plain and behind a modifier) and duration value = TIMEX seconds are theorems about that model (the '
       'former tautologies are gone); the invalid-date marker is filtered for every modifier except before / after / since, '
       'where negative theorems and the pipeline replay show it is emitted (recorded findings, patch proposed); the oracle also '
       'demands duration values, modifier ends and the absence of the marker; every query records exceptions swallowed by '
       'DateTimeModel.parse (evidence swallowed_exceptions).')
extend('C12',
       'HARDENING (audit) — both hypotheses of the merged-extractor disjointness theorem are evaluated on every recorded call '
       '(extClearB proved equal to ExtClear; counters in the evidence); non-emptiness on the date-time path is conditional on '
       'non-empty tokens: monitored, with a witness for an empty token.')
extend('C01',
       'HARDENING (audit) — spanOK is derived from the text theorems under one table hypothesis checked for all 1,112,064 code '
       'points each run (spanOK_of_preprocessed_slice); datetime_path_span; the header no longer overclaims non-emptiness.')
extend('C09',
       'HARDENING (audit) — the two generate_dates models are proved equal (generateDates_models_agree); the weekday branch is '
       'total under a three-week guard (weekday_candidates_total); the month-day guard is exact (monthday_guard_exact).')

extend('C14',
       'HARDENING (audit) — the round-trip guards are proved EXACT (inRange_exact: on every string TimexParsing takes apart '
       'the clause holds iff the guard holds; dt_guard_necessary for all digits); Canonical is an independent grammar proved '
       'equal to the image of format (canonical_iff_image); accepted strings outside the quantifier (year / month / season / '
       'week + time; year 0000, month 00, weekday 0) are characterised by witness theorems and counted in the evidence, not '
       'reported.')
extend('C15',
       'HARDENING (audit) — the ranges the constraints denote are characterised independently on calendar functions '
       '(Props/C15Range: daterange_year/month/days/weeks, timerange_hours/minutes/parts_of_day) and checked on the real code '
       'against datetime; duration_seconds_frac for every Decimal amount; collapse proved to return for every fuel above the '
       'number of constraints (evaluate_collapse_never_hangs); time-of-day candidates have their own statements.')
extend('C13',
       'HARDENING (audit) — IP extractor level, all texts: ipv4_extract_complete / ipv6_extract_complete (an address standing '
       'as its own token is reported with its exact span), ip_extract_reports_valid; a longer dotted run reports a valid prefix '
       '(ipv4_dotted_run_reports_prefix + longer_dotted_run_invalid: sound, outside completeness); guid_reported_span_braced; '
       'a valid reported address is never a property failure — the own-token diagnosis is replayed on the model (difference = '
       'correspondence break); the model\'s findAll is proved to be the libraries\' finditer on every translated pattern '
       '(translated_findAll_is_finditer; translators refuse nullable patterns).')
extend('C16',
       'HARDENING (audit) — find proved defined for every dictionary / query / tokenizer; every result in bounds with text = '
       'the plain query slice (matcherRun_results_plain); results characterised exactly at character level '
       '(matcherRun_mem_iff); the pipeline oracle checks bounds and slice on every real MatchResult.')
extend('C19',
       'HARDENING (audit) — the modelled families (233 cases) are compared in EVERY field the Specs state (Start/End, value, '
       'type, score); this exposed the missing IP Resolution.type and the constant boolean score 0.0, both repaired in /repo; '
       'the other ~14,900 cases demand exactly what the repository\'s runner demands.')
extend('C20',
       'HARDENING (audit) — the quantifier covers every member of both regex languages incl. the 25 skin-tone sequences '
       '(alts_complete); the neutral clause is universal as "no regex match => nothing" (no_match_nothing), the pool is a labelled '
       'sample; reported score in [0,1] proved for every query from the score formula (with the repaired parser the score is '
       'the extractor\'s).')
extend('C18',
       'HARDENING (audit) — string entries round-trip provided no raw LF / CR / NUL (create_entry_roundtrip_tied, CR witness).')
extend('C06',
       'HARDENING (audit) — month_words_* / day_words_* for all 9 cultures: every month / day word of the committed hand-written '
       'contracts/C06words.json (701 words) is in the tree\'s map with the contract\'s number; abs_date_month_word / '
       'abs_date_zh_words state C06 on contract words; two_digit_year_gap concludes match_to_date\'s result.')
for _pid in list(CHECKS):
    CHECKS[_pid]['level_note'] += (' Known findings are matched by property + signature + (where committed) the exact failing '
                                   'inputs under findings/sets/; every public theorem of the Props modules is required by full '
                                   'name (harness/required/).')

ALL_IDS = ['C%02d' % i for i in range(1, 21)]
PENDING = 'check not built yet in this revision (work in progress; see DESIGN.md §8 build order)'

manifest = {
    'version': 1,
    'setup_cmd': 'harness/setup.sh',
    'hooks': {
        'guard': 'RECOGNIZERS_TEXT_VERIF',
        'enable': 'no source hooks: the harness observes the implementation by importing the working tree '
                  '(PYTHONPATH = harness/shims + /repo/Python/libraries/*) and wrapping functions from the harness '
                  'process; RECOGNIZERS_TEXT_VERIF=1 is exported for completeness',
        'baseline_off_cmd': 'cd /repo && /venv/bin/python -m pytest -ra -q -p no:cacheprovider --timeout=900 '
                            '--continue-on-collection-errors',
        'source_commits': [],
        'add_only': True,
    },
    'engines': [{'name': 'rtv-lean', 'path': 'lean', 'serves_properties': sorted(CHECKS),
                 'kind_free_text': 'Lean 4 model (RTV/Model), theorems (RTV/Props), regenerated data (RTV/Gen), '
                                   'compiled model driver + Python correspondence harness (harness/)'}],
    'checks': [CHECKS[k] for k in sorted(CHECKS)],
    'not_applicable': [{'property_id': i, 'reason': NA.get(i, PENDING)} for i in ALL_IDS if i not in CHECKS],
    'notes': 'Technique: machine-checked proof in Lean 4 about a model of the code, tied to /repo by regeneration '
             '(RTV/Gen) and by a model-vs-implementation correspondence run on every check. See DESIGN.md.',
}
json.dump(manifest, open(os.path.join(VERIF, 'MANIFEST.json'), 'w'), indent=1)
print('MANIFEST.json written: %d checks, %d not_applicable' % (len(manifest['checks']), len(manifest['not_applicable'])))
