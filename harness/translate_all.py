import os, sys
sys.path.insert(0, os.path.dirname(os.path.abspath(__file__)))
from lib import common
changed, errors = common.translate(None)
print('translated; changed:', changed)
for e in errors:
    print('TRANSLATOR-ERROR', e)
sys.exit(1 if errors else 0)
