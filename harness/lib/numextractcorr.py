"""C03 — the number EXTRACTION front end for digit literals: real extractors vs RTV.Model.NumExtract.

Ties (every run), for the seven number extractors behind the eight BaseNumberParser cultures, in NumberMode.DEFAULT
and NumberMode.PURE_NUMBER (what NumberRecognizer builds):
  unit/regex    `regex.finditer(ReVal.re, s)` of every digit-family entry of the REAL extractor object vs
                `RTV.Re.findAll` on the regenerated AST (`nx.find`): strings from the literal grid in every pair of
                marks, glued / spaced / signed noise, seeded strings over the patterns' own classes;
  unit/extract  the REAL `BaseNumberExtractor.extract` method run on a clone of the extractor whose `regexes` is the
                digit family vs `RTV.NumExtract.extract` (`nx.extract`): start, length, data tag, text;
  family        on literal inputs the full extractor (all 23 regexes) must report what the digit family reports
                (the model's restriction to the family loses nothing there);
  property      (extractor level, both modes) every demanded literal (harness/corr/c03.py `demanded`), alone and in the
                carrier sentence, is ONE result spanning the WHOLE literal — the same signatures as the pipeline oracle
                of c03 (`number:<culture>:<shape>[-neg]:<split|span|no-entity>`).
`search` re-evaluates the MODEL extractor over the literal grid when a proof obligation broke and replays every literal
the model no longer extracts whole on the implementation."""
import copy

import regex

from lib import common, recorr
from lib.common import cps, uncps
from translate import numregex as NR

LANG_OF = {c: l for c, l, _, _ in NR.CULTURES}
MARKS = {c: (g, d) for c, _, g, d in NR.CULTURES}
MODE_ATTR = dict(NR.MODES)

_ex = {}


def extractor(lang, mode):
    """the real extractor object of the working tree (same construction as the translator)"""
    key = (lang, mode)
    if key not in _ex:
        common.setup_repo_imports()
        import importlib
        from recognizers_number.number.models import NumberMode
        mod, cls = next((m, c) for l, m, c in NR.LANGS if l == lang)
        M = importlib.import_module('recognizers_number.number.%s.extractors' % mod)
        common.assert_tree_modules(M)
        _ex[key] = getattr(M, cls + 'NumberExtractor')(getattr(NumberMode, MODE_ATTR[mode]))
    return _ex[key]


def restricted(ex, idxs):
    """a clone whose `regexes` property returns only the entries `idxs`; every method is the real one"""
    regs = [ex.regexes[i] for i in idxs]
    sub = type('Family' + type(ex).__name__, (type(ex),), {'regexes': property(lambda self: regs)})
    obj = copy.copy(ex)
    obj.__class__ = sub
    return obj


def fmt_ers(ers):
    return ';'.join('%d:%d:%s:%s' % (e.start, e.length, e.data, cps(e.text)) for e in ers)


def show(model_line):
    out = []
    for f in model_line.split(';'):
        if f:
            a, b, t, x = f.split(':', 3)
            out.append((int(a), int(b), t, uncps(x)))
    return out


def render_with(lit, g, d):
    ip = lit['int']
    if lit['shape'] in ('grouped', 'groupedDecimal'):
        parts = []
        while len(ip) > 3:
            parts.insert(0, ip[-3:])
            ip = ip[:-3]
        parts.insert(0, ip)
        ip = g.join(parts)
    s = ip
    if lit['frac'] is not None:
        s += d + lit['frac']
    return ('-' if lit['neg'] else '') + s


def small_grid(rng, thorough):
    """literal shapes x boundary magnitudes (kept short: the Lean matcher's look-behinds are quadratic)"""
    ints = ['0', '5', '12', '123', '999', '1000', '1234', '9999', '12345', '100000', '999999', '1000000', '1234567',
            '12345678', '123456789', '1000000000', '123456789012', '123456789012345']
    for _ in range(24 if thorough else 6):
        n = rng.randint(1, 13)
        ints.append(str(rng.randint(10 ** (n - 1), 10 ** n - 1)))
    fracs = ['5', '05', '25', '125', '000001', '123456789']
    lits = []
    for ip in ints:
        for neg in (False, True):
            lits.append({'shape': 'plain', 'neg': neg, 'int': ip, 'frac': None})
            if len(ip) > 3:
                lits.append({'shape': 'grouped', 'neg': neg, 'int': ip, 'frac': None})
            for fr in (fracs if len(ip) in (1, 3, 4, 7, 10) else fracs[:2]):
                lits.append({'shape': 'decimal', 'neg': neg, 'int': ip, 'frac': fr})
                if len(ip) > 3:
                    lits.append({'shape': 'groupedDecimal', 'neg': neg, 'int': ip, 'frac': fr})
    return lits


NOISE = ['', ' ', '-', '.', ',', '5', '-5', '- 5', '-  5', '5-3', '5 -3', '5 - 3', '1-2-3', 'x5', '5x', 'x-5', 'a 5', '5 a', '.5', ',5',
         ' .5', '5.', '5,', '1.5', '1,5', '1.5.2', '1,5,2', '1.234.567,89', '1,234,567.89', '1.234,567.89', '1,23,456', '1,2345',
         '12,34', '1234,567', '1,234,5', '1.234.5', '1 234', '1 234 567', '1 234,5', '1 234', '1 234,5', '1 234.5',
         '0,5', '00', '007', '-0', '--5', '5%', '1,000%', '3.', '3 .5', '3. 5', '12.345.678', '1.000.000,00', '-1.000,5',
         '-1,000.5', '1,000,000', '-1,000,000', '-1.000.000', '1.000', '-1.000', '1,000', '-1,000', '1234,5', '-1234,5', '-0,5',
         '-0.5', '٣', '٣,٤', '５', '1٬234', '1.5e3', '1,5e3', '2^3', '1/2', '3 1/2', '5k', '5 k', '2.5 m', '1.5 K', 'one 5',
         'minus 5', 'minus  5', 'negative 1,000', 'meno 5', 'min 5', 'negatief 5', 'the one 5', 'this one', 'that one 1,5', '.x 123',
         '. 123', '.123 456', 'é5', '5é', 'é-5', 'é -5', 'total:5', '(5)', '5;6', '5,6,7', '1.2.3.4', '10-12', '2020-01-05',
         'tausend 5', 'hundert']

ALPHA = '0123456789' * 3 + ',,,...---   ' + ' axKk%e^/٣é'


def strings(rng, lits, renders, thorough):
    """-> list of test strings: literals (own and foreign marks) alone / in carriers / glued, noise, seeded junk"""
    out = list(NOISE)
    pre = ['', ' ', 'a ', 'sum ', 'é ', 'x', '-', '5 ', '5', '.', ', ', '- ', '1,', '1.']
    post = ['', ' ', ' a', ' z.', 'x', '.', ',', ' 5', '-', '%', ',5', '.5', ' ,5', 'e3', ' k']
    for lit in lits:
        for g, d in renders:
            t = render_with(lit, g, d)
            out.append(t)
            out.append('a ' + t + ' b')
    sample = rng.sample(lits, min(len(lits), 160 if thorough else 60))
    for lit in sample:
        for g, d in renders[:2]:
            t = render_with(lit, g, d)
            for _ in range(3):
                out.append(rng.choice(pre) + t + rng.choice(post))
            out.append(t + ' ' + render_with(rng.choice(sample), g, d))
    for _ in range(1500 if thorough else 400):
        out.append(''.join(rng.choice(ALPHA) for _ in range(rng.randint(1, 14))))
    out = [s for s in dict.fromkeys(out) if len(s) <= 34]
    return out


RENDERS = [(',', '.'), ('.', ','), (' ', ','), (' ', '.'), (' ', ',')]


def run(ctx):
    from corr import c03   # the owning check: literal generator, `demanded`, carriers (already imported by vcheck)
    data = NR.classified()
    r = ctx.rng('numextract')
    grid = small_grid(r, ctx.thorough)
    strs = strings(r, grid, RENDERS, ctx.thorough)
    fam_summary = {}
    find_lines, find_impl, find_meta = [], [], []
    ex_lines, ex_impl, ex_meta = [], [], []
    for lang, _, _ in NR.LANGS:
        for mode, _ in NR.MODES:
            name = '%s/%s' % (lang, mode)
            d = data[lang][mode]
            ex = extractor(lang, mode)
            fam = [e for e in d['entries'] if 'ast' in e]
            fam_summary[name] = {'family': [e['idx'] for e in fam],
                                 'outside': {('%d:%s' % (e['idx'], e['tag'])): e['outside'] for e in d['entries']
                                             if 'outside' in e and e['tag'] in NR.DIGIT_TAGS},
                                 'other_tags': sum(1 for e in d['entries'] if e.get('outside') == 'tag')}
            for e in d['entries']:
                if e.get('outside', '').startswith('unsupported'):
                    ctx.report('proof', 'numregex-untranslatable-%s-%d' % (name, e['idx']),
                               'digit regex %r is outside the translator: %s' % (e['pattern'], e['outside']))
            for u in d['aux_unsupported']:
                ctx.report('proof', 'numregex-untranslatable-%s-aux' % name, 'negative-term / ambiguity regex: %s' % u)
            # the pattern the translator read must be the pattern the extractor runs
            for e in fam:
                pat, flags = NR.pattern_of(ex.regexes[e['idx']].re)
                if pat != e['pattern'] or flags != e['flags']:
                    raise common.InfraError('translator and correspondence read different patterns for %s[%d]' % (name, e['idx']))
            # quick tier: every extractor list sees all the noise strings and its own third of the rest (the union over
            # the fourteen lists covers everything; the lists differ in marks only)
            k = len(fam_summary)
            step = 1 if ctx.thorough else (4 if lang == 'en' else 3)   # en: ~650-range \\p{L} class inside a look-behind
            mine = strs[:len(NOISE)] + strs[len(NOISE) + k % step::step]
            fex = restricted(ex, [e['idx'] for e in fam])
            for s in mine:
                ex_lines.append('nx.extract\t%s\t%s' % (name, cps(s)))
                try:
                    ex_impl.append(fmt_ers(fex.extract(s)))
                except Exception as x:   # extract has no documented exceptions
                    ex_impl.append('raise:%s' % type(x).__name__)
                ex_meta.append((name, s))
            for e in fam:
                rx = ex.regexes[e['idx']].re
                rr = ctx.rng('numextract-re', name, e['idx'])
                own = recorr.strings_for(e['ast'], rr, 40 if not ctx.thorough else 300) if lang != 'en' or e['idx'] not in (0, 9) \
                    else []
                for s in (mine if ctx.thorough else mine[e['idx'] % 3::3]) + [x for x in own if len(x) <= 30]:
                    find_lines.append('nx.find\t%s\t%d\t%s' % (name, e['idx'], cps(s)))
                    find_impl.append(recorr.fmt_spans([m.span() for m in regex.finditer(rx, s)]))
                    find_meta.append((name, e['idx'], e['pattern'], s))
    ctx.extra['numextract_families'] = fam_summary
    # ---- unit/regex
    model = common.driver(find_lines)
    ctx.count('numextract-finditer', len(find_lines))
    for (name, idx, pat, s), a, b in zip(find_meta, find_impl, model):
        if a:
            ctx.nontriv(('nxre', name, idx, s))
        if a != b:
            ctx.report('correspondence', 'numextract-regex-%s-%d' % (name, idx),
                       'finditer(%s.regexes[%d], %r): regex module %s, Lean matcher on the translated RE %s' % (name, idx, s, a, b),
                       failing_input={'op': 'nx.find', 'extractor': name, 'index': idx, 'pattern': pat, 'string': s,
                                      'implementation': a, 'model': b})
    # ---- unit/extract
    model = common.driver(ex_lines)
    ctx.count('numextract-extract', len(ex_lines))
    for (name, s), a, b in zip(ex_meta, ex_impl, model):
        if a:
            ctx.nontriv(('nxex', name, s))
        if a != b:
            ctx.report('correspondence', 'numextract-extract-%s' % name,
                       'extract(%r) with the digit family of %s: implementation %r, model %r' % (s, name, show(a) if not a.startswith('raise') else a, show(b)),
                       failing_input={'op': 'nx.extract', 'extractor': name, 'string': s, 'implementation': a, 'model': b})
    if ex_lines:
        ctx.sample({'op': ex_lines[len(ex_lines) // 3], 'implementation': ex_impl[len(ex_lines) // 3]})
    # ---- family completeness + property, on the literals of the owning check
    lits = c03.gen_literals(ctx.rng('numextract-lits'), True) if ctx.thorough else grid
    nprop = 0
    undemanded = {}
    for cu, lang, g, dm in NR.CULTURES:
        for mode, _ in NR.MODES:
            name = '%s/%s' % (lang, mode)
            ex = extractor(lang, mode)
            fex = restricted(ex, fam_summary[name]['family'])
            for lit in lits:
                t = c03.render(lit, cu)
                for carrier in (False, True):
                    q = c03.CARRIER[cu] % t if carrier else t
                    off = q.index(t)
                    full = [(e.start, e.length) for e in ex.extract(q)]
                    nprop += 1
                    famr = [(e.start, e.length) for e in fex.extract(q)]
                    if full != famr:
                        ctx.report('correspondence', 'numextract-family-%s' % name,
                                   'extract(%r): all regexes %r, digit family %r' % (q, full, famr),
                                   failing_input={'extractor': name, 'string': q, 'all': full, 'family': famr})
                    bad = None
                    if len(full) == 0:
                        bad = 'no-entity'
                    elif len(full) > 1:
                        bad = 'split'
                    elif full[0] != (off, len(t)):
                        bad = 'span'
                    key = '%s:%s:%s%s:%s' % (mode, cu, lit['shape'], '-neg' if lit['neg'] else '', bad or 'ok')
                    if not c03.demanded(cu, 'number', lit):
                        undemanded[key] = undemanded.get(key, 0) + 1
                        continue
                    if bad:
                        ctx.report('property', 'number:%s:%s%s:%s' % (cu, lit['shape'], '-neg' if lit['neg'] else '', bad),
                                   '%s(NumberMode.%s).extract(%r): %r, the literal is at (%d, %d)' % (
                                       type(ex).__name__, MODE_ATTR[mode], q, full, off, len(t)),
                                   failing_input={'culture': cu, 'extractor': name, 'query': q, 'literal': t, 'shape': lit['shape'],
                                                  'negative': lit['neg'], 'result': full, 'expected': [off, len(t)]},
                                   property_fails=True)
                    else:
                        ctx.nontriv(('nxprop', cu, mode, q))
    ctx.count('numextract-property', nprop)
    ctx.extra['numextract_not_demanded_forms'] = undemanded


def search(ctx, proof_problems):
    """A proof obligation broke (e.g. a regenerated regex is no longer the IntegerRegexDefinition the theorems are
    about): evaluate the MODEL extractor on the literal grid (up to 8 thousands groups) and replay every literal it no
    longer extracts whole on the implementation."""
    from corr import c03
    lits = []
    for k in range(1, 27, 1):
        for ip in ('1' + '0' * (k - 1), '9' * k):
            for neg in (False, True):
                lits.append({'shape': 'plain', 'neg': neg, 'int': ip, 'frac': None})
                lits.append({'shape': 'decimal', 'neg': neg, 'int': ip, 'frac': '25'})
                if k > 3:
                    lits.append({'shape': 'grouped', 'neg': neg, 'int': ip, 'frac': None})
                    lits.append({'shape': 'groupedDecimal', 'neg': neg, 'int': ip, 'frac': '25'})
    lines, meta = [], []
    for cu, lang, g, dm in NR.CULTURES:
        for mode, _ in NR.MODES:
            for lit in lits:
                if not c03.demanded(cu, 'number', lit):
                    continue
                t = c03.render(lit, cu)
                for q in (t, 'a ' + t + ' b'):
                    lines.append('nx.extract\t%s/%s\t%s' % (lang, mode, cps(q)))
                    meta.append((cu, lang, mode, lit, t, q))
    model = common.driver(lines)
    ctx.count('numextract-search', len(lines))
    for (cu, lang, mode, lit, t, q), b in zip(meta, model):
        off = q.index(t)
        got = [(a, l) for a, l, _, _ in show(b)]
        if got == [(off, len(t))]:
            continue
        ex = extractor(lang, mode)
        real = [(e.start, e.length) for e in ex.extract(q)]
        if real != [(off, len(t))]:
            bad = 'no-entity' if not real else ('split' if len(real) > 1 else 'span')
            ctx.report('property', 'number:%s:%s%s:%s' % (cu, lit['shape'], '-neg' if lit['neg'] else '', bad),
                       '%s(NumberMode.%s).extract(%r): %r, the literal is at (%d, %d) [found by the model search]' % (
                           type(ex).__name__, MODE_ATTR[mode], q, real, off, len(t)),
                       failing_input={'culture': cu, 'extractor': '%s/%s' % (lang, mode), 'query': q, 'literal': t,
                                      'shape': lit['shape'], 'negative': lit['neg'], 'result': real, 'model': got,
                                      'expected': [off, len(t)]}, property_fails=True)
