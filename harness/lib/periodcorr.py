"""Unit correspondence of RTV.Model.Periods (Lean driver ops `pd.*`) against the real methods of
BaseDatePeriodParser (English configuration), called directly on boundary-first references:
__parse_month_with_year, _parse_simple_case, _parse_year, _parse_week_of_month, _parse_week_of_year,
__parse_which_week, __parse_quarter, _parse_half_year, __parse_season, _merge_two_times_points, _parse_duration.

The model takes the regex outcomes as inputs; here they are known by construction of the text (month number, days,
year, cardinal) or read from the same configuration calls the method makes (`get_swift_year`,
`get_swift_day_or_month`, `is_future`, `cardinal_map`), never from the method's result.
Used by corr/c08.py (and callable from c10 / c11): `unit(ctx)`."""
import calendar
import datetime as dt

from . import common, calcorr
from .calcorr import fmt_dt, ref_fields, at

MONTHS = ['january', 'february', 'march', 'april', 'may', 'june', 'july', 'august', 'september', 'october',
          'november', 'december']
CARD = [('first', 1), ('second', 2), ('third', 3), ('fourth', 4), ('fifth', 5)]
P = '_BaseDatePeriodParser'


def opt(v):
    return '-' if v is None else str(v)


def show(r):
    if not r.success:
        return 'none'
    if r.future_value is None:
        return r.timex
    return '%s\t%s\t%s\t%s\t%s' % (r.timex, fmt_dt(r.future_value[0]), fmt_dt(r.future_value[1]),
                                fmt_dt(r.past_value[0]), fmt_dt(r.past_value[1]))


def guarded(fn):
    try:
        return fn()
    except (OverflowError, ValueError):
        return 'err:Other'


def cases(ctx, pp, refs):
    """-> [(driver line, thunk computing the implementation's answer, description)]"""
    cfg = pp.config
    r = ctx.rng('periods')
    out = []

    def add(line, meth, text, R):
        out.append((line, (meth, text, R), '%s(%r, %s)' % (meth.replace(P, ''), text, R)))

    years = [1950, 1999, 2000, 2016, 2019, 2020, 2021, 2024, 2026, 2089, 2090]
    for i, R in enumerate(refs):
        rf = ref_fields(R)
        y = years[i % len(years)]
        m = i % 12 + 1
        # ---- month with year
        add('pd.mwy\t%s\t%d\t%d\t%d' % (rf, m, y, cfg.get_swift_year('')), P + '__parse_month_with_year', '%s %d' % (MONTHS[m - 1], y), R)
        for order in ('next',):
            add('pd.mwy\t%s\t%d\t-\t%d' % (rf, m, cfg.get_swift_year(order)), P + '__parse_month_with_year',
                '%s of %s year' % (MONTHS[m - 1], order), R)
        # ---- simple case
        pairs = [(4, 22), (1, 31), (28, 31), (29, 30), (22, 4), (R.day, min(R.day + 1, 31)), (r.randint(1, 31), r.randint(1, 31))]
        for (b, e) in pairs[: (7 if i % 4 == 0 else 3)]:
            mm = (R.month if i % 3 == 0 else m)
            add('pd.simple\t%s\t%d\t%d\t-\t%d\t0\t0' % (rf, b, e, mm), '_parse_simple_case', 'from %d to %d %s' % (b, e, MONTHS[mm - 1]), R)
            add('pd.simple\t%s\t%d\t%d\t%d\t%d\t0\t0' % (rf, b, e, y, mm), '_parse_simple_case',
                'from %d to %d %s %d' % (b, e, MONTHS[mm - 1], y), R)
            for rel in ('this month', 'next month', 'last month'):
                add('pd.simple\t%s\t%d\t%d\t-\t-\t%d\t%d' % (rf, b, e, cfg.get_swift_day_or_month(rel), 1 if cfg.is_future(rel) else 0),
                    '_parse_simple_case', 'from %d to %d %s' % (b, e, rel), R)
        # ---- year
        add('pd.year\t%d' % y, '_parse_year', '%d' % y, R)
        # ---- week of month
        for cw, c in CARD + [('last', 5)]:
            if i % 2 == 0 or c in (1, 5):
                add('pd.wom\t%s\t%d\t%d\t0' % (rf, c, m), '_parse_week_of_month', '%s week of %s' % (cw, MONTHS[m - 1]), R)
                for rel in ('this month', 'next month', 'last month'):
                    add('pd.wom\t%s\t%d\t-\t%d' % (rf, c, cfg.get_swift_day_or_month(rel)), '_parse_week_of_month',
                        '%s week of %s' % (cw, rel), R)
        # ---- week of year
        for cw, c in CARD[:3] + [('last', 0)]:
            add('pd.woy\t%s\t%d\t%d\t%d\t%d' % (rf, 1 if cw == 'last' else 0, c, y, cfg.get_swift_year('')), '_parse_week_of_year',
                '%s week of %d' % (cw, y), R)
            for order in ('this', 'next', 'last'):
                add('pd.woy\t%s\t%d\t%d\t-\t%d' % (rf, 1 if cw == 'last' else 0, c, cfg.get_swift_year(order)), '_parse_week_of_year',
                    '%s week of %s year' % (cw, order), R)
        # ---- which week
        for n in (1, 2, 26, 52, 53, r.randint(1, 53)):
            add('pd.which\t%s\t%d' % (rf, n), P + '__parse_which_week', 'week %d' % n, R)
        # ---- quarter
        for q in (1, 2, 3, 4):
            add('pd.quarter\t%s\t%d\t-\t%d\t%d\t0' % (rf, y, cfg.get_swift_year(''), q), P + '__parse_quarter', 'q%d %d' % (q, y), R)
            cw = CARD[q - 1][0]
            add('pd.quarter\t%s\t%d\t-\t%d\t-\t%d' % (rf, y, cfg.get_swift_year(''), q), P + '__parse_quarter', '%s quarter of %d' % (cw, y), R)
            add('pd.quarter\t%s\t-\t-\t%d\t-\t%d' % (rf, cfg.get_swift_year(''), q), P + '__parse_quarter', 'the %s quarter' % cw, R)
            for order in ('this', 'next', 'last'):
                add('pd.quarter\t%s\t-\t-\t%d\t-\t%d' % (rf, cfg.get_swift_year(order), q), P + '__parse_quarter',
                    '%s quarter of %s year' % (cw, order), R)
        for order in ('this', 'next', 'last'):
            add('pd.quarter\t%s\t-\t%d\t0\t-\t0' % (rf, cfg.get_swift_year(order)), P + '__parse_quarter', '%s quarter' % order, R)
        # ---- half year
        for hw, h in (('first', 1), ('second', 2)):
            add('pd.half\t%s\t%d\t%d\t%d' % (rf, y, cfg.get_swift_year(''), h), '_parse_half_year', '%s half of %d' % (hw, y), R)
            add('pd.half\t%s\t%d\t%d\t%d' % (rf, y, cfg.get_swift_year(''), h), '_parse_half_year', 'h%d %d' % (h, y), R)
            for order in ('this', 'next', 'last'):
                add('pd.half\t%s\t-\t%d\t%d' % (rf, cfg.get_swift_year(order), h), '_parse_half_year', '%s half of %s year' % (hw, order), R)
        # ---- season (TIMEX only)
        for sw, code in (('summer', 'SU'), ('winter', 'WI')):
            add('pd.season\t%s\t%d\t%d\t%s' % (rf, y, cfg.get_swift_year('%s %d' % (sw, y)), code), P + '__parse_season', '%s %d' % (sw, y), R)
            for order in ('this', 'next', 'last'):
                t = '%s %s' % (order, sw)
                add('pd.season\t%s\t-\t%d\t%s' % (rf, cfg.get_swift_year(t), code), P + '__parse_season', t, R)
            add('pd.season\t%s\t-\t%d\t%s' % (rf, cfg.get_swift_year(sw), code), P + '__parse_season', sw, R)
        # ---- duration prefixes
        for n in (1, 2, 3, 12, r.randint(1, 400)):
            for u, word in (('D', 'day'), ('W', 'week'), ('M', 'month'), ('Y', 'year')):
                w = word if n == 1 else word + 's'
                if u in ('M', 'Y') and n > 40:
                    continue
                add('pd.dur\t%s\tpast\t%s\t%d' % (rf, u, n), '_parse_duration', 'past %d %s' % (n, w), R)
                add('pd.dur\t%s\tnext\t%s\t%d' % (rf, u, n), '_parse_duration', 'next %d %s' % (n, w), R)
                add('pd.dur\t%s\tin\t%s\t%d' % (rf, u, n), '_parse_duration', 'in %d %s' % (n, w), R)
    return out


def merge_cases(ctx, pp, refs):
    """_merge_two_times_points: the two dates are resolved by the real date parser; the model gets those results."""
    r = ctx.rng('periods-merge')
    out = []
    pairs = [((2, 28), (3, 1)), ((12, 28), (1, 3)), ((5, 2), (5, 7)), ((1, 30), (2, 2)), ((2, 27), (2, 28)), ((6, 10), (6, 1))]      # 29 February: the year sync of DateContext is not modelled
    for i, R in enumerate(refs):
        sel = pairs if i % 5 == 0 else [pairs[i % len(pairs)], ((r.randint(1, 12), r.randint(1, 28)), (r.randint(1, 12), r.randint(1, 28)))]
        for (m1, d1), (m2, d2) in sel:
            text = 'from %s %d to %s %d' % (MONTHS[m1 - 1], d1, MONTHS[m2 - 1], d2)
            ers = pp.config.date_extractor.extract(text, R)
            if len(ers) != 2:
                continue
            p1 = pp.config.date_parser.parse(ers[0], R)
            p2 = pp.config.date_parser.parse(ers[1], R)
            if not p1.value or not p2.value:
                continue
            line = 'pd.merge\t%s\t%s\t%s\t%s\t%s\t%s' % (fmt_dt(p1.value.future_value), fmt_dt(p1.value.past_value), p1.timex_str,
                                                     fmt_dt(p2.value.future_value), fmt_dt(p2.value.past_value), p2.timex_str)
            out.append((line, ('_merge_two_times_points', text, R), '_merge_two_times_points(%r, %s)' % (text, R)))
    return out


def unit(ctx, n_refs=None):
    from recognizers_date_time.date_time.english.common_configs import EnglishCommonDateTimeParserConfiguration
    pp = EnglishCommonDateTimeParserConfiguration().date_period_parser
    r = ctx.rng('periods-refs')
    bdays = calcorr.boundary_days()
    n_b, n_s = (len(bdays), 600) if ctx.thorough else (n_refs or 260, 90)
    days = [dt.date(2020, 1, 29), dt.date(2020, 1, 31), dt.date(2020, 12, 31), dt.date(2021, 1, 1), dt.date(2019, 12, 30)] + \
        r.sample(bdays, min(n_b, len(bdays))) + calcorr.seeded_days(r, n_s)
    refs = [at(d, calcorr.TIMES[i % 3]) for i, d in enumerate(days)]
    cs = cases(ctx, pp, refs) + merge_cases(ctx, pp, refs[:: (1 if ctx.thorough else 3)])
    impl = []
    for line, (meth, text, R), desc in cs:
        impl.append(guarded(lambda: show(getattr(pp, meth)(text, R))))
    model = common.driver([c[0] for c in cs])
    hist = {}
    shown = {}
    for (line, _call, desc), a, b in zip(cs, impl, model):
        op = line.split('\t')[0]
        hist[op] = hist.get(op, 0) + 1
        if a != 'none':
            ctx.nontriv(('periods', desc))
        if a != b:
            shown[op] = shown.get(op, 0) + 1
            if shown[op] <= 3:
                ctx.report('correspondence', 'periods-' + op[3:], '%s: implementation %s, model %s' % (desc, a, b),
                           failing_input={'op': line, 'call': desc, 'implementation': a, 'model': b})
    for op, n in hist.items():
        ctx.count('BaseDatePeriodParser:' + op, n)
    ctx.sample({'op': cs[0][0], 'call': cs[0][2], 'implementation': impl[0]})
    return cs, impl, model
