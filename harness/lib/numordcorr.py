"""C04 (builder X2): French / Italian cardinals at and above 1000 and ordinals below 1000 of es pt de nl fr it.

Specifications (printed by the Lean driver from the very functions the theorems of Props/C04Big2 are about):
  no.spell <fr|it> n     RTV.Num.spellTop   (french_cardinal_partial n < 10^12, italian_cardinal_partial n < 10^15)
  no.multk <fr|it> k     the multiplier form in front of the thousand word
  no.ord <cu> n          RTV.Num.spellOrdEu (<culture>_ordinal_sub1000[_partial], 1 <= n < 1000)

Ties (every run):
  unit      text_number_regex on the surface string yields the specification's tokens; __get_int_value on them =
            the model (`n.giv`); where the theorem's guard holds (GUARD below = the arithmetic of `frBigGuard_iff`,
            `itBigGuard`, the ordinal guards) the value is the denoted integer.
  pipeline  recognize_number / recognize_ordinal on the numeral alone and in a carrier sentence: one entity, whole
            span, value n.  A failure is keyed by its word class (plural `cents`, single-token `un million`, accented
            `-tré`, `decimoséptimo`, `quadringentésimo`, `vierzigste`, ...), so that a different defect of the same
            culture is not hidden behind a recorded signature.
Boundary first: 10^k, 10^k +- 1, x * 10^k + y, the thousand group k * 1000 + u over boundary multipliers / remainders
(80, 200, 280, 21, 23, 101 ...), then seeded values with random groups zeroed / set to boundary values."""
from lib import common
from lib.common import cps, uncps

TOP = {'fr-fr': ('fr', 10 ** 12), 'it-it': ('it', 10 ** 15)}
ORD = {'es-es': 'es', 'pt-br': 'pt', 'de-de': 'de', 'nl-nl': 'nl', 'fr-fr': 'fr', 'it-it': 'it'}
KS = [1, 2, 3, 8, 11, 17, 21, 23, 28, 33, 71, 80, 81, 91, 93, 99, 100, 101, 103, 123, 180, 200, 201, 280, 300, 999]
US = [0, 1, 3, 8, 21, 23, 80, 99, 100, 101, 123, 180, 200, 223, 280, 300, 900, 999]
XS = [1, 2, 21, 23, 80, 100, 101, 200, 223, 999]
YS = [0, 1, 21, 23, 99, 100, 200, 1000, 1001, 2000, 23000, 80000, 200000, 999999]
GROUP_POOL = [0, 0, 0, 1, 1, 2, 21, 23, 80, 93, 100, 101, 200, 280, 300, 999]


def fr_guard(n):
    """`frBigGuard_iff` (Props/C04Big2)"""
    u, k, m, b = n % 1000, n // 1000 % 1000, n // 10 ** 6 % 1000, n // 10 ** 9
    rh = lambda x: x % 100 == 0 and x >= 200
    return (not rh(u) and not rh(m) and not rh(b) and (m != 1 or (k == 0 and u < 100))
            and (b != 1 or (m <= 1 and k == 0 and u < 100)))


def it_guard(n):
    """`itBigGuard`"""
    tre = lambda x: x % 10 == 3 and x % 100 >= 20
    return not any(tre(g) for g in (n % 1000, n // 10 ** 6 % 1000, n // 10 ** 9 % 1000, n // 10 ** 12))


def fr_guard_no_cents(n):
    """the single-token `un million` / `un milliard` part of the French guard"""
    u, k, m, b = n % 1000, n // 1000 % 1000, n // 10 ** 6 % 1000, n // 10 ** 9
    return (m != 1 or (k == 0 and u < 100)) and (b != 1 or (m <= 1 and k == 0 and u < 100))


GUARD = {'fr-fr': fr_guard, 'it-it': it_guard}
ORD_GUARD = {'es-es': lambda n: n % 100 != 17,
             'it-it': lambda n: not ((n % 100 in (11, 13)) and n >= 100) and not (n % 100 == 0 and n >= 200)}


def numbers(ctx, cu):
    w, bound = TOP[cu]
    r = ctx.rng('numord-' + cu)
    ns = set()
    for k in KS:
        for u in US:
            ns.add(1000 * k + u)
    top = 14 if bound > 10 ** 12 else 11
    for k in range(3, top + 1):
        ns.update([10 ** k - 1, 10 ** k, 10 ** k + 1])
        full = ctx.thorough or k % 3 == 0
        for x in (XS if full else [1, 2, 23, 200]):
            for y in (YS if full else [0, 1, 100, 1000]):
                ns.add(x * 10 ** k + y)
    ns.update([bound - 1, 1001000021, 1000021, 1021001, 1000100, 1002000, 1002000000, 2001000000, 2001000021, 200000000,
               80000000, 280080, 23000000, 23000, 23023023, 2100000, 2100001, 2100000000, 2100000001, 2100100021, 1000001000, 999999999999, 123456789012, 101101101101])
    for _ in range(6000 if ctx.thorough else 300):
        k = r.randint(4, len(str(bound)) - 1)
        n = r.randint(10 ** (k - 1), 10 ** k - 1)
        if r.random() < 0.6:
            g = [n // 1000 ** i % 1000 for i in range(5)]
            g = [v if r.random() < 0.5 else r.choice(GROUP_POOL) for v in g]
            n = sum(v * 1000 ** i for i, v in enumerate(g))
        ns.add(n)
    return sorted(n for n in ns if 1000 <= n < bound)


def parse_pair(o):
    text, toks = o.split('|')
    return uncps(text), [uncps(t) for t in toks.split(';')] if toks else []


def card_class(cu, n, text, bad):
    """word class of a failing cardinal (the recorded findings are keyed by it)"""
    if cu == 'fr-fr':
        k, m = n // 1000 % 1000, n // 10 ** 6 % 1000
        if fr_guard_no_cents(n) and ((k == 100 and n >= 10 ** 6) or (m == 100 and n >= 10 ** 9)):
            # `deux millions cent mille`: SupportThousandsRegex takes `millions cent` as two round words in a row
            return 'fr-fr:cardinal-scale:cent-after-scale'
        if bad == 'split' and fr_guard_no_cents(n) and ('-' in text or ' et ' in text):
            return 'fr-fr:cardinal:compound'       # the recorded family: a compound after `cent` inside a sentence
        if 'cents' in text:
            return 'fr-fr:cardinal:plural-cents'
        if not fr_guard(n):
            return 'fr-fr:cardinal-scale:un-million'
        if '-' in text or ' et ' in text:
            return 'fr-fr:cardinal:compound'
        return 'fr-fr:cardinal-scale:other'
    if 'tré' in text:
        return 'it-it:cardinal:accented-tre'
    return 'it-it:cardinal-scale:other'


def ord_class(cu, n, text):
    if cu == 'es-es' and n % 100 == 17:
        return 'decimoseptimo'
    if cu == 'pt-br' and 400 <= n % 1000 < 500:
        return 'quadringentesimo'
    if cu == 'de-de' and 40 <= n % 100 <= 49:
        return 'vierzig'
    if cu == 'it-it' and n < 1000:
        if n % 100 == 0 and n >= 200:
            return 'hundreds'
        if n >= 100 and n % 100 in (11, 13):
            return 'compound-teen'
        if n >= 100:
            return 'compound'
    if cu == 'fr-fr' and n < 1000:
        if text.endswith('unième') and n != 21 and n % 100 not in (31, 41, 51, 61):
            return 'unieme'
        if n > 20 and (n % 100 in range(10, 20) or n % 100 in range(70, 80) or n % 100 in range(90, 100) or n % 10 == 0):
            return 'prefix-special'      # a tens / 10..19 ordinal after another numeral word
    return 'unit' if n < 20 else 'tens' if n < 100 else 'hundreds' if n < 1000 else 'thousands'


def unit_and_pipeline(ctx, table, kind, guard_of, classify, fam):
    """table: {(cu, n): (text, toks)}"""
    from corr import numlib
    from corr.c04 import judge, CARRIER, variant, giv_impl
    fx = variant()
    keys = list(table)
    model = [numlib.canon_model_err(m) for m in common.driver(
        ['n.giv\t%s\t%d\t%s' % (cps(cu), fx, '\t'.join(cps(t) for t in table[(cu, n)][1])) for cu, n in keys])]
    ctx.count('%s-int-value' % fam, len(keys))
    for (cu, n), b in zip(keys, model):
        text, toks = table[(cu, n)]
        parser = numlib.models(cu)[kind].parser
        got = [m.group().lower() for m in parser.text_number_regex.finditer(text)]
        if got != toks:
            ctx.report('correspondence', 'tokenise-%s' % cu, 'text_number_regex on %r: %r, specification tokens %r' % (
                text, got, toks), failing_input={'culture': cu, 'text': text, 'implementation': got, 'model': toks})
        a, v = giv_impl(parser, toks)
        ok = guard_of(cu, n)
        if v is not None and abs(v) >= 10 ** 15:      # beyond the 15 digits of the decimal context: outside the model
            ctx.count('%s-skipped-over-15-digits' % fam)
        elif a != b:
            ctx.report('correspondence', 'int-value', '__get_int_value(%r) [%s]: implementation %s, model %s' % (
                toks, cu, a, b), failing_input={'culture': cu, 'tokens': toks, 'implementation': a, 'model': b, 'denotes': n},
                property_fails=(ok and a != str(n)))
        elif ok and a != str(n):
            ctx.report('property', '%s:%s:guarded:value' % (cu, fam),
                       '__get_int_value(%r) = %s, the numeral %r denotes %d (inside the guard of the theorem)' % (toks, a, text, n),
                       failing_input={'culture': cu, 'tokens': toks, 'query': text, 'implementation': a, 'denotes': n},
                       property_fails=True)
        elif ok:
            ctx.nontriv((fam, cu, n))
        else:
            ctx.count('%s-outside-guard-%s' % (fam, cu))
            if a == str(n):       # the guard is meant to be exact
                ctx.report('correspondence', 'guard-not-exact-%s' % cu, '__get_int_value(%r) = %s = the denoted integer although '
                           'the numeral %r is outside the guard' % (toks, a, text),
                           failing_input={'culture': cu, 'tokens': toks, 'query': text, 'denotes': n})
    jobs, meta = [], []
    for (cu, n), (text, toks) in table.items():
        for carrier in (False, True):
            q = CARRIER[cu] % text if carrier else text
            jobs.append((kind, cu, q))
            meta.append((cu, n, text, q, q.index(text)))
    results = numlib.run_pipeline(jobs)
    for (cu, n, text, q, off), res in zip(meta, results):
        ctx.count('pipeline-%s-%s' % (cu, fam))
        if not isinstance(res, str) and res:
            ctx.nontriv((cu, fam, q))
        bad, detail = judge(res, text, off, n, None)
        if bad:
            ctx.report('property', '%s:%s' % (classify(cu, n, text, bad), bad), '%s(%r, %s): %s' % (kind, q, cu, detail),
                       failing_input={'culture': cu, 'model': kind, 'query': q, 'numeral': text, 'denotes': n,
                                      'result': res}, property_fails=True)


PROBES = [('fr-fr', 'deux billions', 2 * 10 ** 12, 'fr-fr:cardinal-scale:billions'),
          ('fr-fr', 'trois billions', 3 * 10 ** 12, 'fr-fr:cardinal-scale:billions')]


def run(ctx):
    import time
    from corr import numlib
    from corr.c04 import judge, variant, giv_impl
    fx = variant()
    t0 = time.time()
    # ---- the multiplier forms in front of the thousand word
    for cu, (w, _) in TOP.items():
        parser = numlib.models(cu)['number'].parser
        ks = list(range(2, 1000)) if ctx.thorough else list(range(2, 130)) + list(range(130, 1000, 7)) + [180, 200, 223, 280, 300, 980, 999]
        forms = [parse_pair(o) for o in common.driver(['no.multk\t%s\t%d' % (w, k) for k in ks])]
        model = [numlib.canon_model_err(m) for m in common.driver(
            ['n.giv\t%s\t%d\t%s' % (cps(cu), fx, '\t'.join(cps(t) for t in toks)) for _, toks in forms])]
        ctx.count('numtop-multiplier-%s' % cu, len(ks))
        for k, (text, toks), b in zip(ks, forms, model):
            a, _ = giv_impl(parser, toks)
            if a != b:
                ctx.report('correspondence', 'int-value', '__get_int_value(%r) [%s]: implementation %s, model %s' % (
                    toks, cu, a, b), failing_input={'culture': cu, 'tokens': toks, 'implementation': a, 'model': b, 'denotes': k})
            elif a != str(k):
                ctx.report('property', '%s:thousand-multiplier-value' % cu, '__get_int_value(%r) = %s, the multiplier %r denotes %d'
                           % (toks, a, text, k), failing_input={'culture': cu, 'tokens': toks, 'implementation': a, 'denotes': k},
                           property_fails=True)
            else:
                ctx.nontriv(('numtop-mult', cu, k))
    # ---- cardinals at and above 1000
    table = {}
    for cu, (w, _) in TOP.items():
        ns = numbers(ctx, cu)
        ctx.extra['numtop_values_%s' % cu] = len(ns)
        for n, o in zip(ns, common.driver(['no.spell\t%s\t%d' % (w, n) for n in ns])):
            table[(cu, n)] = parse_pair(o)
    unit_and_pipeline(ctx, table, 'number', lambda cu, n: GUARD[cu](n), card_class, 'cardinal-top')
    # ---- outside the specification's range: why the French bound is 10^12
    for cu, text, n, sig in PROBES:
        res = numlib.run_pipeline([('number', cu, text)])[0]
        bad, detail = judge(res, text, 0, n, None)
        ctx.count('numtop-probe')
        if bad:
            ctx.report('property', '%s:%s' % (sig, bad), 'number(%r, %s): %s' % (text, cu, detail),
                       failing_input={'culture': cu, 'model': 'number', 'query': text, 'denotes': n, 'result': res},
                       property_fails=True)
    # ---- ordinals below 1000
    otable = {}
    for cu, w in ORD.items():
        ns = list(range(1, 1000))
        for n, o in zip(ns, common.driver(['no.ord\t%s\t%d' % (w, n) for n in ns])):
            otable[(cu, n)] = parse_pair(o)
    unit_and_pipeline(ctx, otable, 'ordinal', lambda cu, n: ORD_GUARD.get(cu, lambda _: True)(n),
                      lambda cu, n, text, bad: '%s:ordinal:%s' % (cu, ord_class(cu, n, text)), 'ordinal-sub1000')
    # ---- German ordinals from 1000 to 10^6 (`spellOrdDe`, theorem german_ordinal_sub1e6)
    r = ctx.rng('numord-de-big')
    ns = set()
    for k in KS:
        for u in [0, 1, 2, 3, 7, 8, 11, 12, 20, 21, 40, 43, 99, 100, 101, 111, 143, 200, 900, 999]:
            ns.add(1000 * k + u)
    for _ in range(4000 if ctx.thorough else 250):
        ns.add(r.randint(1000, 999999))
    ns = sorted(ns)
    dtable = {('de-de', n): parse_pair(o) for n, o in zip(ns, common.driver(['no.ordde\t%d' % n for n in ns]))}
    unit_and_pipeline(ctx, dtable, 'ordinal', lambda cu, n: True,
                      lambda cu, n, text, bad: '%s:ordinal:%s' % (cu, ord_class(cu, n, text)), 'ordinal-de-sub1e6')
    ctx.extra['numord_seconds'] = round(time.time() - t0, 1)
