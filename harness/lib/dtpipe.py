"""Run the working tree's date-time model over many (culture, query, reference) triples on all cores and return
plain-data entities; shared by the C06–C11 pipeline checks.

Results are cached under /verif/.cache/dtpipe keyed by a content hash of EVERY Python source of the working tree's
libraries (+ the shims) and of the job list, so two checks that need the same run (C10 and C11 over the Specs
inputs) pay for it once; any edit to the tree changes the key (nothing stale can be served).  A run in which a query
timed out or the public API raised is not cached.

Swallowed exceptions.  `DateTimeModel.parse` wraps extraction + parsing in `try: … except Exception: pass`: when the merged
extractor or the merged parser raises, the entities found so far (often none) are returned and nothing tells the caller.
The workers therefore wrap `model.extractor.extract` and `model.parser.parse` (instance attributes, worker process only)
with a recorder that notes the exception and re-raises it: per query we know whether the model's `except` swallowed
something, at which stage, and which exception.  `run` keeps the records of its last call in `LAST_SWALLOWED` (aligned with
the jobs: None or [stage, exception type, message]) and appends them to `SWALLOWED_LOG`; `swallowed_summary()` is what a
check puts into its evidence (`swallowed_exceptions`: by exception type and culture)."""
import hashlib
import json
import multiprocessing as mp
import os
import signal

from . import common, recog


PER_QUERY_TIMEOUT = 150   # first use of a culture compiles its regexes (seconds, more under load)


class _Timeout(Exception):
    pass


def _alarm(signum, frame):
    raise _Timeout()


def instrument(model):
    """Record what `DateTimeModel.parse` swallows: wrap the model's merged extractor / merged parser entry points so that an
    exception leaving them is noted (outermost call only) and re-raised unchanged. -> the list records are appended to."""
    rec = getattr(model, '_verif_swallowed', None)
    if rec is not None:
        return rec
    rec = []
    depth = [0]

    def wrap(obj, name, stage):
        orig = getattr(obj, name)

        def wrapped(*a, **k):
            depth[0] += 1
            try:
                return orig(*a, **k)
            except Exception as e:
                if depth[0] == 1:
                    rec.append([stage, type(e).__name__, str(e)[:160]])
                raise
            finally:
                depth[0] -= 1
        setattr(obj, name, wrapped)

    wrap(model.extractor, 'extract', 'extract')
    wrap(model.parser, 'parse', 'parse')
    model._verif_swallowed = rec
    return rec


def _work(chunk):
    out = []
    signal.signal(signal.SIGALRM, _alarm)
    for (culture, query, ref) in chunk:
        rec = None
        try:
            rec = instrument(recog.get_model('DateTime', 'DateTimeModel', culture))
            del rec[:]
        except Exception:
            rec = None
        try:
            signal.alarm(PER_QUERY_TIMEOUT)
            rs = recog.parse('DateTime', 'DateTimeModel', culture, query, ref)
            signal.alarm(0)
            ents = []
            for r in rs:
                vals = None
                if r.resolution is not None:
                    vals = [dict(v) for v in (r.resolution.get('values') or [])]
                ents.append({'start': r.start, 'end': r.end, 'text': r.text, 'type_name': r.type_name, 'values': vals})
            out.append((ents, list(rec[0]) if rec else None))
        except _Timeout:
            out.append(('TIMEOUT', None))
        except Exception as e:
            signal.alarm(0)
            out.append(('EXC %s: %s' % (type(e).__name__, e), None))
    return out


LAST_SWALLOWED = []    # aligned with the jobs of the last `run`: None | [stage, exception type, message]
SWALLOWED_LOG = []     # every record of this process: (culture, query, reference, stage, exception type, message)
_LOGGED = set()
QUERIES_RUN = [0]


def _note(jobs, sw):
    del LAST_SWALLOWED[:]
    LAST_SWALLOWED.extend(sw)
    for (c, q, r), x in zip(jobs, sw):
        k = (c, q, str(r))
        if k in _LOGGED:
            continue
        _LOGGED.add(k)
        QUERIES_RUN[0] += 1
        if x:
            SWALLOWED_LOG.append((c, q, str(r), x[0], x[1], x[2]))


def swallowed_summary(samples=8):
    """For the evidence: how many distinct (culture, query, reference) of this process's runs had an exception swallowed by
    `DateTimeModel.parse`, by exception type and culture, by stage, and a few examples."""
    by = {}
    stage = {}
    for (c, q, r, st, et, msg) in SWALLOWED_LOG:
        by['%s:%s' % (et, c)] = by.get('%s:%s' % (et, c), 0) + 1
        stage[st] = stage.get(st, 0) + 1
    return {'distinct_queries_run': QUERIES_RUN[0], 'queries_with_swallowed_exception': len(SWALLOWED_LOG),
            'by_exception_type_and_culture': dict(sorted(by.items())), 'by_stage': stage,
            'examples': [{'culture': c, 'query': q, 'reference': r, 'stage': st, 'exception': '%s: %s' % (et, msg)}
                         for (c, q, r, st, et, msg) in SWALLOWED_LOG[:samples]]}


_TREE_HASH = None


def tree_hash():
    global _TREE_HASH
    if _TREE_HASH is None:
        h = hashlib.sha256()
        roots = [os.path.join(common.REPO, 'Python', 'libraries'), common.SHIMS]
        for root in roots:
            for d, dirs, files in sorted(os.walk(root)):
                dirs.sort()
                if '__pycache__' in d:
                    continue
                for f in sorted(files):
                    if f.endswith('.py'):
                        p = os.path.join(d, f)
                        h.update(os.path.relpath(p, root).encode())
                        with open(p, 'rb') as fh:
                            h.update(fh.read())
        _TREE_HASH = h.hexdigest()
    return _TREE_HASH


def run(jobs, procs=None, cache=True):
    """jobs: list of (culture, query, reference datetime) -> list of entity lists (or 'TIMEOUT' / 'EXC …')."""
    procs = procs or min(16, os.cpu_count() or 4)
    if not jobs:
        return []
    cpath = None
    if cache:
        key = hashlib.sha256((tree_hash() + json.dumps([(c, q, str(r)) for c, q, r in jobs], ensure_ascii=False)).encode()).hexdigest()
        cdir = os.path.join(common.VERIF, '.cache', 'dtpipe')
        os.makedirs(cdir, exist_ok=True)
        cpath = os.path.join(cdir, key + '.json')
        if os.path.exists(cpath):
            try:
                with open(cpath, encoding='utf-8') as f:
                    hit = json.load(f)
                if isinstance(hit, dict) and len(hit.get('out', ())) == len(jobs) == len(hit.get('swallowed', ())):
                    _note(jobs, hit['swallowed'])
                    return hit['out']
            except Exception:
                pass
    # group by culture so each worker compiles few cultures; interleave for balance
    order = sorted(range(len(jobs)), key=lambda i: jobs[i][0])
    nchunks = procs * 8
    chunks_idx = [order[i::nchunks] for i in range(nchunks)]
    chunks = [[jobs[i] for i in idx] for idx in chunks_idx]
    with mp.Pool(procs) as pool:
        res = pool.map(_work, chunks)
    out = [None] * len(jobs)
    sw = [None] * len(jobs)
    for idx, r in zip(chunks_idx, res):
        for i, x in zip(idx, r):
            out[i], sw[i] = x
    _note(jobs, sw)
    if cpath and not any(isinstance(x, str) for x in out):    # a TIMEOUT / EXC run is never served again
        # keep the cache small: drop entries older than a day
        try:
            import time
            for f in os.listdir(os.path.dirname(cpath)):
                fp = os.path.join(os.path.dirname(cpath), f)
                if time.time() - os.path.getmtime(fp) > 86400:
                    os.remove(fp)
            tmp = cpath + '.tmp%d' % os.getpid()
            with open(tmp, 'w', encoding='utf-8') as f:
                json.dump({'out': out, 'swallowed': sw}, f, ensure_ascii=False)
            os.replace(tmp, cpath)
        except Exception:
            pass
    return out
