"""Run the working tree's date-time model over many (culture, query, reference) triples on all cores and return
plain-data entities; shared by the C06–C11 pipeline checks.

Results are cached under /verif/.cache/dtpipe keyed by a content hash of EVERY Python source of the working tree's
libraries (+ the shims) and of the job list, so two checks that need the same run (C10 and C11 over the Specs
inputs) pay for it once; any edit to the tree changes the key (nothing stale can be served)."""
import hashlib
import json
import multiprocessing as mp
import os
import signal

from . import common, recog


PER_QUERY_TIMEOUT = 150   # first use of a culture compiles its regexes (seconds, more under load)


class _Timeout(Exception):
    pass


def _alarm(signum, frame):
    raise _Timeout()


def _work(chunk):
    out = []
    signal.signal(signal.SIGALRM, _alarm)
    for (culture, query, ref) in chunk:
        try:
            signal.alarm(PER_QUERY_TIMEOUT)
            rs = recog.parse('DateTime', 'DateTimeModel', culture, query, ref)
            signal.alarm(0)
            ents = []
            for r in rs:
                vals = None
                if r.resolution is not None:
                    vals = [dict(v) for v in (r.resolution.get('values') or [])]
                ents.append({'start': r.start, 'end': r.end, 'text': r.text, 'type_name': r.type_name, 'values': vals})
            out.append(ents)
        except _Timeout:
            out.append('TIMEOUT')
        except Exception as e:
            signal.alarm(0)
            out.append('EXC %s: %s' % (type(e).__name__, e))
    return out


_TREE_HASH = None


def tree_hash():
    global _TREE_HASH
    if _TREE_HASH is None:
        h = hashlib.sha256()
        roots = [os.path.join(common.REPO, 'Python', 'libraries'), common.SHIMS]
        for root in roots:
            for d, dirs, files in sorted(os.walk(root)):
                dirs.sort()
                if '__pycache__' in d:
                    continue
                for f in sorted(files):
                    if f.endswith('.py'):
                        p = os.path.join(d, f)
                        h.update(os.path.relpath(p, root).encode())
                        with open(p, 'rb') as fh:
                            h.update(fh.read())
        _TREE_HASH = h.hexdigest()
    return _TREE_HASH


def run(jobs, procs=None, cache=True):
    """jobs: list of (culture, query, reference datetime) -> list of entity lists (or 'TIMEOUT' / 'EXC …')."""
    procs = procs or min(16, os.cpu_count() or 4)
    if not jobs:
        return []
    cpath = None
    if cache:
        key = hashlib.sha256((tree_hash() + json.dumps([(c, q, str(r)) for c, q, r in jobs], ensure_ascii=False)).encode()).hexdigest()
        cdir = os.path.join(common.VERIF, '.cache', 'dtpipe')
        os.makedirs(cdir, exist_ok=True)
        cpath = os.path.join(cdir, key + '.json')
        if os.path.exists(cpath):
            try:
                with open(cpath, encoding='utf-8') as f:
                    return json.load(f)
            except Exception:
                pass
    # group by culture so each worker compiles few cultures; interleave for balance
    order = sorted(range(len(jobs)), key=lambda i: jobs[i][0])
    nchunks = procs * 8
    chunks_idx = [order[i::nchunks] for i in range(nchunks)]
    chunks = [[jobs[i] for i in idx] for idx in chunks_idx]
    with mp.Pool(procs) as pool:
        res = pool.map(_work, chunks)
    out = [None] * len(jobs)
    for idx, r in zip(chunks_idx, res):
        for i, x in zip(idx, r):
            out[i] = x
    if cpath:
        # keep the cache small: drop entries older than a day
        try:
            import time
            for f in os.listdir(os.path.dirname(cpath)):
                fp = os.path.join(os.path.dirname(cpath), f)
                if time.time() - os.path.getmtime(fp) > 86400:
                    os.remove(fp)
            tmp = cpath + '.tmp%d' % os.getpid()
            with open(tmp, 'w', encoding='utf-8') as f:
                json.dump(out, f, ensure_ascii=False)
            os.replace(tmp, cpath)
        except Exception:
            pass
    return out
