"""Correspondence of RTV.Model.NumCjk (Lean driver ops `cj.*`) with the real `CJKNumberParser` of the working tree, for
the Chinese and the Japanese configuration objects, and pipeline oracles for the paths the C04 check did not reach
(ordinals, signs, dozen, spelled decimals, fractions, spelled / special percentages).

unit      * the configuration's regexes as translated into RTV.Gen.NumCjkZh/Ja against the `regex` module
            (`search` span, `finditer` spans, `split` pieces) on every generated text;
          * replace_trad_with_simplified / replace_full_with_half / replace_unit;
          * get_int_value, get_point_value, get_digit_value, get_value_from_part (value AND Python type:
            int / float as an exact fraction / Decimal as a tuple);
          * parse: the real extractors of the culture run on the generated text, every ExtractResult they produce
            (text + the tag they put into `data`) goes through the real `parse` and through `cj.parse`: value, type and
            resolution string must agree; the same texts with forced tags (so that paths the extractor never tags are
            compared too); per_parse / frac_parse / dou_parse / int_parse / ord_parse directly;
          * the software binary64: repr, +, *, /, Decimal(float), float(Decimal) against CPython.
pipeline  recognize_number / recognize_ordinal / recognize_percentage on generated expressions with an exact-rational
          oracle (fractions.Fraction): one entity, whole span, resolution string denotes the number written (15
          significant digits for quotients).

Called from corr/c04.py: `unit(ctx)`."""
import math
import unicodedata
from decimal import Decimal, DecimalException
from fractions import Fraction

from . import common
from .common import cps, uncps

RE_NAMES = [('negSign', 'negative_number_sign_regex'), ('dozen', 'dozen_regex'), ('pair', 'pair_regex'),
            ('digitNum', 'digit_num_regex'), ('percentage', 'percentage_regex'), ('percentageNum', 'percentage_num_regex'),
            ('doubleAndRound', 'double_and_round_regex'), ('fracSplit', 'frac_split_regex'), ('point', 'point_regex'),
            ('speGetNumber', 'spe_get_number_regex'), ('digitalNumber', 'digital_number_regex')]
W = {'zh-cn': 'zh', 'ja-jp': 'ja'}      # driver configuration names; `probe_variant` appends 'fx' for the repaired tree
PROBE = '零点三'      # add_point_value (findings/numcjk/point-value-float.diff): '0.3'; as first found: '0.30000000000000004'
_st = {}


def setup():
    if _st:
        return _st
    from corr import numlib, numerals
    numlib.setup()
    import regex
    from recognizers_text.extractor import ExtractResult
    from recognizers_number.number import cjk_parsers
    from recognizers_number.number.cjk_parsers import CJKNumberParser
    from recognizers_number.number.parser_factory import AgnosticNumberParserFactory, ParserType
    from recognizers_number.number.chinese.parsers import ChineseNumberParserConfiguration
    from recognizers_number.number.japanese.parsers import JapaneseNumberParserConfiguration
    common.assert_tree_modules(cjk_parsers)
    zh = AgnosticNumberParserFactory.get_parser(ParserType.NUMBER, ChineseNumberParserConfiguration())
    if not isinstance(zh, CJKNumberParser):
        raise common.InfraError('the factory no longer builds a CJKNumberParser for the Chinese configuration')
    _st.update(regex=regex, ER=ExtractResult, numlib=numlib, numerals=numerals,
               parser={'zh-cn': zh, 'ja-jp': CJKNumberParser(JapaneseNumberParserConfiguration())})
    return _st


def probe_variant(ctx):
    """Which variant of the point-value computation does the working tree follow? Decided on the fixed probe input
    through `dou_parse` (Chinese configuration; the method is shared), never from the results under comparison."""
    st = setup()
    p = st['parser']['zh-cn']
    got = p.dou_parse(make_er(st, PROBE, 'DoubleChi')).resolution_str
    fx = {'0.3': True, '0.30000000000000004': False}.get(got)
    if fx is None:
        ctx.report('correspondence', 'numcjk-point-variant', 'dou_parse(%r) resolves to %r: neither variant of the model' % (PROBE, got),
                   failing_input={'probe': PROBE, 'implementation': got})
        fx = False
    for cu in list(W):
        W[cu] = W[cu][:2] + ('fx' if fx else '')
    ctx.extra['numcjk_point_value_variant'] = ('repaired (add_point_value: Decimal sum, one float conversion)' if fx
                                               else 'as first found (0.1 * d summed in binary floating point)')
    return fx


# ---------------------------------------------------------------- canonical forms

def canon_value(v):
    if isinstance(v, bool):
        return 'other:bool'
    if isinstance(v, int):
        return 'i %d' % v
    if isinstance(v, float):
        if math.isinf(v) or math.isnan(v):
            return 'err:OverflowError'
        n, d = abs(v).as_integer_ratio()
        return 'f %d %d %d' % (1 if math.copysign(1.0, v) < 0 else 0, n, d)
    if isinstance(v, Decimal):
        if not v.is_finite():
            return 'err:OverflowError'
        t = v.as_tuple()
        return 'd %d %d %d' % (t.sign, int(''.join(map(str, t.digits)) or '0'), t.exponent)
    return 'other:%s' % type(v).__name__


def err_kind(e):
    if isinstance(e, DecimalException):
        return 'err:Decimal'
    for k in (UnboundLocalError, KeyError, IndexError, AttributeError, TypeError, ZeroDivisionError, OverflowError):
        if isinstance(e, k):
            return 'err:' + k.__name__
    return 'err:Other:' + type(e).__name__


def guarded(fn, *a):
    try:
        return fn(*a)
    except Exception as e:     # the model reproduces the exception class
        return err_kind(e)


def canon_result(r):
    if isinstance(r, str):
        return r
    v = canon_value(r.value)
    if v.startswith('err:'):
        return v
    return v + '|' + cps(r.resolution_str)


def make_er(st, text, data, typ='builtin.num'):
    er = st['ER']()
    er.start, er.length, er.text, er.type, er.data = 0, len(text), text, typ, data
    return er


# ---------------------------------------------------------------- generated texts

ZH_DIG = '零一二三四五六七八九'
ZH_ALT = '〇壹贰貳叁肆伍陆陸柒捌玖两兩俩倆仨'
FW = '０１２３４５６７８９'


def zh_digits(s):
    return ''.join(ZH_DIG[int(c)] for c in s)


def boundary_ints(r, extra):
    ns = list(range(0, 130)) + [199, 200, 201, 210, 999, 1000, 1001, 1010, 1100, 2020, 9999, 10000, 10001, 10010, 10100, 11000,
                               12000, 20000, 99999, 100000, 100001, 1000000, 10000000, 99999999, 100000000, 100000001,
                               123456789, 1000000000, 10 ** 10, 10 ** 11, 10 ** 12 - 1]
    ns += [r.randint(0, 10 ** r.randint(2, 12) - 1) for _ in range(extra)]
    return ns


def gen_texts(ctx, cu):
    """-> list of (family, text); boundary-first, then seeded"""
    st = setup()
    r = ctx.rng('numcjk-' + cu)
    big = ctx.thorough
    gen = st['numerals'].zh if cu == 'zh-cn' else st['numerals'].ja
    cfg = st['parser'][cu].config
    out = []
    ints = [n for n in boundary_ints(r, 600 if big else 150) if gen(n) is not None]
    sp = [gen(n) for n in ints]
    neg = ['负', '負', '-', '－'] if cu == 'zh-cn' else ['マイナス', '-', '－', '−', 'マ イ ナ ス']
    doz = '打' if cu == 'zh-cn' else 'ダース'
    pairs = '双对雙對' if cu == 'zh-cn' else '対膳足'
    point = ['点', '點', '.', '．'] if cu == 'zh-cn' else ['.', '．', '・']
    for n, s in zip(ints, sp):
        out.append(('int', s))
    for s in sp[:200] + r.sample(sp, 60):
        out.append(('int-neg', r.choice(neg) + s))
    for s in sp[:40] + r.sample(sp, 30):
        out.append(('int-dozen', s + doz))
        out.append(('int-pair', s + r.choice(pairs)))
        out.append(('int-neg-dozen', r.choice(neg) + s + doz))
    # digits mixed with round characters, full-width, traditional, colloquial omissions
    rounds = list(cfg.round_number_map_char.keys())
    digs = [k for k in cfg.zero_to_nine_map.keys()]
    for _ in range(500 if big else 160):
        a = r.randint(1, 9999)
        forms = ['%d万%d千' % (a % 10 + 1, r.randint(1, 9)), '%d万' % a, '%d亿' % a if cu == 'zh-cn' else '%d億' % a,
                 '%d千%d百' % (r.randint(1, 9), r.randint(1, 9)), '%s万%s' % (FW[a % 10], zh_digits(str(r.randint(1, 9)))),
                 '%s百%s' % (zh_digits(str(r.randint(1, 9))), zh_digits(str(r.randint(1, 9)))),
                 '%s万%s' % (zh_digits(str(r.randint(1, 9))), zh_digits(str(r.randint(1, 9)))),
                 '%d' % a, ''.join(FW[int(c)] for c in str(a)), zh_digits(str(a)),
                 ''.join(r.choice(ZH_ALT) for _ in range(r.randint(1, 3))) + r.choice(rounds)]
        out.append(('int-mixed', r.choice(forms)))
    for _ in range(900 if big else 300):
        out.append(('int-random', ''.join(r.choice(digs + rounds + rounds) for _ in range(r.randint(1, 7)))))
    if cu == 'zh-cn':
        for s in ['两千', '三百五', '两万五', '一千二', '半', '俩', '仨', '廿五', '一百零五', '十', '十五', '一十五', '一兆', '1万亿',
                  '九千九百九十九万亿', '一亿亿', '十万亿亿', '九千万亿亿', '两百', '佰', '三佰', '五仟', '一萬', '二億', '萬萬', '1萬萬', '五十万零三',
                  '一千零一十', '二〇二〇', '二零二零', '一九九八', '一二三', '半打', '一打半', '三个半']:
            out.append(('int-special', s))
    else:
        for s in ['二百十八', '五千百三十八', '半', '半ダース', '十', '百', '千', '一万', '二億', '万万', '1万万', 'にじゅう', 'さんびゃく', 'ひゃくまん',
                  'せん', 'いち', '二〇二〇', '一兆', '九千兆', '九千九百九十九兆', '一万兆', '十万兆', '三膳', '二足']:
            out.append(('int-special', s))
    # ordinals
    for s in sp[:150] + r.sample(sp, 40):
        out.append(('ordinal', '第' + s))
    for _ in range(40):
        out.append(('ordinal', '第' + r.choice(['%d' % r.randint(0, 10 ** 6), ''.join(FW[int(c)] for c in str(r.randint(0, 9999)))])))
    if cu == 'ja-jp':
        for s in sp[:30]:
            out.append(('ordinal', s + '番目'))
    # doubles
    tails = ['%d' % d for d in range(0, 10)] + ['%02d' % d for d in range(0, 100, 7)] + ['05', '15', '14', '141592653589793', '000001',
                                                                                     '1' * 17, '9' * 16, '5' * 20]
    tails += [''.join(r.choice('0123456789') for _ in range(r.randint(1, 16))) for _ in range(200 if big else 60)]
    heads = [0, 1, 2, 3, 9, 10, 12, 99, 100, 1234, 10 ** 6, 123456789] + [r.randint(0, 10 ** 9) for _ in range(30)]
    for t in tails:
        h = r.choice(heads)
        hs = gen(h)
        p = r.choice(point)
        out.append(('double', hs + p + zh_digits(t)))
        if r.random() < 0.3:
            out.append(('double-neg', r.choice(neg) + hs + p + zh_digits(t)))
        if r.random() < 0.3:
            out.append(('double', '%d%s%s' % (h, r.choice(['.', '．']), t)))
    for h in range(0, 10):
        for d in range(0, 10):
            out.append(('double', ZH_DIG[h] + point[0] + ZH_DIG[d]))
    ru = '万亿萬億' if cu == 'zh-cn' else '十百千万億兆'
    for _ in range(150 if big else 50):
        a, b = r.randint(0, 9999), r.randint(0, 999)
        t = r.choice(['%d.%d%s' % (a, b, r.choice(ru)), '%d%s' % (a, r.choice(ru)), '%d.%d %s' % (a, b, r.choice(ru)),
                      '%s.%s%s' % (''.join(FW[int(c)] for c in str(a)), b, r.choice(ru)), '-%d.%d%s' % (a, b, r.choice(ru)),
                      '%d.%d%s%s' % (a, b, r.choice('多几余' if cu == 'zh-cn' else ' '), r.choice(ru))])
        out.append(('double-round', t))
    # fractions
    fw = ('分之', '又') if cu == 'zh-cn' else ('分の', r.choice('とは'))
    small = [1, 2, 3, 4, 5, 6, 7, 8, 9, 10, 11, 12, 13, 20, 21, 99, 100, 101, 1000, 10000, 12345]
    for _ in range(400 if big else 130):
        d, m = r.choice(small + [r.randint(1, 10 ** 6)]), r.choice(small + [r.randint(0, 10 ** 6)])
        c = r.choice(small + [0, r.randint(0, 10 ** 5)])
        k = r.random()
        f = (lambda n: gen(n)) if k < 0.6 else (lambda n: str(n))
        t = f(d) + fw[0] + f(m)
        if r.random() < 0.4:
            t = f(c) + fw[1] + t
        if r.random() < 0.2:
            t = r.choice(neg) + t
        out.append(('fraction', t))
    if cu == 'zh-cn':
        for t in ['三分之一', '五又二分之一', '十二分之五', '负三分之一', '零分之一', '一分之零', '三分之一点五', '二点五分之一', '100分之3', '3分 之 1',
                  '负五又二分之一', '五又负二分之一', '一百分之一', '千分之五', '二分之一打']:
            out.append(('fraction', t))
    else:
        for t in ['三分の一', '五と二分の一', '五は二分の一', 'マイナス三分の一', '零分の一', '100分の3', '三分 の一']:
            out.append(('fraction', t))
    # percentages
    if cu == 'zh-cn':
        for n, s in list(zip(ints, sp))[:140]:
            out.append(('percent-spelled', '百分之' + s))
        for s in r.sample(sp, 40):
            out.append(('percent-spelled', r.choice(['千', '万', '百', '十', '佰', '百万', '千万']) + '分之' + s))
        for h in range(0, 10):
            for d in range(0, 10):
                out.append(('percent-spelled-point', '百分之' + ZH_DIG[h] + '点' + ZH_DIG[d]))
        for t in tails[:60]:
            out.append(('percent-spelled-point', '百分之' + gen(r.choice(heads[:10])) + '点' + zh_digits(t)))
        for t in ['百分之百', '百分之二百五', '百分之负五', '负百分之五', '百分之2.5', '百分之 5', '百 分 之 五', '百分之５', '百分之1,234', '5个百分点', '5.5个百分点']:
            out.append(('percent-spelled', t))
        for k in list('一二三四五六七八九十两') + [str(d) for d in range(0, 11)] + ['半', '１', '拾']:
            out.append(('percent-spe', k + '成'))
            out.append(('percent-spe', k + '折'))
            out.append(('percent-spe', k + '成半'))
            for m in '一五九':
                out.append(('percent-spe', k + '成' + m))
                out.append(('percent-spe', k + m + '折'))
                out.append(('percent-spe', k + '点' + m + '成'))
                out.append(('percent-spe', k + '点' + m + '折'))
            out.append(('percent-spe', k + '.5折'))
            out.append(('percent-spe', k + '.5成'))
        for t in ['半折', '对折', '打对折', '半成', '十成', '10成', '0折', '零折', '7 5 折', '七 五折']:
            out.append(('percent-spe', t))
    else:
        for s in sp[:40]:
            out.append(('percent-spelled', s + 'パーセント'))
        for k in list('一二三四五六七八九十') + [str(d) for d in range(0, 11)] + ['半']:
            out.append(('percent-spe', k + '割'))
            out.append(('percent-spe', k + '割引'))
            out.append(('percent-spe', k + '割半'))
            out.append(('percent-spe', k + '割5分2厘'))
            out.append(('percent-spe', k + '割五'))
        for t in ['半額', '十割', '10割', '半分']:
            out.append(('percent-spe', t))
    pct = ['%', '％'] + (['パーセント'] if cu == 'ja-jp' else [])
    for _ in range(260 if big else 90):
        a = r.randint(0, 10 ** r.randint(1, 15))
        b = r.randint(0, 10 ** r.randint(1, 6))
        t = r.choice(['%d' % a, '%d.%d' % (a % 10 ** 6, b), '-%d' % a, '%s%d' % (neg[0], a), '%dk' % (a % 1000), '%d.%dM' % (a % 100, b % 10),
                      '%dG' % (a % 100), '%dT' % (a % 10), ''.join(FW[int(c)] for c in str(a % 10 ** 5)), '%d,%03d' % (a % 1000, b % 1000),
                      '0.%0*d' % (r.randint(1, 8), 1), '%dＫ' % (a % 100), '%d m' % (a % 100)])
        out.append(('percent-num', t + r.choice(['', ' ']) + r.choice(pct)))
    # digit literals with the tags the extractor gives them (Num)
    for _ in range(220 if big else 80):
        a = r.randint(0, 10 ** r.randint(1, 15))
        b = r.randint(0, 10 ** r.randint(1, 6))
        out.append(('num', r.choice(['%d' % a, '%d.%d' % (a % 10 ** 7, b), '-%d' % a, neg[0] + '%d' % a, '%dk' % (a % 1000), '%d.%dm' % (a % 100, b % 100),
                                     '%d,%03d' % (a % 1000, b % 1000), '%d,%03d,%03d.%d' % (a % 1000, b % 1000, a % 997, b % 10),
                                     ''.join(FW[int(c)] for c in str(a)), '%dK' % (a % 1000), '%d g' % (a % 100), '%d t' % (a % 10),
                                     '%d b' % (a % 10), '%dmil' % (a % 10), '－%d' % a, '%d mm' % (a % 10), '%dkk' % (a % 10)])))
    seen, uniq = set(), []
    for fam, t in out:
        if (fam, t) not in seen:
            seen.add((fam, t))
            uniq.append((fam, t))
    return uniq


FORCED = {'int': ['Integer'], 'int-neg': ['Integer'], 'int-dozen': ['Integer'], 'int-pair': ['Integer'],
          'int-neg-dozen': ['Integer'], 'int-mixed': ['Integer', 'Dou'], 'int-random': ['Integer', 'Ordinal'],
          'int-special': ['Integer'], 'ordinal': ['Ordinal'], 'double': ['Dou'], 'double-neg': ['Dou'],
          'double-round': ['Dou'], 'fraction': ['Frac'], 'percent-spelled': ['Per'], 'percent-spelled-point': ['Per'],
          'percent-spe': ['PerSpe'], 'percent-num': ['PerNum'], 'num': ['IntegerNum', 'DoubleNum']}


def marker(cu):
    return 'Chi' if cu == 'zh-cn' else 'Jpn'


# ---------------------------------------------------------------- comparison

def compare(ctx, fam, ops, what):
    """ops: list of (driver line, implementation answer, description)"""
    if not ops:
        return
    model = common.driver([o[0] for o in ops])
    ctx.count('numcjk-' + fam, len(ops))
    skipped = 0
    for (line, impl, desc), m in zip(ops, model):
        if m in ('err:OverflowError', 'err:Unmodelled') or impl == 'err:OverflowError':
            skipped += 1
            continue
        if not impl.startswith('err:'):
            ctx.nontriv(line)
        if impl != m:
            ctx.report('correspondence', 'numcjk-' + what, '%s: implementation %s, model %s' % (desc, show(impl), show(m)),
                       failing_input={'op': line, 'implementation': impl, 'model': m})
    if skipped:
        ctx.count('numcjk-%s-outside-model' % fam, skipped)


def show(s):
    if '|' in s:
        v, res = s.split('|', 1)
        return '%s %r' % (v, uncps(res))
    return s


def unit_regex(ctx, texts):
    st = setup()
    rg = st['regex']
    ops = []
    for cu, lst in texts.items():
        cfg = st['parser'][cu].config
        w = W[cu]
        step = 1 if ctx.thorough else 3
        for name, attr in RE_NAMES:
            for k, (fam, t) in enumerate(lst):
                if k % step and fam not in ('percent-spe', 'fraction'):
                    continue
                def run(how):
                    p = getattr(cfg, attr)
                    if how == 'search':
                        m = rg.search(p, t)
                        return 'none' if m is None else '%d,%d' % m.span()
                    if how == 'find':
                        return ';'.join('%d,%d' % m.span() for m in rg.finditer(p, t))
                    return ';'.join(cps(x) for x in rg.split(p, t))
                hows = ['search']
                if name in ('fracSplit', 'point'):
                    hows.append('split')
                if name in ('speGetNumber', 'digitalNumber'):
                    hows.append('find')
                for how in hows:
                    ops.append(('cj.re\t%s\t%s\t%s\t%s' % (w, name, how, cps(t)), guarded(run, how),
                                '%s %s.%s(%r)' % (cu, attr, how, t)))
    compare(ctx, 'regex', ops, 'regex')


def unit_strings(ctx, texts):
    st = setup()
    ops = []
    for cu, lst in texts.items():
        p = st['parser'][cu]
        w = W[cu]
        extra = ['', ' ', '  ', ' 万万 ', '萬萬萬', '万 万', '佰對雙', 'ｋ．０', 'ひゃくまん', 'ぜんまんに']
        for t in [t for _, t in lst] + extra:
            ops.append(('cj.trad\t%s\t%s' % (w, cps(t)), cps(p.replace_trad_with_simplified(t)), '%s replace_trad_with_simplified(%r)' % (cu, t)))
            ops.append(('cj.full\t%s\t%s' % (w, cps(t)), cps(p.replace_full_with_half(t)), '%s replace_full_with_half(%r)' % (cu, t)))
            ops.append(('cj.unit\t%s\t%s' % (w, cps(t)), cps(p.replace_unit(t)), '%s replace_unit(%r)' % (cu, t)))
    compare(ctx, 'strings', ops, 'string-rewrite')


def unit_values(ctx, texts):
    st = setup()
    r = ctx.rng('numcjk-values')
    ops = []

    def val(fn, *a):
        x = guarded(fn, *a)
        return x if isinstance(x, str) else canon_value(x)

    for cu, lst in texts.items():
        p = st['parser'][cu]
        w = W[cu]
        digs = [k for k in p.config.zero_to_nine_map.keys()]
        for fam, t in lst:
            if fam.startswith('int') or fam in ('ordinal', 'double', 'fraction'):
                ops.append(('cj.int\t%s\t%s' % (w, cps(t)), val(p.get_int_value, t), '%s get_int_value(%r)' % (cu, t)))
            if fam in ('double', 'fraction', 'int-mixed', 'num', 'percent-spelled', 'int'):
                ops.append(('cj.part\t%s\t%s' % (w, cps(t)), val(p.get_value_from_part, t), '%s get_value_from_part(%r)' % (cu, t)))
            if fam in ('num', 'percent-num', 'int-mixed', 'double-round'):
                for power in (1, 1000, 10000, 10 ** 12):
                    ops.append(('cj.digit\t%s\t%s\t%d' % (w, cps(t), power), val(p.get_digit_value, t, power),
                                '%s get_digit_value(%r, %d)' % (cu, t, power)))
        pts = [''] + [a + b for a in ZH_DIG for b in ZH_DIG] + list(digs) + ['半半', '五x']
        pts += [''.join(r.choice(digs) for _ in range(r.randint(1, 22))) for _ in range(500 if ctx.thorough else 150)]
        for t in pts:
            ops.append(('cj.point\t%s\t%s' % (w, cps(t)), val(p.get_point_value, t), '%s get_point_value(%r)' % (cu, t)))
    compare(ctx, 'values', ops, 'value')


def unit_parse(ctx, texts):
    st = setup()
    ops = []
    tags = {}
    for cu, lst in texts.items():
        p = st['parser'][cu]
        w = W[cu]
        models = st['numlib'].models(cu)
        mk = marker(cu)
        for fam, t in lst:
            # the tags the real extractors give
            for kind in ('number', 'ordinal', 'percentage'):
                if cu == 'ja-jp' and kind == 'ordinal' and len(t) > 12:
                    continue        # the Japanese ordinal regexes backtrack for seconds on long numerals
                try:
                    ers = models[kind].extractor.extract(t)
                except Exception as e:
                    ers = []
                for er in ers:
                    if not isinstance(er.data, str):
                        continue
                    tags[(cu, er.data)] = tags.get((cu, er.data), 0) + 1
                    ops.append(('cj.parse\t%s\t%s\t%s' % (w, cps(er.data), cps(er.text)), canon_result(guarded(p.parse, er)),
                                '%s parse(%r tagged %s by the %s extractor)' % (cu, er.text, er.data, kind)))
            # forced tags on the whole text
            for tag in FORCED.get(fam, []):
                data = tag if tag.endswith('Num') or tag == 'PerSpe' else tag + mk
                ops.append(('cj.parse\t%s\t%s\t%s' % (w, cps(data), cps(t)), canon_result(guarded(p.parse, make_er(st, t, data))),
                            '%s parse(%r forced tag %s)' % (cu, t, data)))
            # the path functions directly (no trad->simplified, no dispatch)
            direct = {'fraction': ('cj.frac', p.frac_parse), 'double': ('cj.dou', p.dou_parse), 'double-round': ('cj.dou', p.dou_parse),
                      'int': ('cj.intp', p.int_parse), 'ordinal': ('cj.ord', p.ord_parse)}.get(fam)
            if direct:
                ops.append(('%s\t%s\t%s' % (direct[0], w, cps(t)), canon_result(guarded(direct[1], make_er(st, t, 'x'))),
                            '%s %s(%r)' % (cu, direct[1].__name__, t)))
        for data in ['', 'Xyz', 'PowChi', 'IntegerOrdinal', 'FracDou']:
            ops.append(('cj.parse\t%s\t%s\t%s' % (w, cps(data), cps('五')), canon_result(guarded(p.parse, make_er(st, '五', data))),
                        '%s parse(五 tag %r)' % (cu, data)))
    ctx.extra['numcjk_extractor_tags'] = {'%s %s' % k: v for k, v in sorted(tags.items())}
    compare(ctx, 'parse', ops, 'parse')


def unit_floats(ctx):
    r = ctx.rng('numcjk-floats')
    xs = [0.0, -0.0, 0.1, 0.5, 0.01, 0.30000000000000004, 0.7000000000000001, 1.0, 3.14, 123.0, 1e15, 1e16, 9999000000000000.0, 1e17, 1e22,
          1e23, 1e-4, 1e-5, 0.0001234, 5e-324, 2.2250738585072014e-308, 1.7976931348623157e308, 2.0 ** 53, 2.0 ** 53 + 2, 1 / 3, 2 / 3,
          0.05000000000000001, 0.15000000000000002, 4.35, 0.285, 1e-7, 123456789012345678.0]
    for _ in range(2500 if ctx.thorough else 700):
        k = r.random()
        if k < 0.3:
            xs.append(r.randint(0, 10 ** 6) / 10 ** r.randint(0, 8))
        elif k < 0.6:
            xs.append(r.random() * 10 ** r.randint(-12, 20))
        elif k < 0.8:
            xs.append(float(r.randint(0, 2 ** 70)))
        else:
            xs.append(math.ldexp(r.random(), r.randint(-1074, 1023)))
    xs += [-x for x in xs[::5]]

    def f(x):
        n, d = abs(x).as_integer_ratio()
        return '%d\t%d\t%d' % (1 if math.copysign(1.0, x) < 0 else 0, n, d)

    ops = []
    for x in xs:
        ops.append(('cj.frepr\t' + f(x), cps(repr(x)), 'repr(%r)' % x))
        ops.append(('cj.fdec\t' + f(x), canon_value(Decimal(x)), 'Decimal(%r)' % x))
    for _ in range(3000 if ctx.thorough else 900):
        a, b = r.choice(xs), r.choice(xs)
        for op, fn in (('add', lambda: a + b), ('mul', lambda: a * b), ('div', lambda: a / b)):
            if op == 'div' and b == 0:
                continue
            y = guarded(fn)
            ops.append(('cj.fop\t%s\t%s\t%s' % (op, f(a), f(b)), y if isinstance(y, str) else canon_value(y), '%r %s %r' % (a, op, b)))
    for _ in range(1500 if ctx.thorough else 500):
        c = r.randint(0, 10 ** r.randint(1, 30))
        e = r.randint(-40, 25)
        s = r.randint(0, 1)
        d = Decimal((s, tuple(int(ch) for ch in str(c)), e))
        ops.append(('cj.ffromdec\t%d\t%d\t%d' % (s, c, e), canon_value(float(d)), 'float(%r)' % d))
    model = common.driver([o[0] for o in ops])
    ctx.count('numcjk-binary64', len(ops))
    for (line, impl, desc), m in zip(ops, model):
        if impl == 'err:OverflowError' or m == 'err:OverflowError':
            if impl != m:
                ctx.report('correspondence', 'numcjk-binary64', '%s: implementation %s, model %s' % (desc, show(impl), show(m)),
                           failing_input={'op': line, 'implementation': impl, 'model': m})
            continue
        ctx.nontriv(line)
        if impl != m:
            ctx.report('correspondence', 'numcjk-binary64', '%s: implementation %s, model %s' % (desc, show(impl), show(m)),
                       failing_input={'op': line, 'implementation': impl, 'model': m})


# ---------------------------------------------------------------- pipeline oracles

def dec_str(q):
    """exact decimal expansion of a Fraction whose denominator divides a power of ten, no trailing zeros"""
    sign = '-' if q < 0 else ''
    q = abs(q)
    ip = q.numerator // q.denominator
    fr = q - ip
    digs = ''
    while fr:
        fr *= 10
        d = fr.numerator // fr.denominator
        digs += str(d)
        fr -= d
        if len(digs) > 60:
            raise ValueError('not a terminating decimal')
    return sign + str(ip) + ('.' + digs if digs else '')


def value_of(res_str, mark):
    """resolution string -> Fraction (decimal mark of the culture, optional exponent), or None"""
    s = res_str.replace(mark, '.') if mark != '.' else res_str
    try:
        return Fraction(Decimal(s))
    except Exception:
        return None


def judge(res, text, kind, expect, exact, suffix=''):
    """expect: Fraction; exact: the resolution string must be the exact decimal expansion; else within 1 unit of the 15th
    significant digit"""
    if isinstance(res, str):
        return 'raises', res
    res = [x for x in res if x[4] == kind]
    if len(res) == 0:
        return 'no-entity', 'nothing recognised'
    if len(res) > 1:
        return 'split', 'recognised as %d entities: %r' % (len(res), [(t, v) for _, _, t, v, _ in res])
    stt, en, t, v, _ = res[0]
    # the entity text is the pre-processed query (full-width digits become half-width there): C01's subject, not judged here
    if unicodedata.normalize('NFKC', t).strip().lower() != unicodedata.normalize('NFKC', text).strip().lower():
        return 'span', 'entity text %r, expression %r' % (t, text)
    if v is None or not v.endswith(suffix):
        return 'value', 'resolution %r lacks the suffix %r' % (v, suffix)
    body = v[:len(v) - len(suffix)] if suffix else v
    if exact:
        want = dec_str(expect)
        if body != want:
            return 'value', 'resolution %r, the expression denotes %s%s' % (v, want, suffix)
        return None, ''
    got = value_of(body, '.')
    if got is None:
        return 'value', 'resolution %r is not a number' % v
    if expect == 0:
        ok = got == 0
    else:
        ok = abs(got - expect) <= abs(expect) * Fraction(1, 10 ** 14)
    if not ok:
        return 'value', 'resolution %r, the expression denotes %s (15 significant digits)' % (v, float(expect))
    return None, ''


def ja_safe(n):
    """numerals whose Japanese spelling avoids the recorded bare-十/百/千 and 万/億 findings of C04"""
    return n < 10 or (20 <= n < 100)


def pipeline(ctx):
    st = setup()
    r = ctx.rng('numcjk-pipeline')
    zh, ja = st['numerals'].zh, st['numerals'].ja
    jobs = []      # (kind, cu, query, family, expect Fraction, exact, suffix)

    def add(kind, cu, q, fam, expect, exact=True, suffix=''):
        jobs.append((kind, cu, q, fam, Fraction(expect), exact, suffix))

    big = ctx.thorough
    ns = sorted(set(list(range(0, 10000) if big else list(range(0, 130)) + list(range(130, 10000, 41))) +
                    [10 ** k + d for k in range(4, 12) for d in (-1, 0, 1)] + [r.randint(10 ** 4, 10 ** 12 - 1) for _ in range(60)]))
    for n in ns:
        s = zh(n)
        if n > 0:
            add('ordinal', 'zh-cn', '第' + s, 'ordinal', n)
            add('number', 'zh-cn', '负' + s, 'negative', -n)
        if 0 < n < 200 or n % 97 == 0:
            add('number', 'zh-cn', s + '打', 'dozen', 12 * n)
            add('percentage', 'zh-cn', '百分之' + s, 'percent-spelled', n, True, '%')
        if ja_safe(n):
            j = ja(n)
            if n > 0:
                add('ordinal', 'ja-jp', '第' + j, 'ordinal', n)
                add('number', 'ja-jp', 'マイナス' + j, 'negative', -n)
                add('number', 'ja-jp', j + 'ダース', 'dozen', 12 * n)
    # spelled decimals: a点b
    for h in [0, 1, 2, 3, 5, 9, 10, 12, 100, 1234]:
        for t in ['%d' % d for d in range(1, 10)] + ['05', '14', '15', '25', '75', '99', '125', '001']:
            add('number', 'zh-cn', zh(h) + '点' + zh_digits(t), 'double', Fraction(int(str(h) + t), 10 ** len(t)))
    for _ in range(200 if big else 60):
        h = r.randint(0, 10 ** r.randint(1, 6))
        t = ''.join(r.choice('0123456789') for _ in range(r.randint(1, 6))).rstrip('0') or '5'
        add('number', 'zh-cn', zh(h) + '点' + zh_digits(t), 'double', Fraction(int(str(h) + t), 10 ** len(t)))
        add('percentage', 'zh-cn', '百分之' + zh(h % 1000) + '点' + zh_digits(t), 'percent-spelled-point',
            Fraction(int(str(h % 1000) + t), 10 ** len(t)), True, '%')
    for a, b, u, k in [(1, 5, '万', 4), (2, 5, '亿', 8), (12, 34, '万', 4), (3, 0, '万', 4), (9999, 9, '亿', 8)]:
        add('number', 'zh-cn', '%d.%d%s' % (a, b, u), 'double-round', Fraction(int('%d%d' % (a, b)), 10 ** len(str(b))) * 10 ** k)
    # ASCII / full-width digits in front of a round character ('1234万', '1万2千'): the extractor tags them as integers
    for _ in range(120 if big else 40):
        x, y = r.randint(1, 9999), r.randint(1, 9)
        add('number', 'zh-cn', '%d万' % x, 'digits-round', x * 10 ** 4)
        add('number', 'zh-cn', '%d亿' % x, 'digits-round', x * 10 ** 8)
        add('number', 'zh-cn', '%d万%d千' % (x % 10 + 1, y), 'digits-round', (x % 10 + 1) * 10 ** 4 + y * 1000)
        add('number', 'zh-cn', ''.join(FW[int(ch)] for ch in str(x)) + '万', 'digits-round', x * 10 ** 4)
        add('number', 'ja-jp', '%d万' % x, 'digits-round', x * 10 ** 4)
    # fractions
    for _ in range(260 if big else 90):
        d = r.choice([2, 3, 4, 5, 6, 7, 8, 9, 10, 11, 12, 16, 25, 100, 101, 1000, r.randint(2, 9999)])
        m = r.choice([1, 2, 3, 5, 7, r.randint(1, 9999)])
        c = r.choice([1, 2, 5, 10, 100, r.randint(1, 9999)])
        add('number', 'zh-cn', zh(d) + '分之' + zh(m), 'fraction', Fraction(m, d), False)
        add('number', 'zh-cn', zh(c) + '又' + zh(d) + '分之' + zh(m), 'fraction-mixed', c + Fraction(m, d), False)
        add('number', 'zh-cn', '负' + zh(d) + '分之' + zh(m), 'fraction-neg', -Fraction(m, d), False)
        if ja_safe(d) and ja_safe(m) and ja_safe(c):
            add('number', 'ja-jp', ja(d) + '分の' + ja(m), 'fraction', Fraction(m, d), False)
            add('number', 'ja-jp', ja(c) + 'と' + ja(d) + '分の' + ja(m), 'fraction-mixed', c + Fraction(m, d), False)
    # special percentages
    for k in range(1, 10):
        add('percentage', 'zh-cn', ZH_DIG[k] + '成', 'percent-cheng', 10 * k, True, '%')
        add('percentage', 'zh-cn', ZH_DIG[k] + '折', 'percent-zhe', 10 * k, True, '%')
        add('percentage', 'zh-cn', '%d成' % k, 'percent-cheng', 10 * k, True, '%')
        add('percentage', 'zh-cn', ZH_DIG[k] + '成半', 'percent-cheng', 10 * k + 5, True, '%')
        for m in range(1, 10):
            add('percentage', 'zh-cn', ZH_DIG[k] + '成' + ZH_DIG[m], 'percent-cheng', 10 * k + m, True, '%')
            add('percentage', 'zh-cn', ZH_DIG[k] + ZH_DIG[m] + '折', 'percent-zhe', 10 * k + m, True, '%')
    add('percentage', 'zh-cn', '十成', 'percent-cheng', 100, True, '%')
    add('percentage', 'zh-cn', '半成', 'percent-cheng', 5, True, '%')
    for n in (1, 5, 25, 250, 999):
        add('percentage', 'zh-cn', '千分之' + zh(n), 'percent-permille', Fraction(n, 10), True, '%')
    results = st['numlib'].run_pipeline([(k, cu, q) for k, cu, q, _, _, _, _ in jobs])
    for (kind, cu, q, fam, expect, exact, suffix), res in zip(jobs, results):
        ctx.count('numcjk-pipeline-%s-%s' % (cu, fam))
        bad, detail = judge(res, q, kind, expect, exact, suffix)
        if not bad:
            ctx.nontriv((cu, fam, q))
            continue
        sig = '%s:cjk-%s:%s' % (cu, fam, bad)
        if fam in ('double', 'percent-spelled-point') and bad == 'value' and not isinstance(res, str):
            sig = '%s:cjk-%s:float-digits' % (cu, fam)
        ctx.report('property', sig, '%s(%r, %s): %s' % (kind, q, cu, detail),
                   failing_input={'culture': cu, 'model': kind, 'query': q, 'denotes': str(expect), 'result': res},
                   property_fails=True)


def unit(ctx):
    setup()
    probe_variant(ctx)
    texts = {cu: gen_texts(ctx, cu) for cu in ('zh-cn', 'ja-jp')}
    for cu, lst in texts.items():
        ctx.extra['numcjk_texts_' + cu] = len(lst)
    unit_floats(ctx)
    unit_regex(ctx, texts)
    unit_strings(ctx, texts)
    unit_values(ctx, texts)
    unit_parse(ctx, texts)
    pipeline(ctx)
