"""Unit correspondence of RTV.Model.ZhTimePeriod (Lean driver ops `zt.*`) against the real Chinese parser objects
(ChineseTimeParser, ChineseTimePeriodParser, ChineseDateTimePeriodParser, ChineseSetParser, ChineseHolidayParser — built the
way chinese/merged_parser_config.py builds them), called directly with constructed texts x boundary-first references, and
pipeline-level property oracles for the Chinese range / set / holiday expressions (`recognize_datetime(text, 'zh-cn', R)`).

The model takes the regex and sub-parser outcomes as inputs; here they are read from the same extractor / parser /
configuration objects the method uses (never from the method's own result): the two `TimeResult`s of a range come from
`handle_digit` / `handle_chinese` + `low_bound_map`, the pieces of a date-time range from the date / time / time-period
parsers. Word tables written by hand in the model (term lists, 今晚-table, holiday dictionary) are compared row by row with
the real objects.  Used by corr/c10.py: `run(ctx)`."""
import datetime as dt

import regex

from . import common, calcorr, dtpipe, dtcorpus
from .calcorr import fmt_dt, ref_fields, at
from .common import cps

KNOWN = {
    'zh-dtperiod-cross-midnight': "date + time range whose end clock time is not after its begin (明天晚上10点到凌晨2点): both ends are "
                                  "pasted onto the one date (merge_date_and_time_periods): end before start, TIMEX duration wrong",
    'zh-timeperiod-short-left-last-char': "short left end of a time range (10到12:30, 十一到十二点): get_short_left reads only the LAST "
                                          "character of the hour (10 -> 0, 十一 -> 1)",
    'zh-timeperiod-empty-span': "a time range whose two ends resolve to the same clock time (下午1点到13点) gets the duration 'PT'",
    'zh-holiday-year-truncated': "a holiday with a numeric year (2019年圣诞节): the last digit of the year group is cut off (-> 0201-12-25)",
    'zh-holiday-cjk-year-lost': "a holiday with a year in Chinese numerals (二零一九年国庆节): __convert_year returns -1 (-> 1999-10-01)",
}
EDGE = [dt.datetime(1, 1, 1), dt.datetime(1, 1, 2, 5), dt.datetime(9999, 12, 31, 1), dt.datetime(9999, 12, 30, 23, 59, 59)]
MUST = [dt.date(2020, 1, 31), dt.date(2020, 12, 31), dt.date(2020, 2, 29), dt.date(2021, 1, 1), dt.date(2019, 3, 31), dt.date(2024, 2, 29)]
CJK_H = ['零', '一', '二', '三', '四', '五', '六', '七', '八', '九', '十', '十一', '十二', '十三', '十四', '十五', '十六', '十七', '十八', '十九',
         '二十', '二十一', '二十二', '二十三', '二十四']
DESCS = ['', '上午', '下午', '晚上', '早上', '中午', '凌晨', '傍晚', '深夜', '午后', '夜里', '清晨', '晚', '早', '半夜']


def show_r(r):
    if not r.success:
        return 'none'
    fv, pv = r.future_value, r.past_value
    return '%s\t%s\t%s\t%s\t%s' % (r.timex or '', fmt_dt(fv[0]), fmt_dt(fv[1]), fmt_dt(pv[0]), fmt_dt(pv[1]))


def guarded(fn):
    try:
        return fn()
    except (OverflowError, ValueError):
        return 'err:Other'
    except (KeyError, TypeError, AttributeError) as e:
        return 'err:' + type(e).__name__


def refs_for(ctx, tag, n_b, n_s):
    r = ctx.rng(tag)
    bdays = calcorr.boundary_days()
    days = list(MUST) + r.sample(bdays, min(n_b, len(bdays))) + calcorr.seeded_days(r, n_s)
    return [at(d, calcorr.TIMES[i % 3]) for i, d in enumerate(days)]


class Parsers:
    def __init__(self):
        from recognizers_date_time.date_time.chinese.merged_parser_config import ChineseMergedParserConfiguration
        from recognizers_date_time.date_time.chinese.merged_extractor_config import ChineseMergedExtractorConfiguration
        from recognizers_date_time.date_time.chinese import timeperiod_parser, datetimeperiod_parser, set_parser, holiday_parser, time_parser
        common.assert_tree_modules(timeperiod_parser, datetimeperiod_parser, set_parser, holiday_parser, time_parser)
        cfg = ChineseMergedParserConfiguration()
        ex = ChineseMergedExtractorConfiguration()
        self.tp, self.tpp, self.dtpp, self.sp, self.hp = (cfg.time_parser, cfg.time_period_parser, cfg.date_time_period_parser,
                                                          cfg.set_parser, cfg.holiday_parser)
        self.te, self.tpe, self.se, self.he = ex.time_extractor, ex.time_period_extractor, ex.set_extractor, ex.holiday_extractor
        self.dtpe = ex.date_time_period_extractor
        self.variants = probe(self)


PROBE_R = dt.datetime(2020, 1, 31, 14, 30, 0)


def probe(P):
    """Which variant of the four repaired spots does the tree follow?  Each is asked on the input of its witness theorem
    (RTV/Props/C10Zh.lean): the pre-fix answer selects the model of the code as found, anything else is compared with the model
    of the repaired code (`zt.*fixed` driver ops / inputs read the repaired way)."""
    from recognizers_date_time.date_time.chinese.base_date_time_extractor import TimeResult
    v = {}
    x = guarded(lambda: P.tpp.get_short_left('10').hour)
    v['short'] = 'prefix' if x == 0 else 'fixed'
    x = guarded(lambda: P.tpp.build_span(TimeResult(13, -1, -1), TimeResult(13, -1, -1)))
    v['span'] = 'prefix' if x == 'PT' else 'fixed'
    x = guarded(lambda: show_r(P.dtpp.merge_date_and_time_periods('今天晚上8点到凌晨2点', PROBE_R)))
    v['mdtp'] = 'prefix' if x.startswith('(2020-01-31T20,2020-01-31T02,PT6H)') else 'fixed'
    x = guarded_h(lambda: P.hp._parse_holiday_regex_match('2019年圣诞节', PROBE_R).timex)
    v['hol'] = 'prefix' if x == '0201-12-25' else 'fixed'
    return v


def desc_field(tp, extra):
    d = next(iter(extra.named_entity.get('daydesc', [])), '')
    if d.strip() == '':
        return 'n'
    v = tp.low_bound_map.get(d)
    return '-' if v is None else str(v)


def time_fields(P, entity, R):
    """(hour, minute, second, desc) of a clock-time text as `get_parse_time_result` obtains them: re-extraction by the time
    parser's inner extractor, `handle_digit` / `handle_chinese`, the description looked up in `low_bound_map`."""
    from recognizers_date_time.date_time.chinese.time_extractor import TimeType
    ers = P.tp.inner_extractor.extract(entity, R)
    if not ers or ers[0].data is None or ers[0].data.data_type == TimeType.LessTime:
        return None
    extra = ers[0].data
    tr = P.tp.function_map[extra.data_type](extra)
    return '%d\t%d\t%d\t%s' % (tr.hour, tr.minute, tr.second, desc_field(P.tp, extra))


# ------------------------------------------------------------------ time parser: handle_less

def less_cases(ctx, P):
    from recognizers_date_time.date_time.chinese.time_extractor import TimeType
    out = []
    R = dt.datetime(2020, 1, 31, 14, 30)
    raised = 0
    for t in ['差五分十点', '差十分钟三点', '差五分十点半', '差二十分钟零点', '差5分12点', '差五分十点一刻', '差三十分一点', '差一分二十四点']:
        for er in P.te.extract(t, R):
            if er.data is None or er.data.data_type != TimeType.LessTime:
                continue
            ne = er.data.named_entity
            g = lambda k: next(iter(ne.get(k, [])), '')
            line = 'zt.less\t%d\t%d\t%d\t%d\t%d' % (P.tp.match_to_value(g('hour')), P.tp.match_to_value(g('quarter')),
                                                 0 if g('half') == '' else 1, P.tp.match_to_value(g('sec')), P.tp.match_to_value(g('min')))

            def run(extra=er.data):
                tr = P.tp.handle_less(extra)
                return '%d %d %d' % (round(tr.hour * 60), tr.minute, tr.second)
            out.append((line, run, 'handle_less(%r)' % t))
            try:
                P.tp.parse(er, R)
            except KeyError:
                raised += 1
    ctx.extra['zh_less_time_parse_raises_KeyError'] = raised
    return out


# ------------------------------------------------------------------ time period parser

def tp_texts(ctx):
    r = ctx.rng('zh2-tp')
    texts = ['从下午三点到五点', '上午九点到十一点半', '下午3点到5点', '3点到5点', '晚上9点到早上5点', '下午5点到3点', '从4:30到5:30', '早上五到六点',
             '下午五点到六点半', '早上8点到上午10点', '11点到下午1点', '下午2点到4点30分20秒', '晚上11点到1点', '上午12点到下午1点', '0点到3点',
             '下午1点到13点', '10到12:30', '十一到十二点', '下午十一到十二点', '早上十到十一点', '9到11:00', '中午十二到一点', '22点到24点',
             '下午5点30分到5点10分', '早上8点到0点', '下午三点一刻到四点三刻', '晚上八点到十点半', '凌晨1点到3点', '晚上6点到9点', '中午11点到1点',
             '下午2点到4点六十秒', '8点20分10秒到8点20分5秒', '23点到1点', '12点到12点', '傍晚5点到7点', '深夜11点到2点', '午后1点到3点',
             # the boundary of the inference rule: right hour = / just above the left end's low bound
             '下午3点到12点', '下午3点到13点', '晚上8点到18点', '晚上8点到19点', '中午10点到11点', '中午10点到12点', '下午1点到11点', '晚上7点到17点']
    for _ in range(260 if ctx.thorough else 70):
        ld, rd = r.choice(DESCS), r.choice(DESCS + ['', '', ''])
        h1, h2 = r.randint(0, 24), r.randint(0, 24)
        style = r.randint(0, 5)
        if style == 0:
            t = '%s%d点到%s%d点' % (ld, h1, rd, h2)
        elif style == 1:
            t = '%s%s点到%s%s点%s' % (ld, CJK_H[h1], rd, CJK_H[h2], r.choice(['', '半', '一刻', '三刻', '十分', '二十分五秒']))
        elif style == 2:
            t = '%s%d:%02d到%s%d:%02d%s' % (ld, h1, r.randint(0, 59), rd, h2, r.randint(0, 59), r.choice(['', ':%02d' % r.randint(0, 59)]))
        elif style == 3:
            t = '%s%d点%d分到%s%d点%d分%d秒' % (ld, h1, r.randint(0, 59), rd, h2, r.randint(0, 59), r.randint(0, 59))
        elif style == 4:
            t = '%s%s到%s%s点' % (ld, r.choice(CJK_H), rd, CJK_H[h2])            # short left
        else:
            t = '%s%d到%s%d:%02d' % (ld, h1, rd, h2, r.randint(0, 59))            # short left, digits
        texts.append(t)
    return texts


def tp_cases(ctx, P, refs):
    from recognizers_date_time.date_time.chinese.timeperiod_extractor import TimePeriodType
    out = []
    tpp = P.tpp
    tpop = 'zt.tp' if P.variants['span'] == 'prefix' else 'zt.tpfixed'
    for i, t in enumerate(tp_texts(ctx)):
        R = (refs + EDGE)[i % (len(refs) + len(EDGE))]
        for er in P.tpe.extract(t, R):
            if er.data is None or 'left' not in er.data.named_entity:
                continue
            extra = er.data
            le = next(iter(extra.named_entity['left']), '')
            re_ = next(iter(extra.named_entity['right']), '')
            rf = time_fields(P, re_, R)
            if rf is None:
                continue
            if extra.data_type == TimePeriodType.FullTime:
                lf = time_fields(P, le, R)
                if lf is None:
                    continue
                line = '%s\t%s\tF\t%s\t%s' % (tpop, ref_fields(R), lf, rf)
            else:
                dm = regex.match(tpp.day_description_regex, le)
                if P.variants['short'] == 'prefix':
                    description, number = (le[:-1] if dm else ''), le[-1]
                else:
                    description, number = (dm.group() if dm else ''), (le[dm.end():] if dm else le)
                lb = tpp.low_bound_map.get(description)
                hour = guarded(lambda: P.tp.match_to_value(number))
                if not isinstance(hour, int):
                    continue
                line = '%s\t%s\tS\t%d\t-1\t-1\t%s\t%s' % (tpop, ref_fields(R), hour, '-' if lb is None else str(lb), rf)
            out.append((line, (lambda extra=extra, R=R: show_r(tpp.parse_time_period(extra, R))), 'parse_time_period(%r, %s)' % (er.text, R)))
    return out


def tod_cases(ctx, P, refs):
    from recognizers_date_time.resources.chinese_date_time import ChineseDateTime as C
    words = set()
    for lst in (C.MorningTermList, C.MidDayTermList, C.AfternoonTermList, C.EveningTermList, C.DaytimeTermList, C.NightTermList):
        words.update(lst)
    words.update(alternatives(C.TimeOfDayRegex))
    words.update(['今天上午', '白天的', ' 下午 ', '三点', '', '半夜', '午夜', '日间', '白天', '大白天', '正午', '明天晚'])
    out = []
    for i, w in enumerate(sorted(words)):
        R = (refs + EDGE)[i % (len(refs) + len(EDGE))]
        out.append(('zt.tod\t%s\t%s' % (ref_fields(R), cps(w.strip())), (lambda w=w, R=R: show_r(P.tpp.parse_chinese_time_of_day(w, R))),
                    'parse_chinese_time_of_day(%r, %s)' % (w, R)))
    return out


def alternatives(rx):
    """the literal alternatives of a `(?<name>a|b|c)` / `(a|b|c)` resource pattern"""
    m = regex.search(r'\((?:\?<\w+>)?([^()]*)\)', rx)
    return [a for a in (m.group(1).split('|') if m else []) if a]


# ------------------------------------------------------------------ date-time period parser

DATES = ['明天', '后天', '昨天', '今天', '5月1日', '2019年5月1日', '周五', '12月31日', '大后天', '2月29日']
PERIODS = ['下午3点到5点', '上午九点到十一点半', '晚上8点到凌晨2点', '晚上11点到1点', '下午', '3点到5点', '下午1点到13点', '下午5点到3点',
           '上午10点30分到11点45分20秒', '早上五到六点', '22点到24点', '10到12:30']


def mdtp_cases(ctx, P, refs):
    out = []
    p = P.dtpp
    for i, R in enumerate(refs + EDGE[2:]):
        for j, d in enumerate(DATES):
            for k, tpx in enumerate(PERIODS):
                if (i + j + k) % (2 if ctx.thorough else 5):
                    continue
                t = d + tpx
                er1 = p.single_date_extractor.extract(t, R)
                er2 = p.time_period_extractor.extract(t, R)
                if len(er1) != 1 or len(er2) != 1:
                    continue
                try:
                    pr1 = p.config.date_parser.parse(er1[0], R)
                    pr2 = p.config.time_period_parser.parse(er2[0], R)
                except Exception:
                    continue
                if pr1.value is None or pr2.value is None or not pr1.value.success or not pr2.value.success:
                    continue
                bt, et = pr2.value.future_value
                line = '%s\t%s\t%s\t%s\t%s\t%s\t%s' % ('zt.mdtp' if P.variants['mdtp'] == 'prefix' else 'zt.mdtpfixed', fmt_dt(pr1.value.future_value), fmt_dt(pr1.value.past_value), pr1.timex_str,
                                                         pr2.timex_str, fmt_dt(bt), fmt_dt(et))
                out.append((line, (lambda t=t, R=R: show_r(p.merge_date_and_time_periods(t, R))), 'merge_date_and_time_periods(%r, %s)' % (t, R)))
    return out


M2_TEXTS = ['明天下午2点到后天5点', '下午2点到明天5点', '明天下午2点,5点', '后天下午2点 5点', '后天2点以及5点', '大后天晚上9点,11点', '5点,明天下午2点',
            '后天9点,11点', '今天下午2点到明天上午10点', '2点到明天5点', '昨天晚上9点到今天早上7点', '明天8点到后天8点', '明天下午3点30分到后天4点15分20秒',
            '3点30分20秒,明天4点', '明天11点到后天1点', '明天下午5点到今天3点', '今天23点,1点', '明天8点15分,9点']


def m2tp_cases(ctx, P, refs):
    out = []
    p = P.dtpp
    c = p.config
    for i, R in enumerate(refs + EDGE[2:]):
        for j, t in enumerate(M2_TEXTS):
            if (i + j) % (1 if ctx.thorough else 3):
                continue
            time_ers = c.time_extractor.extract(t, R)
            dt_ers = c.date_time_extractor.extract(t, R)
            kind = None
            if len(dt_ers) == 2:
                kind, b, e, bp, ep = 'both', dt_ers[0], dt_ers[1], c.date_time_parser, c.date_time_parser
            elif len(dt_ers) == 1 and len(time_ers) == 2:
                if dt_ers[0].overlap(time_ers[0]):
                    kind, b, e, bp, ep = 'begin', dt_ers[0], time_ers[1], c.date_time_parser, c.time_parser
                else:
                    kind, b, e, bp, ep = 'end', time_ers[0], dt_ers[0], c.time_parser, c.date_time_parser
            elif len(dt_ers) == 1 and len(time_ers) == 1:
                if time_ers[0].start < dt_ers[0].start:
                    kind, b, e, bp, ep = 'end', time_ers[0], dt_ers[0], c.time_parser, c.date_time_parser
                else:
                    kind, b, e, bp, ep = 'begin', dt_ers[0], time_ers[0], c.date_time_parser, c.time_parser
            if kind is None:
                continue
            try:
                pb, pe = bp.parse(b, R), ep.parse(e, R)
            except Exception:
                continue
            if not pb.value or not pe.value:
                continue
            line = 'zt.m2tp\t%s\t%s\t%s\t%s\t%s\t%d\t%s\t%s\t%s\t%d' % (
                ref_fields(R), kind, fmt_dt(pb.value.future_value), fmt_dt(pb.value.past_value), pb.timex_str, 1 if pb.value.comment else 0,
                fmt_dt(pe.value.future_value), fmt_dt(pe.value.past_value), pe.timex_str, 1 if pe.value.comment == 'ampm' else 0)
            out.append((line, (lambda t=t, R=R: show_r(p.merge_two_time_points(t, R))), 'merge_two_time_points(%r, %s)' % (t, R)))
    return out


def pod_py(p, s):
    for name, rx in (('mo', p.tmo_regex), ('mi', p.tmi_regex), ('af', p.taf_regex), ('ev', p.tev_regex), ('ni', p.tni_regex)):
        if regex.search(rx, s):
            return name
    return 'none'


def night_cases(ctx, P, refs):
    from recognizers_date_time.resources.chinese_date_time import ChineseDateTime as C
    out = []
    p = P.dtpp
    nights = ['今晚', '今早', '今晨', '明晚', '明早', '明晨', '昨晚']
    tods = sorted(set(alternatives(C.TimeOfDayRegex)) | {'午夜', '白天'})
    for w in tods + nights + ['明天下午', '今天晚上', '傍晚', '明天傍晚', '半夜三更', '三点']:
        out.append(('zt.pod\t%s' % cps(w), (lambda w=w: pod_py(p, w)), 'part-of-day pattern chain on %r' % w))
    for i, R in enumerate(refs + EDGE):
        for j, w in enumerate(nights):
            if (i + j) % 2 == 0 or i < 6:
                out.append(('zt.night\t%s\t%s' % (ref_fields(R), cps(w)), (lambda w=w, R=R: show_r(p.parse_specific_time_of_day(w, R))),
                            'parse_specific_time_of_day(%r, %s)' % (w, R)))
        if i % 7 == 0:
            w = ['这个 下午', '上个 晚上', '下个 早上'][i // 7 % 3]
            out.append(('zt.night\t%s\t%s' % (ref_fields(R), cps(w)), (lambda w=w, R=R: show_r(p.parse_specific_time_of_day(w, R))),
                        'parse_specific_time_of_day(%r, %s)' % (w, R)))
        for j, d in enumerate(DATES):
            for k, w in enumerate(tods):
                if (i * 3 + j + k) % (3 if ctx.thorough else 11):
                    continue
                t = d + w
                pod = pod_py(p, t)
                m = regex.search(p.config.time_of_day_regex, t)
                if pod == 'none' or not m:
                    continue
                before = t[:m.start()].strip()
                ers = p.single_date_extractor.extract(before, R)
                if len(ers) == 0 or ers[0].length != len(before):
                    continue
                try:
                    pr = p.config.date_parser.parse(ers[0], R)
                except (OverflowError, ValueError):
                    continue
                if pr.value is None:
                    continue
                line = 'zt.dtod\t%s\t%s\t%s\t%s' % (fmt_dt(pr.value.future_value), fmt_dt(pr.value.past_value), pr.timex_str, pod)
                out.append((line, (lambda t=t, R=R: show_r(p.parse_specific_time_of_day(t, R))), 'parse_specific_time_of_day(%r, %s)' % (t, R)))
    return out


def hms_cases(ctx, P, refs):
    out = []
    p = P.dtpp
    r = ctx.rng('zh2-hms')
    units = ['小时', '个小时', '钟头', '个钟头', '分钟', '分', '秒', '秒钟', '时', '天', '周']
    pres = ['前', '过去', '近', '上', '未来', '之后', '后', '下', '未来的', '大约']
    for i, R in enumerate(refs + EDGE):
        ns = [1, 2, 3, 24, 59, 60, 61, 100, 3600, 86400, 100000] if i % 5 == 0 else [r.randint(1, 5000), r.choice([1, 2, 10, 90])]
        for n in ns:
            for uw in (units if i % 4 == 0 else r.sample(units, 4)):
                for pre in (pres if n <= 3 and i % 4 == 0 else r.sample(pres, 3)):
                    t = '%s%d%s' % (pre, n, uw)
                    ers = p.cardinal_extractor.extract(t)
                    if len(ers) != 1:
                        continue
                    er = ers[0]
                    pr = p.cardinal_parser.parse(er)
                    su = t[er.start + er.length:].strip().lower()
                    if su.startswith('个'):
                        su = su[1:]
                    before = t[:er.start].strip().lower()
                    if float(pr.value) != int(float(pr.value)) or int(float(pr.value)) < 0:
                        continue
                    code = p.config.unit_map.get(su)
                    pm = regex.search(p.config.past_regex, before)
                    fm = regex.search(p.config.future_regex, before)
                    hp = 1 if (pm and len(pm.group()) == len(before)) else 0
                    hf = 1 if (fm and len(fm.group()) == len(before)) else 0
                    line = 'zt.hms\t%s\t%s\t%s\t%d\t%d\t%d' % (ref_fields(R), code if code in ('H', 'M', 'S') else 'O', pr.resolution_str,
                                                              int(float(pr.value)), hp, hf)
                    out.append((line, (lambda t=t, R=R: show_r(p._parse_number_with_unit(t, R))), '_parse_number_with_unit(%r, %s)' % (t, R)))
        if i % 3 == 0:
            for t in ('上个小时', '下一分钟', '过去一小时', '未来两个小时', '前三十分钟', '之后十秒'):
                ers = p.cardinal_extractor.extract(t)
                if len(ers) == 1:
                    er = ers[0]
                    pr = p.cardinal_parser.parse(er)
                    su = t[er.start + er.length:].strip().lower()
                    su = su[1:] if su.startswith('个') else su
                    before, num, n = t[:er.start].strip().lower(), pr.resolution_str, int(float(pr.value))
                elif len(ers) == 0:
                    m = regex.search(p.unit_regex, t)
                    if not m:
                        continue
                    su, before, num, n = m.group('unit'), t[:m.start()].strip().lower(), '1', 1
                else:
                    continue
                code = p.config.unit_map.get(su)
                pm = regex.search(p.config.past_regex, before)
                fm = regex.search(p.config.future_regex, before)
                hp = 1 if (pm and len(pm.group()) == len(before)) else 0
                hf = 1 if (fm and len(fm.group()) == len(before)) else 0
                line = 'zt.hms\t%s\t%s\t%s\t%d\t%d\t%d' % (ref_fields(R), code if code in ('H', 'M', 'S') else 'O', num, n, hp, hf)
                out.append((line, (lambda t=t, R=R: show_r(p._parse_number_with_unit(t, R))), '_parse_number_with_unit(%r, %s)' % (t, R)))
    return out


# ------------------------------------------------------------------ set parser

def set_cases(ctx, P):
    from recognizers_date_time.resources.chinese_date_time import ChineseDateTime as C
    out = []
    sp = P.sp
    R = dt.datetime(2020, 1, 31, 14, 30)
    units = alternatives(C.SetUnitRegex) + ['个月', '礼拜', '']
    for pre in ('每', '每个', '每一', '每 ', '每隔'):
        for u in units:
            t = pre + u
            m = sp.config.each_unit_regex.search(t)
            full = m and (m.end() - m.start()) == len(t)
            unit = m.group('unit') if full else None
            line = 'zt.setunit\t%s\t%d' % ('?' if unit is None else cps(unit), 1 if (unit and unit in sp.config.unit_map) else 0)

            def run(t=t):
                x = sp.parse_each_unit(t)
                return x.timex if x.success else 'none'
            out.append((line, run, 'parse_each_unit(%r)' % t))
    # the order of the five attempts: each attempt's own answer is the input, `parse` the function under test
    for t in ['每天', '每周一', '每个月', '每年', '每周', '每日', '每星期', '每天下午3点', '每周一上午9点', '每两天', '每2周', '每个星期', '每小时', '每3小时',
              '每天早上8点', '每月', '每年', '每周五', '每天9点30分']:
        for er in P.se.extract(t, R):
            def att(fn):
                try:
                    x = fn()
                    return x.timex if x.success else '?'
                except Exception:
                    return None
            c = sp.config
            a = [att(lambda: sp.parse_each_unit(er.text)), att(lambda: sp.parse_each_duration(er.text, R)),
                 att(lambda: sp.parser_time_everyday(er.text, R)),
                 att(lambda: sp.parse_each(c.date_time_extractor, c.date_time_parser, er.text, R)),
                 att(lambda: sp.parse_each(c.date_extractor, c.date_parser, er.text, R))]
            if any(x is None or '\t' in x or x == '' for x in a):
                continue

            def run(er=er):
                pr = sp.parse(er, R)
                return 'none' if pr.value is None else '%s\t%s' % (pr.timex_str, pr.value.future_value)
            out.append(('zt.set\t' + '\t'.join(a), run, 'ChineseSetParser.parse(%r)' % er.text))
    return out


# ------------------------------------------------------------------ holiday parser

def holiday_cases(ctx, P, refs):
    from recognizers_number import Constants as NC
    hp = P.hp
    r = ctx.rng('zh2-holiday')
    out = []
    fixed = getattr(hp, '_ChineseHolidayParser__fixed_holiday_dictionary')
    funcs = {k: v for k, v in hp.config.holiday_func_dictionary.items() if any(ord(ch) > 0x2E80 for ch in k)}
    iext = getattr(hp, '_ChineseHolidayParser__integer_extractor')
    npar = getattr(hp, '_ChineseHolidayParser__number_parser')
    keys = list(fixed) + [k for k in funcs if k not in fixed]
    years = [0, 1, 2, 100, 1899, 1900, 1999, 2000, 2019, 2020, 2024, 2100, 9999, 10000] + [r.randint(1, 9999) for _ in range(20 if ctx.thorough else 4)]
    for k in keys + ['腊八节', '复活节']:
        f = fixed.get(k) or funcs.get(k)
        for y in years:
            def run(f=f, y=y):
                if f is None:
                    return 'nokey'
                try:
                    x = f(y)
                    return '%d-%d-%d' % (x.year, x.month, x.day)
                except (ValueError, OverflowError, IndexError):
                    return 'err:raises'
            out.append(('zt.holfn\t%s\t%d' % (cps(k), y), run, 'holiday function of %r (%d)' % (k, y)))
    ctx.extra['zh_holiday_keys'] = len(keys)
    for w in ['明年', '去年', '今年', '明', '去年的', '今', '2019', '后年', '']:
        out.append(('zt.swiftyear\t%s' % cps(w), (lambda w=w: str(hp.config.get_swift_year(w))), 'get_swift_year(%r)' % w))

    def show(x):
        if not x.success:
            return 'none'
        f, p = x.future_value, x.past_value
        return 'ok %s\t%d-%d-%d\t%d-%d-%d' % (x.timex, f.year, f.month, f.day, p.year, p.month, p.day)
    prefixes = ['', '明年', '去年', '今年', '2019年', '19年', '98年', '05年', '1998年', '2100年', '二零一九年', '一九九八年', '九八年', '二零年',
                '明年的', '2020年的', '两千年']
    on_the_day = [dt.datetime(2020, 5, 1), dt.datetime(2020, 12, 25), dt.datetime(2020, 10, 1), dt.datetime(2020, 5, 10), dt.datetime(2019, 12, 31),
                  dt.datetime(2020, 1, 1), dt.datetime(2020, 11, 26), dt.datetime(2020, 5, 10, 0, 0, 1)]
    for i, R in enumerate(on_the_day + refs + EDGE):
        for j, k in enumerate(keys):
            for q, pre in enumerate(prefixes):
                if (i + j + q) % (2 if ctx.thorough else 6) and not (i < 3 and q < 5):
                    continue
                t = pre + k
                m = None
                for pat in hp.config.holiday_regex_list:
                    mm = pat.search(t)
                    if mm and mm.pos == 0 and mm.endpos == len(t):
                        m = mm
                        break
                if m is None or m.start() != 0 or m.end() != len(t):
                    continue
                yn, yc, yr = m.group('year'), m.group('yearCJK'), m.group('yearrel')
                fixed = P.variants['hol'] == 'fixed'
                cj = 0
                if yn:
                    kind, arg = 'D', str(int(yn))
                elif yc:
                    s = yc if fixed else (yc[:-1] if hp.config.get_swift_year(yc) == 0 else yc)
                    ers = iext.extract(s)
                    whole = int(npar.parse(ers[-1]).value) if ers and ers[-1].type == NC.SYS_NUM_INTEGER else 0
                    kind, arg = 'C', str(whole)
                    for ch in s:                      # the digit-by-digit value, as __convert_year computes it
                        cj *= 10
                        e1 = iext.extract(ch)
                        if e1 and e1[-1].type == NC.SYS_NUM_INTEGER:
                            cj += int(npar.parse(e1[-1]).value)
                elif yr:
                    kind, arg = 'R', str(hp.config.get_swift_year(yr))
                else:
                    kind, arg = 'A', '0'
                line = 'zt.hol\t%s\t%s\t%s\t%s' % (ref_fields(R), cps(m.group('holiday').lower()), kind, arg)
                if fixed:
                    line = 'zt.holfixed\t%s\t%s\t%s\t%s\t%d' % (ref_fields(R), cps(m.group('holiday').lower()), kind, arg, cj)
                out.append((line, (lambda t=t, R=R: guarded_h(lambda: show(hp._parse_holiday_regex_match(t, R)))),
                            '_parse_holiday_regex_match(%r, %s)' % (t, R)))
    R = dt.datetime(2020, 1, 31)
    for k in keys:
        for er in P.he.extract(k, R):
            if er.text == k:
                out.append(('zt.lunar\t%s' % cps(k), (lambda er=er: '1' if hp.parse(er, R).value.is_lunar else '0'), 'is_lunar(%r)' % k))
    return out


def guarded_h(fn):
    try:
        return fn()
    except (OverflowError, ValueError, IndexError, KeyError):
        return 'raises'


# ------------------------------------------------------------------ unit level driver

def unit(ctx, P):
    n_b, n_s = (300, 200) if ctx.thorough else (24, 12)
    refs = refs_for(ctx, 'zh2-refs', n_b, n_s)
    cs = less_cases(ctx, P) + tp_cases(ctx, P, refs) + tod_cases(ctx, P, refs) + mdtp_cases(ctx, P, refs) + m2tp_cases(ctx, P, refs) + \
        night_cases(ctx, P, refs) + hms_cases(ctx, P, refs) + set_cases(ctx, P) + holiday_cases(ctx, P, refs)
    impl = [guarded(c[1]) for c in cs]
    model = common.driver([c[0] for c in cs])
    hist, shown = {}, {}
    for (line, _f, desc), a, b in zip(cs, impl, model):
        op = line.split('\t')[0].replace('fixed', '')
        hist[op] = hist.get(op, 0) + 1
        if a not in ('none', 'err:Other', 'raises', 'nokey'):
            ctx.nontriv(('zh2', desc))
        if a in ('err:KeyError', 'err:TypeError', 'err:AttributeError'):
            a = 'err:Other'
        if a != b:
            shown[op] = shown.get(op, 0) + 1
            if shown[op] <= 3:
                ctx.report('correspondence', 'zh2-' + op[3:], '%s: implementation %s, model %s' % (desc, a, b),
                           failing_input={'op': line, 'call': desc, 'implementation': a, 'model': b})
    for op, n in sorted(hist.items()):
        ctx.count('zh2-unit:' + op, n)
    ctx.extra['zh2_variants'] = dict(P.variants)
    if cs:
        ctx.sample({'op': cs[len(cs) // 2][0], 'call': cs[len(cs) // 2][2], 'implementation': impl[len(cs) // 2]})
    witnesses(ctx, P)


def witnesses(ctx, P):
    """the negative witnesses proved in RTV/Props/C10Zh.lean, replayed on the implementation (unit level)"""
    R = dt.datetime(2020, 1, 31, 14, 30, 0)

    def first(ext, par, t):
        ers = [e for e in ext.extract(t, R) if e.text == t]
        return par.parse(ers[0], R) if ers else None
    pr = guarded(lambda: first(P.tpe, P.tpp, '10到12:30'))
    if pr not in (None, 'err:Other') and not isinstance(pr, str) and pr.timex_str == '(T00,T12:30,PT12H30M)':     # zh_short_left_last_char_witness
        ctx.report('property', 'zh-timeperiod-short-left-last-char', "ChineseTimePeriodParser.parse('10到12:30') -> %s; the stated begin is 10:00" % pr.timex_str,
                   failing_input={'op': 'ChineseTimePeriodParser.parse', 'expression': '10到12:30', 'implementation': pr.timex_str,
                                  'property_expects': '(T10,T12:30,PT2H30M)'}, property_fails=True)
    pr = guarded(lambda: first(P.tpe, P.tpp, '下午1点到13点'))
    if pr not in (None, 'err:Other') and not isinstance(pr, str) and pr.timex_str == '(T13,T13,PT)':              # zh_empty_span_witness
        ctx.report('property', 'zh-timeperiod-empty-span', "ChineseTimePeriodParser.parse('下午1点到13点') -> %s: a duration with no component" % pr.timex_str,
                   failing_input={'op': 'ChineseTimePeriodParser.parse', 'expression': '下午1点到13点', 'implementation': pr.timex_str,
                                  'property_expects': 'a (start,end,duration) TIMEX whose duration reads as end - start'}, property_fails=True)
    x = guarded(lambda: show_r(P.dtpp.merge_date_and_time_periods('今天晚上8点到凌晨2点', R)))
    if x.startswith('(2020-01-31T20,2020-01-31T02,PT6H)'):                                                        # zh_cross_midnight_witness
        ctx.report('property', 'zh-dtperiod-cross-midnight', "merge_date_and_time_periods('今天晚上8点到凌晨2点', %s) -> %s: the end lies before the start" % (R, x),
                   failing_input={'op': 'merge_date_and_time_periods', 'expression': '今天晚上8点到凌晨2点', 'reference': str(R), 'implementation': x,
                                  'property_expects': '(2020-01-31T20,2020-02-01T02,PT6H)'}, property_fails=True)
    x = guarded_h(lambda: P.hp._parse_holiday_regex_match('2019年圣诞节', R).timex)
    if x == '0201-12-25':                                                                                          # zh_holiday_year_truncated_witness
        ctx.report('property', 'zh-holiday-year-truncated', "_parse_holiday_regex_match('2019年圣诞节') -> %s" % x,
                   failing_input={'op': '_parse_holiday_regex_match', 'expression': '2019年圣诞节', 'implementation': x, 'property_expects': '2019-12-25'},
                   property_fails=True)
    x = guarded_h(lambda: P.hp._parse_holiday_regex_match('二零一九年国庆节', R).timex)
    if x == '1999-10-01':                                                                                          # zh_holiday_cjk_year_witness
        ctx.report('property', 'zh-holiday-cjk-year-lost', "_parse_holiday_regex_match('二零一九年国庆节') -> %s" % x,
                   failing_input={'op': '_parse_holiday_regex_match', 'expression': '二零一九年国庆节', 'implementation': x, 'property_expects': '2019-10-01'},
                   property_fails=True)


# ------------------------------------------------------------------ pipeline level

def hhmmss(s):
    return '%02d:%02d:%02d' % (s // 3600, s // 60 % 60, s % 60)


def pipeline_cases(ctx):
    """(text, reference, family, params)"""
    r = ctx.rng('zh2-pipeline')
    n_b, n_s = (120, 80) if ctx.thorough else (10, 6)
    refs = refs_for(ctx, 'zh2-pipeline-refs', n_b, n_s)
    cases = []
    for i, R in enumerate(refs):
        # (a) time ranges with a description on the left end only / on both ends: the stated clock times after the rule
        for _ in range(4):
            h1 = r.randint(1, 10)
            h2 = r.randint(h1 + 1, 11)
            m2 = r.choice([0, 0, 15, 30, 45])
            d, off = r.choice([('下午', 12), ('上午', 0), ('早上', 0), ('晚上', 12)])
            if d == '晚上' and h1 < 6:
                h1, h2 = 6 + h1 % 5, 11
            t = '%s%d点到%d点%s' % (d, h1, h2, '%d分' % m2 if m2 else '')
            cases.append((t, R, 'tp', ((h1 + off) * 3600, (h2 + off) * 3600 + m2 * 60)))
        # (b) short left end
        h1 = r.choice([10, 11, 9, 8])
        cases.append(('%d到12:30' % h1, R, 'short', (h1 * 3600, 12 * 3600 + 1800)))
        cases.append(('%s到十二点' % CJK_H[h1], R, 'short', (h1 * 3600, 12 * 3600)))
        # (c) date + time range, same day
        k, dw = r.choice([(1, '明天'), (2, '后天'), (-1, '昨天'), (0, '今天')])
        h1 = r.randint(1, 9)
        h2 = r.randint(h1 + 1, 11)
        cases.append(('%s下午%d点到%d点' % (dw, h1, h2), R, 'dtp', (k, (h1 + 12) * 3600, (h2 + 12) * 3600, 0)))
        # (d) date + time range across midnight: the end is on the next day
        h1 = r.randint(8, 11)
        h2 = r.randint(1, 5)
        cases.append(('%s晚上%d点到凌晨%d点' % (dw, h1, h2), R, 'dtp-x', (k, (h1 + 12) * 3600, h2 * 3600, 1)))
        # (e) part of day
        for w, (b, e) in (('上午', (8, 12)), ('下午', (12, 16)), ('晚上', (16, 20)), ('中午', (11, 13))):
            if (i + b) % 2:
                cases.append((dw + w, R, 'pod', (k, b * 3600, e * 3600)))
        for w, k2, (b, e) in (('今晚', 0, (16, 20)), ('明早', 1, (8, 12)), ('昨晚', -1, (16, 20)), ('明晚', 1, (16, 20)), ('今晨', 0, (8, 12))):
            if (i + k2) % 2 == 0:
                cases.append((w, R, 'pod', (k2, b * 3600, e * 3600)))
        # (f) 前N小时 / 未来N分钟
        for _ in range(3):
            n = r.choice([1, 2, 3, 20, 24, 59, 60, 90, 1000, r.randint(1, 5000)])
            uw, us, ul = r.choice([('小时', 3600, 'H'), ('分钟', 60, 'M'), ('秒', 1, 'S'), ('个小时', 3600, 'H')])
            pre, sign = r.choice([('前', -1), ('过去', -1), ('未来', 1), ('之后', 1)])
            cases.append(('%s%d%s' % (pre, n, uw), R, 'hms', (n, us, ul, sign)))
        # (g) holidays with a year
        y = r.choice([1998, 2000, 2019, 2020, 2024, 2099, 1950])
        name, (mo, d) = r.choice([('圣诞节', (12, 25)), ('国庆节', (10, 1)), ('元旦', (1, 1)), ('劳动节', (5, 1)), ('教师节', (9, 10))])
        cases.append(('%d年%s' % (y, name), R, 'hol-year', (y, mo, d)))
        cj = ''.join('零一二三四五六七八九'[int(c)] for c in str(y))
        cases.append(('%s年%s' % (cj, name), R, 'hol-cjk', (y, mo, d)))
        rel, kk = r.choice([('明年', 1), ('去年', -1), ('今年', 0)])
        cases.append((rel + name, R, 'hol-rel', (R.year + kk, mo, d)))
        cases.append(('%d年母亲节' % y, R, 'hol-var', (y, 5, 6, 1)))          # second Sunday of May
        cases.append((rel + '感恩节', R, 'hol-varrel', (R.year + kk, 11, 3, 3)))   # fourth Thursday of November
        # (h) sets
        for w, tx in (('每天', 'P1D'), ('每周', 'P1W'), ('每个月', 'P1M'), ('每年', 'P1Y')):
            if (i + len(w)) % 2:
                cases.append((w, R, 'set', tx))
    cases.append(('下午1点到13点', refs[0], 'empty', None))
    return cases


def nth_weekday(y, mo, weekday, k):
    """date of the (k+1)-th `weekday` (Monday = 0) of month mo"""
    d = dt.date(y, mo, 1)
    d += dt.timedelta(days=(weekday - d.weekday()) % 7 + 7 * k)
    return d


def pipeline(ctx):
    cases = pipeline_cases(ctx)
    res = dtpipe.run([('zh-cn', c[0], c[1]) for c in cases])
    triple_ents, triple_idx = [], []
    shown = {}

    def report(sig, detail, fi):
        shown[sig] = shown.get(sig, 0) + 1
        if shown[sig] <= 4:          # a few concrete inputs per signature are enough
            ctx.report('property', sig, detail, failing_input=fi, property_fails=True)
    for i, ((text, R, fam, par), got) in enumerate(zip(cases, res)):
        ctx.count('zh2-pipeline:' + fam)
        ent = None
        if not isinstance(got, str):
            for e in got:
                if e['start'] == 0 and e['end'] == len(text) - 1 and e['values'] is not None:
                    ent = e
        vals = ent['values'] if ent else None
        fi = {'op': 'recognize_datetime', 'query': text, 'culture': 'zh-cn', 'reference': R.strftime('%Y-%m-%d %H:%M:%S'), 'family': fam,
              'params': par, 'implementation': vals if ent else got}
        if ent is None:
            continue          # what the extractors take is not this module's business; counted by nontriv below
        ctx.nontriv(('zh2-pipeline', fam, text, str(R)))
        want = sig = None
        if fam in ('tp', 'short'):
            want = {'start': hhmmss(par[0]), 'end': hhmmss(par[1])}
            sig = 'zh-timeperiod-short-left-last-char' if fam == 'short' else 'zh-timeperiod-endpoints'
            ok = len(vals) >= 1 and any(v.get('start') == want['start'] and v.get('end') == want['end'] for v in vals)
        elif fam in ('dtp', 'dtp-x'):
            d0 = R.date() + dt.timedelta(days=par[0])
            d1 = d0 + dt.timedelta(days=par[3])
            want = {'start': '%s %s' % (d0.isoformat(), hhmmss(par[1])), 'end': '%s %s' % (d1.isoformat(), hhmmss(par[2]))}
            sig = 'zh-dtperiod-cross-midnight' if fam == 'dtp-x' else 'zh-dtperiod-endpoints'
            ok = any(v.get('start') == want['start'] and v.get('end') == want['end'] for v in vals)
        elif fam == 'pod':
            d0 = R.date() + dt.timedelta(days=par[0])
            want = {'start': '%s %s' % (d0.isoformat(), hhmmss(par[1])), 'end': '%s %s' % (d0.isoformat(), hhmmss(par[2]))}
            sig = 'zh-part-of-day'
            ok = len(vals) == 1 and vals[0].get('start') == want['start'] and vals[0].get('end') == want['end']
        elif fam == 'hms':
            n, us, ul, sign = par
            a = R + dt.timedelta(seconds=min(0, sign * n * us))
            b = R + dt.timedelta(seconds=max(0, sign * n * us))
            f = lambda x: x.strftime('%Y-%m-%d %H:%M:%S')
            g = lambda x: x.strftime('%Y-%m-%dT%H:%M:%S')
            want = {'timex': '(%s,%s,PT%d%s)' % (g(a), g(b), n, ul), 'type': 'datetimerange', 'start': f(a), 'end': f(b)}
            sig = 'zh-number-with-unit'
            ok = vals == [want]
        elif fam in ('hol-year', 'hol-cjk', 'hol-rel'):
            y, mo, d = par
            v = '%04d-%02d-%02d' % (y, mo, d)
            want = [{'timex': v, 'type': 'date', 'value': v}]
            sig = {'hol-year': 'zh-holiday-year-truncated', 'hol-cjk': 'zh-holiday-cjk-year-lost', 'hol-rel': 'zh-holiday-relative-year'}[fam]
            ok = vals == want
        elif fam in ('hol-var', 'hol-varrel'):
            y, mo, wd, k = par
            v = nth_weekday(y, mo, wd, k).isoformat()
            want = {'value': v}
            sig = 'zh-holiday-year-truncated' if fam == 'hol-var' else 'zh-holiday-relative-year'
            ok = len(vals) == 1 and vals[0].get('value') == v and vals[0].get('timex', '').startswith('%04d-' % y)
        elif fam == 'set':
            want = [{'timex': par, 'type': 'set', 'value': 'not resolved'}]
            sig = 'zh-set-unit'
            ok = vals == want and ent['type_name'] == 'datetimeV2.set'
        else:
            ok = True
        fi['property_expects'] = want
        if not ok:
            report(sig, '%r (zh-cn) at %s: got %r, the property states %r' % (text, fi['reference'], vals, want), fi)
        if any(str(v.get('timex', '')).startswith('(') for v in vals):
            triple_ents.append(ent)
            triple_idx.append((i, fi))
    for (i, fi), e, (tn, vs) in zip(triple_idx, triple_ents, dtcorpus.evaluate_wf(triple_ents)):
        fam = cases[i][2]
        bad = [v for v, (_s, _d, t) in zip(e['values'], vs) if not t]
        if not bad:
            continue
        sig = {'dtp-x': 'zh-dtperiod-cross-midnight', 'short': 'zh-timeperiod-short-left-last-char', 'empty': 'zh-timeperiod-empty-span'}.get(
            fam, 'zh-triple-' + fam)
        if fam in ('dtp-x', 'short'):
            continue          # already reported through the stated end points
        report(sig, '%r (zh-cn) at %s: TIMEX and values disagree: %r' % (cases[i][0], fi['reference'], bad[:2]), fi)
    ctx.extra['zh2_pipeline_cases'] = len(cases)
    if cases:
        ctx.sample({'query': cases[2][0], 'reference': str(cases[2][1]), 'implementation': res[2]})


def run(ctx):
    common.setup_repo_imports()
    P = Parsers()
    unit(ctx, P)
    pipeline(ctx)
