"""Shared plumbing of the C06 / C07 checks (layer L6 DtRes): wire format of the `dt.*` driver operations, access to
the working tree's English (and other BaseDateParser cultures') parser objects, derivation of the model's declared
inputs from a real regex match, canonical forms, and a process pool for pipeline-level `DateTimeModel.parse` calls."""
import datetime
import multiprocessing
import os

from . import common
from .common import cps

TIME_GROUPS = ['writtentime', 'hournum', 'minnum', 'tens', 'mid', 'midnight', 'midmorning', 'midafternoon', 'midday',
               'hour', 'min', 'sec']
TAGS = {'en-us': 'en', 'es-es': 'es', 'es-mx': 'esmx', 'fr-fr': 'fr', 'pt-br': 'pt', 'it-it': 'it', 'de-de': 'de',
        'nl-nl': 'nl', 'zh-cn': 'zh'}


TIME_SPEC = {
    'en-us': {'tag': 'en', 'style': 'en', 'suffix': ('time_suffix_full', 'search'), 'oclock': 'oclock', 'lunch': 'lunch_regex',
              'night': 'night_regex', 'flags': [], 'plain_pm': ['in the afternoon', 'in the evening', 'afternoon']},
    'es-es': {'tag': 'es', 'style': 'simple', 'suffix': ('time_suffix', 'match'), 'oclock': 'oclock', 'flags': []},
    'es-mx': {'tag': 'esmx', 'style': 'simple', 'suffix': ('time_suffix', 'match'), 'oclock': 'oclock', 'flags': []},
    'fr-fr': {'tag': 'fr', 'style': 'simple', 'suffix': ('time_suffix', 'match'), 'oclock': 'heures', 'flags': []},
    'pt-br': {'tag': 'pt', 'style': 'night', 'suffix': ('time_suffix_full', 'search'), 'oclock': 'oclock', 'night': 'night_regex',
              'flags': [], 'plain_pm': ['da tarde', 'de tarde', 'a tarde', 'à tarde']},
    'it-it': {'tag': 'it', 'style': 'night', 'suffix': ('time_suffix', 'search'), 'oclock': 'oclock', 'night': 'night_regex',
              'flags': [], 'plain_pm': ['del pomeriggio', 'di pomeriggio', 'pomeriggio', 'di sera']},
    'de-de': {'tag': 'de', 'style': 'night', 'suffix': ('time_suffix', 'search'), 'oclock': 'oclock', 'night': 'night_regex',
              'flags': ['_half_token_regex', '_quarter_to_token_regex', '_quarter_past_token_regex',
                        '_three_quarter_to_token_regex', '_three_quarter_past_token_regex'],
              'plain_pm': ['nachmittags', 'am nachmittag', 'abends', 'am abend']},
    'nl-nl': {'tag': 'nl', 'style': 'nl', 'suffix': ('time_suffix_full_regex', 'search'), 'oclock': 'oclock', 'lunch': 'lunch_regex',
              'night': 'night_regex',
              'flags': ['_half_token_regex', '_quarter_token_regex', '_three_quarter_token_regex', 'to_half_token_regex_regex',
                        'for_half_token_regex_regex', 'to_token_regex_regex']},
}


PM_WRAPS = False   # set by Tree(): does the tree's DateTimeFormatUtil.to_pm wrap modulo 24 (repaired) or not (as found)


def drive(lines):
    """common.driver for `dt.*` operations: the op name carries the `to_pm` variant the working tree follows (`+w`)."""
    if PM_WRAPS:
        lines = [(l.split('\t', 1)[0] + '+w' + ('\t' + l.split('\t', 1)[1] if '\t' in l else '')) if l.startswith('dt.') else l
                 for l in lines]
    return common.driver(lines)


def dt_field(d):
    return '%d,%d,%d,%d,%d,%d' % (d.year, d.month, d.day, d.hour, d.minute, d.second)


def b(x):
    return '1' if x else '0'


def report(ctx, kind, signature, detail, failing_input=None, property_fails=None, cap=12):
    """ctx.report with a cap per signature, so that one frequent disagreement cannot crowd the others (and the
    property failures found later, at pipeline level) out of the run's 200 recorded breaks; the total is kept in
    ctx.extra['reports']."""
    counts = ctx.extra.setdefault('reports', {})
    key = '%s:%s' % (kind, signature)
    counts[key] = counts.get(key, 0) + 1
    # recorded findings are never capped (they occupy no break slot; a failing set needs every hit)
    if counts[key] <= cap or ctx.is_known(signature, common.input_key(failing_input)):
        ctx.report(kind, signature, detail, failing_input=failing_input, property_fails=property_fails)


# ---------------------------------------------------------------- canonical forms (implementation side)

def res_str(r):
    """DateTimeResolutionResult -> the driver's `res` form."""
    if not r.success:
        return '0|-|-|1,1,1,0,0,0|1,1,1,0,0,0'
    return '1|%s|%s|%s|%s' % (cps(r.timex), cps(r.comment or ''), dt_field(r.future_value), dt_field(r.past_value))


def values_str(resolution):
    """resolution dict of a model result (or of _date_time_resolution) -> the driver's `values` form."""
    if resolution is None:
        return 'none'
    out = []
    for v in resolution['values']:
        extra = set(v) - {'timex', 'type', 'value'}
        if extra:
            return 'other-keys:' + ','.join(sorted(extra))
        out.append('%s~%s~%s' % (cps(v.get('timex', '')), cps(v.get('type', '')),
                                 cps(v['value']) if 'value' in v else 'none'))
    return ';'.join(out)


def err_kind(e):
    if isinstance(e, KeyError):
        return 'err:KeyError'
    if isinstance(e, ValueError):
        return 'err:ValueError'
    if isinstance(e, IndexError):
        return 'err:IndexError'
    # The models answer `err:Other` where the code raises TypeError / AttributeError / OverflowError (None arithmetic, date
    # overflow): these three are kept apart in the evidence (`err_other_types`, by exception type), and any OTHER exception
    # type is spelled out, so that it can never be mistaken for the modelled ones (audit item 36).
    n = type(e).__name__
    common.ERR_OTHER[n] = common.ERR_OTHER.get(n, 0) + 1
    if isinstance(e, (TypeError, AttributeError, OverflowError)):
        return 'err:Other'
    return 'err:Other:' + n


def entity_values(T, dtype, inner, culture='en-us'):
    """What the entity resolves to once a date / time / datetime parser's result `inner` (DateTimeResolutionResult, or an
    exception instance the parser raised) has gone through the parser's `parse` wrapping (future / past resolution dicts, value,
    timex_str) and the merged parser's `_date_time_resolution` — the implementation side of the entity-level compositions
    `resolveDateZh` / `resolveTimeZh` / `resolveTimeOfToday` of RTV.DtRes (driver ops dt.rdatezh / dt.rtimezh / dt.rtod).
    -> the driver's `values` form, or err:<Kind>."""
    if isinstance(inner, Exception):
        return err_kind(inner)
    from recognizers_date_time.date_time.parsers import DateTimeParseResult
    from recognizers_text.extractor import ExtractResult
    F = T.utilities.DateTimeFormatUtil
    TT = T.TimeTypeConstants
    key = {'date': TT.DATE, 'time': TT.TIME, 'datetime': TT.DATETIME}[dtype]
    fmt = {'date': F.format_date, 'time': F.format_time, 'datetime': F.format_date_time}[dtype]
    try:
        src = ExtractResult()
        src.start, src.length, src.text, src.type = 0, 1, 'x', dtype
        slot = DateTimeParseResult(src)
        slot.type = dtype
        if inner is not None and inner.success:
            inner.future_resolution = {key: fmt(inner.future_value)}
            inner.past_resolution = {key: fmt(inner.past_value)}
            slot.value = inner
            slot.timex_str = inner.timex
        else:
            slot.value = None
            slot.timex_str = ''
        return values_str(T.merged(culture)._date_time_resolution(slot, False, False, False))
    except Exception as e:
        return err_kind(e)


# ---------------------------------------------------------------- the working tree's objects

class Tree:
    """The English parser objects of the working tree (one model build per process)."""

    def __init__(self):
        from . import recog
        common.setup_repo_imports()
        recog.recognizers()
        import recognizers_date_time
        import recognizers_text
        common.assert_tree_modules(recognizers_date_time, recognizers_text)
        from recognizers_text.utilities import RegExpUtility
        from recognizers_date_time.date_time import utilities, constants, base_time, base_date, base_datetime, base_merged
        import regex
        self.recog = recog
        self.regex = regex
        self.RegExpUtility = RegExpUtility
        self.utilities = utilities
        self.Constants = constants.Constants
        self.TimeTypeConstants = constants.TimeTypeConstants
        self.base_time, self.base_date, self.base_datetime, self.base_merged = base_time, base_date, base_datetime, base_merged
        self.models = {}
        global PM_WRAPS
        PM_WRAPS = utilities.DateTimeFormatUtil.to_pm('17:05') == '05:05'

    def model(self, culture='en-us'):
        if culture not in self.models:
            self.models[culture] = self.recog.get_model('DateTime', 'DateTimeModel', culture)
        return self.models[culture]

    def merged(self, culture='en-us'):
        return self.model(culture).parser

    def time_parser(self, culture='en-us'):
        return self.merged(culture).config.time_parser

    def date_parser(self, culture='en-us'):
        return self.merged(culture).config.date_parser

    def datetime_parser(self, culture='en-us'):
        return self.merged(culture).config.date_time_parser

    # -------- model inputs of a match_to_time call, derived from the real match object
    def suffix_else_variant(self, culture):
        """'1' when the culture's adjust_by_suffix sets has_pm for a plain pm suffix (closing `else`, finding
        afternoon-12 repaired / never present), '0' otherwise; probed on the real method."""
        spec = TIME_SPEC[culture]
        if spec['style'] in ('simple', 'nl'):
            return '1'
        cfg = self.time_parser(culture).config
        for cand in spec['plain_pm']:
            si = self.suffix_info(culture, cand)
            if si['full'] and si['pm'] and not si['oclock'] and not si['lunch'] and not si['night']:
                adj = self.base_time.AdjustParams(12, 0, False, False, False)
                cfg.adjust_by_suffix(cand, adj)
                return '1' if adj.has_pm else '0'
        raise common.InfraError('no plain pm suffix found for %s' % culture)

    def suffix_info(self, culture, sfx):
        g = self.RegExpUtility.get_group
        rx = self.regex
        spec = TIME_SPEC[culture]
        cfg = self.time_parser(culture).config
        s = sfx.strip().lower()
        attr, mode = spec['suffix']
        pat = getattr(cfg, attr)
        if mode == 'match':
            m2 = rx.match(pat, s)
            full = bool(m2) and m2.group() == s
        else:
            m2 = rx.search(pat, s)
            full = m2 is not None and m2.start() == 0 and m2.group() == s
        oclock = g(m2, spec['oclock']) if full else ''
        am_s = g(m2, 'am') if full else ''
        pm_s = g(m2, 'pm') if full else ''
        lunch = bool(pm_s) and spec.get('lunch') is not None and rx.search(getattr(cfg, spec['lunch']), pm_s) is not None
        night = bool(pm_s) and spec.get('night') is not None and rx.search(getattr(cfg, spec['night']), pm_s) is not None
        return {'full': full, 'oclock': oclock, 'am': am_s, 'pm': pm_s, 'lunch': lunch, 'night': night}

    def time_call_fields(self, match, culture='en-us'):
        g = self.RegExpUtility.get_group
        tp = self.time_parser(culture)
        cfg = tp.config
        rx = self.regex
        spec = TIME_SPEC[culture]
        vals = [g(match, n) for n in TIME_GROUPS]
        desc = g(match, self.Constants.DESC_GROUP_NAME).lower()
        uc = cfg.utility_configuration
        am_d = rx.search(uc.am_desc_regex, desc) is not None
        ampm_d = rx.search(uc.am_pm_desc_regex, desc) is not None
        pm_d = rx.search(uc.pm_desc__regex, desc) is not None
        iam = g(match, self.Constants.IMPLICIT_AM_GROUP_NAME)
        ipm = g(match, self.Constants.IMPLICIT_PM_GROUP_NAME)
        pfx = g(match, self.Constants.PREFIX_GROUP_NAME).lower()
        sfx = g(match, self.Constants.SUFFIX_GROUP_NAME).lower()
        # what adjust_by_prefix reads from its regexes
        p = pfx.strip().lower()
        m1 = rx.search(cfg.less_than_one_hour, p)
        ltoh = m1 is not None
        dm = (g(m1, 'deltamin') or '') if ltoh else ''
        dmn = (g(m1, 'deltaminnum') or '').lower() if ltoh else ''
        flags = ''.join(b(rx.search(getattr(cfg, a), pfx) is not None) for a in spec['flags']) or '-'
        si = self.suffix_info(culture, sfx)
        fields = [cps(v) for v in vals] + [b(am_d), b(ampm_d), b(pm_d), cps(iam), cps(ipm), cps(pfx), cps(sfx),
                                           b(ltoh), cps(dm), cps(dmn), flags, b(si['full']), cps(si['oclock']),
                                           cps(si['am']), cps(si['pm']), b(si['lunch']), b(si['night'])]
        groups = {n: v for n, v in zip(TIME_GROUPS, vals) if v}
        for k, v in (('desc', desc), ('iam', iam), ('ipm', ipm), ('prefix', pfx), ('suffix', sfx)):
            if v:
                groups[k] = v
        return fields, groups

    def date_call_fields(self, culture, match):
        g = self.RegExpUtility.get_group
        C = self.Constants
        y, fy, mo, d = (g(match, C.YEAR_GROUP_NAME), g(match, C.FULL_YEAR_GROUP_NAME), g(match, C.MONTH_GROUP_NAME),
                        g(match, C.DAY_GROUP_NAME))
        wy = 0
        if fy:
            try:
                wy = self.date_parser(culture).config.date_extractor.get_year_from_text(match)
            except Exception:
                wy = None
        return [cps(y), cps(fy), cps(mo), cps(d)], wy, {'year': y, 'fullyear': fy, 'month': mo, 'day': d}


def fingerprints(T, which):
    """Normalised-AST fingerprints of the Python functions the model mirrors (recorded in the evidence; a changed
    fingerprint never fails a check by itself)."""
    import ast
    import hashlib
    import inspect
    import textwrap
    U = T.utilities
    en_cfg = type(T.time_parser().config)
    table = {
        'time': [('BaseTimeParser.match_to_time', T.base_time.BaseTimeParser.match_to_time),
                 ('BaseTimeParser.parse_basic_regex_match', T.base_time.BaseTimeParser.parse_basic_regex_match),
                 ('EnglishTimeParserConfiguration.adjust_by_prefix', en_cfg.adjust_by_prefix),
                 ('EnglishTimeParserConfiguration.adjust_by_suffix', en_cfg.adjust_by_suffix),
                 ('BaseDateTimeParser.merge_date_and_time', T.base_datetime.BaseDateTimeParser.merge_date_and_time),
                 ('DateTimeFormatUtil.to_pm', U.DateTimeFormatUtil.to_pm),
                 ('DateTimeFormatUtil.all_str_to_pm', U.DateTimeFormatUtil.all_str_to_pm),
                 ('DateTimeFormatUtil.short_time', U.DateTimeFormatUtil.short_time),
                 ('DateTimeFormatUtil.luis_time', U.DateTimeFormatUtil.luis_time),
                 ('DateTimeFormatUtil.format_time', U.DateTimeFormatUtil.format_time)],
        'date': [('BaseDateParser.match_to_date', T.base_date.BaseDateParser.match_to_date),
                 ('DateUtils.generate_dates', U.DateUtils.generate_dates),
                 ('DateUtils.safe_create_from_value', U.DateUtils.safe_create_from_value),
                 ('DateUtils.is_valid_date', U.DateUtils.is_valid_date),
                 ('DateTimeFormatUtil.luis_date', U.DateTimeFormatUtil.luis_date),
                 ('DateTimeFormatUtil.format_date', U.DateTimeFormatUtil.format_date)],
        'merged': [('BaseMergedParser._date_time_resolution', T.base_merged.BaseMergedParser._date_time_resolution),
                   ('BaseMergedParser._generate_from_resolution', T.base_merged.BaseMergedParser._generate_from_resolution),
                   ('BaseMergedParser._resolve_ampm', T.base_merged.BaseMergedParser._resolve_ampm)],
    }
    out = {}
    for group in which:
        for name, fn in table[group]:
            try:
                src = textwrap.dedent(inspect.getsource(fn))
                out[name] = hashlib.sha256(ast.dump(ast.parse(src)).encode()).hexdigest()[:12]
            except Exception as e:
                out[name] = 'unavailable: %s' % type(e).__name__
    return out


def plain_time_fields(hour='', minute='', sec='', desc=None, pfx='', sfx=''):
    """Model inputs of a digit clock time with a plain description (am / pm / none), no prefix / suffix regex
    outcome: used for model predictions at pipeline level."""
    vals = {'hour': hour, 'min': minute, 'sec': sec}
    fields = [cps(vals.get(n, '')) for n in TIME_GROUPS]
    fields += [b(desc == 'am'), '0', b(desc == 'pm'), '-', '-', cps(pfx), cps(sfx), '0', '-', '-', '-', '0', '-', '-', '-', '0', '0']
    return fields


# ---------------------------------------------------------------- pipeline pool

_TREE = None


def _worker_init():
    global _TREE
    import warnings
    warnings.simplefilter('ignore')
    _TREE = Tree()


def _worker_run(chunk):
    from . import dtpipe
    out, sw = [], []
    for culture, query, ref in chunk:
        model = _TREE.model(culture)
        rec = dtpipe.instrument(model)     # notes what DateTimeModel.parse's `except Exception: pass` swallows
        del rec[:]
        try:
            rs = model.parse(query, datetime.datetime(*ref))
            out.append([(r.start, r.end, r.text, r.type_name, values_str(r.resolution), r.resolution) for r in rs])
        except Exception as e:  # the public API raising is itself observable
            out.append('raised %s: %s' % (type(e).__name__, e))
        sw.append(list(rec[0]) if rec else None)
    return out, sw


def run_queries(cases, nproc=None, chunk=120):
    """cases: [(culture, query, (y,m,d,h,mi,s))] -> per case a list of (start, end, text, type, values_str, resolution)
    or a string 'raised …'.  Whether `DateTimeModel.parse` swallowed an exception on a case is recorded on the side
    (`dtpipe.LAST_SWALLOWED`, `dtpipe.swallowed_summary()`). A culture's cases are cut into few, even chunks (about `chunk` queries each, at most one
    per process) so that a process builds few models (building one costs 1-5 s)."""
    nproc = nproc or min(16, os.cpu_count() or 4)
    by = {}
    for i, c in enumerate(cases):
        by.setdefault(c[0], []).append(i)
    chunks = []
    for culture in sorted(by, key=lambda c: -len(by[c])):
        idx = by[culture]
        n = min(nproc, max(1, len(idx) // chunk))
        size = -(-len(idx) // n)
        for k in range(0, len(idx), size):
            chunks.append(idx[k:k + size])
    ctx = multiprocessing.get_context('fork')
    with ctx.Pool(nproc, initializer=_worker_init) as pool:
        res = pool.map(_worker_run, [[cases[i] for i in ch] for ch in chunks], chunksize=1)
    out = [None] * len(cases)
    sw = [None] * len(cases)
    for ch, (rr, ss) in zip(chunks, res):
        for i, r, s in zip(ch, rr, ss):
            out[i], sw[i] = r, s
    # swallowed exceptions: kept next to dtpipe's (dtpipe.LAST_SWALLOWED is aligned with `cases`; dtpipe.swallowed_summary()
    # is what a check puts into its evidence)
    from . import dtpipe
    dtpipe._note([(c, q, datetime.datetime(*r)) for c, q, r in cases], sw)
    return out
