"""Unit correspondence of RTV.Model.Durations (Lean driver ops `du.*`, `ds.*`) against the real methods of
BaseDurationParser and BaseSetParser, for every culture whose date-time model is built on these two classes
(English, Spanish, French, Portuguese, ... — the parser is shared, the tables and regexes differ).

The model takes the regex outcomes as inputs.  Here the *front* of every text is computed by running the SAME
configuration regexes / extractor / number parser the method runs (never read from the method's result), the real method is
called on the text, and the model is asked for its answer on that front:

  du.fdec / du.repr / du.mul   the software binary64 against CPython (`float(Decimal)`, `repr`, `float_or_int(x * k)`)
  du.space / du.comb / du.an / du.inexact / du.regex   parse_number_space_unit, parse_number_combined_unit, parse_an_unit,
                               parse_in_exact_number_unit, get_result_from_regex (all / half / bare unit)
  du.parse                     BaseDurationParser.parse on an ExtractResult (path order, resolution strings)
  ds.eachunit / ds.eachdur / ds.everyday / ds.each / set-parse   the sub-parsers of BaseSetParser and `parse`

Texts: boundary-first grid N ∈ {0, 1, 1000, 1001, halves, quarters, awkward decimals, 16+ digit integers} × EVERY spelling of
the culture's unit_map × {"N unit", "Nunit", "N-unit", suffix forms}, article / half / all / inexact forms, every
Duration / Set input of the culture's Specs, and seeded random amounts.

Property oracles (C10) on what the real parser returned — `timex-shape`: a successful duration's TIMEX is
`P[T]<amount><first letter of a Y/MON/W/D/H/M/S code>` for the unit the text names and its value is amount × the unit's
seconds (exact rational comparison, for every amount with at most 15 significant digits).
Used by corr/c10.py: `unit(ctx)`."""
import math
from decimal import Decimal
from fractions import Fraction

from . import common
from .common import cps

BASIC = ('Y', 'MON', 'W', 'D', 'H', 'M', 'S')
SECS = {'Y': 31536000, 'MON': 2592000, 'W': 604800, 'D': 86400, 'H': 3600, 'M': 60, 'S': 1}
SECS_WE = dict(SECS, WE=172800)   # a weekend (two-letter TIMEX unit `WE`) is two days
# suffix phrases per language family ("and a half"); whether one matches is decided by the culture's own suffix_and_regex
SUFFIXES = [' and a half', ' and a quarter', ' and half', ' y medio', ' y media', ' y cuarto', ' et demi', ' et demie',
            ' e meia', ' e meio', ' e mezzo', ' e mezza', ' und ein halb', ' en een half']
ARTICLES = ['a', 'an', 'another', 'half a', 'half an', 'half', '1/2', 'un', 'una', 'medio', 'media', 'une', 'um', 'uma', 'meia',
            'ein', 'eine', 'een', 'all', 'whole', 'full', 'todo el', 'toda la', 'tout le', 'toute la', 'few', 'a few', 'some',
            'several', 'a couple of', 'unos', 'unas', 'algunos', 'quelques', 'alguns', 'the']
GRID_QUICK = ['3', '0', '1', '1000', '1001', '2.5', '1.15', '0.14']
GRID_MORE = ['2', '5000', '0.5', '1.5', '1.25', '0.1', '4.35', '1000.5', '999.99', '1000.000001', '123456789012345',
             '9007199254740993', '12345678901234567', '0.00001', '3.', '1,000', '1,001', '1e3', '100000000000000000000']


def opt(s):
    return 'none' if s is None else cps(s)


def show(r):
    return 'ok\t%s\t%s' % (cps(r.timex), r.future_value) if r.success else 'fail'


def guarded(fn):
    try:
        return fn()
    except (KeyError, IndexError, ValueError, OverflowError, TypeError):
        return 'err:Other'


class Culture:
    """One culture's parser objects + the configuration fields of the driver ops."""

    def __init__(self, cul, dp, sp):
        self.cul, self.dp, self.sp = cul, dp, sp
        cfg = dp.config
        um, uv = cfg.unit_map, cfg.unit_value_map
        extra = [k for k in um if not (k in uv and um[k] in BASIC)]
        self.extra = ';'.join('%s|%s|%s' % (cps(k), cps(um[k]), uv[k] if k in uv else 'none') for k in extra) or 'none'
        dn = cfg.double_numbers or {}
        self.dn = ';'.join('%s|%d|%d' % ((cps(k),) + float(v).as_integer_ratio()) for k, v in dn.items()) or 'none'
        self.variant = '000'
        self.ok = all(isinstance(v, int) and v >= 0 for v in uv.values()) and all(float(v) >= 0 for v in dn.values())


def cultures():
    from . import recog
    from recognizers_date_time.date_time.base_duration import BaseDurationParser
    from recognizers_date_time.date_time.base_set import BaseSetParser
    out, seen = [], set()
    for (rec, mt, cul) in recog.all_pairs():
        if rec != 'DateTime' or cul in seen:
            continue
        pc = recog.get_model(rec, mt, cul).parser.config
        dp = getattr(pc, 'duration_parser', None)
        sp = getattr(pc, 'set_parser', None)
        if type(dp) is BaseDurationParser and getattr(dp.config, 'unit_map', None):
            seen.add(cul)
            out.append(Culture(cul, dp, sp if type(sp) is BaseSetParser else None))
    return out


def dec_fields(v):
    """pr.value -> (neg, coeff, exp) fields of the driver, or None if it is not a finite number"""
    if isinstance(v, bool) or v is None:
        return None
    if isinstance(v, float):
        if not math.isfinite(v):
            return None
        v = Decimal(v)
    if isinstance(v, int):
        v = Decimal(v)
    if not isinstance(v, Decimal) or not v.is_finite():
        return None
    sign, digs, exp = v.as_tuple()
    return '%d\t%d\t%d' % (sign, int(''.join(map(str, digs)) or '0'), exp)


def grp(m, name):
    """RegExpUtility.get_group: '' when the group is absent or did not take part"""
    from recognizers_text.utilities import RegExpUtility
    return RegExpUtility.get_group(m, name)


def cfg3(C):
    return '%s/%s\t%s\t%s' % (cps(C.cul), C.variant, C.extra, C.dn)


def probe_variant(ctx, CS):
    """Which variant of the two repaired computations does the tree follow?  Fixed probe inputs on the English parser:
    '3 decades' (TIMEX built with unit[0] -> 'P31', with _duration_timex -> 'P30Y'), '1.15 days' (float product ->
    99359.99999999999, exact product -> 99360).  The model is asked for the variant the tree shows; anything else is a break."""
    en = [C for C in CS if C.cul == 'en-us']
    u = v = '0'
    if en:
        dp = en[0].dp
        a = guarded(lambda: dp.parse_number_space_unit('3 decades').timex)
        b = guarded(lambda: repr(dp.parse_number_space_unit('1.15 days').future_value))
        if a == 'P30Y':
            u = '1'
        elif a != 'P31':
            ctx.report('correspondence', 'durations-variant-probe', "parse_number_space_unit('3 decades').timex = %r: neither variant" % (a,),
                       failing_input={'culture': 'en-us', 'query': '3 decades', 'timex': a})
        if b == '99360':
            v = '1'
        elif b != '99359.99999999999':
            ctx.report('correspondence', 'durations-variant-probe', "parse_number_space_unit('1.15 days').future_value = %s: neither variant" % (b,),
                       failing_input={'culture': 'en-us', 'query': '1.15 days', 'value': b})
        w = '0'
        if u == '1':
            # follow-up: the multiple of a prefixed code is an exact decimal product (0.14 decades -> P1.4Y), not num * k
            c = guarded(lambda: dp.parse_number_space_unit('0.14 decades').timex)
            if c == 'P1.4Y':
                w = '1'
            elif c != 'P1.4000000000000001Y':
                ctx.report('correspondence', 'durations-variant-probe', "parse_number_space_unit('0.14 decades').timex = %r: neither variant" % (c,),
                           failing_input={'culture': 'en-us', 'query': '0.14 decades', 'timex': c})
    else:
        w = '0'
    for C in CS:
        C.variant = u + v + w
    ctx.extra['duration_variant'] = {'unit_code_fix': u == '1', 'value_fix': v == '1', 'unit_code_exact_multiple': w == '1'}


class FrontEnd:
    """The regex outcomes of one (already stripped, lower-cased) text, computed the way the methods compute them."""

    def __init__(self, C, source):
        import regex
        cfg = C.dp.config
        self.source = source
        ers = cfg.cardinal_extractor.extract(source)
        self.ers_count = len(ers)
        self.dec = '0\t0\t0'
        self.value = None
        self.fu = self.fu_suf = None
        self.usable = True
        if len(ers) == 1:
            pr = cfg.number_parser.parse(ers[0])
            d = dec_fields(pr.value)
            if d is None:
                self.usable = False
            else:
                self.dec = d
                self.value = pr.value
            no_num = source[pr.start + pr.length:].strip().lower()
            m = regex.search(cfg.followed_unit, no_num)
            suffix = source
            if m is not None:
                suffix = grp(m, 'suffix')
                self.fu = grp(m, 'unit')
            ms = regex.search(cfg.suffix_and_regex, suffix)
            self.fu_suf = None if ms is None else (ms.group('suffix_num') or '')
        ms = regex.search(cfg.suffix_and_regex, source)
        self.src_suf = None if ms is None else (ms.group('suffix_num') or '')
        m = regex.search(cfg.number_combined_with_unit, source)
        self.comb = None if m is None else (m.group('num'), m.group('unit') or '')
        m = regex.search(cfg.an_unit_regex, source)
        if m is None:
            m = regex.search(cfg.half_date_unit_regex, source)
        self.an_raises = False
        try:
            self.an = None if m is None else (1 if m.group('half') else 0, m.group('unit') or '')
        except IndexError:
            # es / pt: an_unit_regex has no `half` group, `match.group('half')` raises "no such group" in parse_an_unit
            self.an, self.an_raises = None, True
        m = regex.search(cfg.inexact_number_unit_regex, source)
        self.inexact = None if m is None else (m.group('unit') or '')
        m = regex.search(cfg.all_date_unit_regex, source)
        self.all_unit = None if m is None else (m.group('unit') or '')
        m = regex.search(cfg.half_date_unit_regex, source)
        self.half_unit = None if m is None else (m.group('unit') or '')
        m = regex.search(cfg.followed_unit, source)
        self.fu_whole = None if m is None else (m.group('unit') or '')

    def parse_fields(self):
        cn, cu = ('none', 'none') if self.comb is None else (cps(self.comb[0]), cps(self.comb[1]))
        ah, au = ('none', 'none') if self.an is None else (str(self.an[0]), cps(self.an[1]))
        return '\t'.join([str(self.ers_count), self.dec, opt(self.fu), opt(self.fu_suf), cn, cu, ah, au, opt(self.inexact),
                          opt(self.src_suf), opt(self.all_unit), opt(self.half_unit), opt(self.fu_whole)])


def amount_of(timex):
    """'P[T]<amount><letter>' -> (has_T, Fraction amount, letter) or None"""
    import re
    m = re.fullmatch(r'P(T?)(-?\d+(?:\.\d+)?(?:e[+-]\d+)?)([A-Z]+)', timex)
    if not m:
        return None
    return (m.group(1) == 'T', Fraction(Decimal(m.group(2))), m.group(3))


def value_agrees(value, exact):
    """the printed value equals the exact product — or, beyond 2^53 where a fractional amount's product has no exact binary64,
    it is that product rounded once (relative error at most 2^-53)"""
    v = Fraction(Decimal(str(value)))
    return v == exact or (exact >= 2 ** 53 and abs(v - exact) * 2 ** 53 <= exact)


def texts_for(C, ctx, r):
    um = C.dp.config.unit_map
    spellings = list(um)
    grid = GRID_QUICK + (GRID_MORE if ctx.thorough else [])
    out = []
    for i, sp in enumerate(spellings):
        ns = list(grid)
        if not ctx.thorough:
            ns.append(GRID_MORE[(i * 5 + len(sp)) % len(GRID_MORE)])
            ns.append(GRID_MORE[(i * 7 + 3) % len(GRID_MORE)])
        ns.append(str(r.choice([r.randint(0, 5000), round(r.uniform(0, 3000), r.randint(1, 4)), r.randint(0, 4000) + r.choice([0.5, 0.25, 0.75])])))
        for n in ns:
            out.append('%s %s' % (n, sp))
        for n in ns[:4] + ns[-2:]:
            out.append('%s%s' % (n, sp))
        out.append('%s-%s' % (ns[i % len(ns)], sp))
        for sx in SUFFIXES[(i % 2)::2] if not ctx.thorough else SUFFIXES:
            out.append('%s %s%s' % (ns[(i + len(sx)) % len(ns)], sp, sx))
        out.append('2%s %s' % (SUFFIXES[i % len(SUFFIXES)], sp))
        for a in (ARTICLES if ctx.thorough or i % 3 == 0 else ARTICLES[(i % 5)::5]):
            out.append('%s %s' % (a, sp))
        out.append('a %s and a half' % sp)
        out.append(sp)
        out.append('1 %s 30 %s' % (sp, spellings[(i + 7) % len(spellings)]))
    return out


def spec_texts(entities):
    from . import specs
    out = {}
    for c in specs.iter_cases():
        if c['recognizer'] == 'DateTime' and (c['model'], c['entity']) in entities and c['input']:
            out.setdefault(c['culture'], []).append(c['input'])
    return out


def unit(ctx):
    common.setup_repo_imports()
    import recognizers_date_time
    common.assert_tree_modules(recognizers_date_time)
    from recognizers_text.extractor import ExtractResult
    from recognizers_text.utilities import QueryProcessor
    from recognizers_date_time.date_time.constants import Constants
    import datetime
    REF = datetime.datetime(2019, 6, 12, 10, 0, 0)
    r = ctx.rng('durations')
    lines, expect, descs, kinds = [], [], [], []

    def add(line, impl, desc):
        lines.append(line)
        expect.append(impl)
        descs.append(desc)

    # ------------------------------------------------------------- the number tower against CPython
    xs = [0.5, 0.25, 0.75, 1.5, 2.5, 0.1, 1.15, 4.35, 99359.99999999999, 1e-5, 1e-4, 1e16, 1e15 + 0.5, 2.0 ** 49 + 0.25,
          2.0 ** 52 + 0.5, 5e-324, 2.2250738585072014e-308, 1.7976931348623157e308, 2.0 ** -20, 1e22, 1e23, 0.3, 2 / 3]
    import struct
    for _ in range(4000 if ctx.thorough else 700):
        k = r.random()
        if k < 0.25:
            x = struct.unpack('d', struct.pack('Q', r.getrandbits(63)))[0]
        elif k < 0.6:
            x = round(r.uniform(0, 5000), r.randint(0, 6))
        elif k < 0.8:
            x = r.randint(0, 4000) + r.choice([0.5, 0.25, 0.75, 0.125])
        else:
            x = r.uniform(0, 1) * 10 ** r.randint(-12, 20)
        if math.isfinite(x):
            xs.append(x)
    for x in xs:
        a, b = x.as_integer_ratio()
        add('du.repr\t0\t%d\t%d' % (a, b), cps(repr(x)), 'repr(%r)' % x)
        k = r.choice([1, 60, 3600, 86400, 604800, 2592000, 31536000, 315360000])
        if 0 < x < 1e290:
            add('du.mul\t0\t%d\t%d\t%d' % (a, b, k),
                guarded(lambda: str(QueryProcessor.float_or_int(QueryProcessor.float_or_int(x) * k))), 'float_or_int(%r * %d)' % (x, k))

            def exact():
                n = QueryProcessor.float_or_int(x)
                return str(QueryProcessor.float_or_int(float(Fraction(repr(n)) * k) if isinstance(n, float) else n * k))
            add('du.mulx\t0\t%d\t%d\t%d' % (a, b, k), guarded(exact), 'float_or_int(float(Fraction(repr(%r)) * %d))' % (x, k))
    for _ in range(3000 if ctx.thorough else 500):
        c = r.randint(0, 10 ** r.randint(1, 17))
        e = r.randint(-20, 8) if r.random() < 0.9 else r.randint(-340, 300)
        f = float(Decimal((0, tuple(int(ch) for ch in str(c)), e)))
        add('du.fdec\t0\t%d\t%d' % (c, e), '%d/%d' % f.as_integer_ratio() if math.isfinite(f) else 'err:Other', 'float(Decimal(%de%d))' % (c, e))

    # ------------------------------------------------------------- the parser paths, culture by culture
    CS = [C for C in cultures()]
    probe_variant(ctx, CS)
    ctx.extra['duration_cultures'] = [C.cul for C in CS]
    dur_specs = spec_texts({('Duration', 'Parser'), ('Duration', 'Extractor')})
    set_specs = spec_texts({('Set', 'Parser'), ('Set', 'Extractor')})
    oracle = []   # (culture, text, method, result) of successful real results, judged below
    for C in CS:
        if not C.ok:
            ctx.report('correspondence', 'durations-config:' + C.cul, 'unit_value_map / double_numbers of %s hold values the model has no type for' % C.cul)
            continue
        dp, cfg = C.dp, C.dp.config
        texts = texts_for(C, ctx, r) + [t for t in dur_specs.get(C.cul, [])]
        seen = set()
        for t in texts:
            s = t.strip().lower()
            if s in seen:
                continue
            seen.add(s)
            F = FrontEnd(C, s)
            if not F.usable:
                continue
            ctx.count('duration texts %s' % C.cul)
            tag = '%s %r' % (C.cul, s)
            res = {}

            def call(name, fn):
                try:
                    x = fn()
                    res[name] = x
                    return show(x)
                except (KeyError, IndexError, ValueError, OverflowError, TypeError):
                    return 'err:Other'
            add('du.space\t%s\t%d\t%s\t%s\t%s' % (cfg3(C), F.ers_count, F.dec, opt(F.fu), opt(F.fu_suf)),
                call('space', lambda: dp.parse_number_space_unit(s)), 'parse_number_space_unit ' + tag)
            cn, cu = ('none', 'none') if F.comb is None else (cps(F.comb[0]), cps(F.comb[1]))
            add('du.comb\t%s\t%s\t%s\t%s' % (cfg3(C), cn, cu, opt(F.src_suf)),
                call('comb', lambda: dp.parse_number_combined_unit(s)), 'parse_number_combined_unit ' + tag)
            ah, au = ('none', 'none') if F.an is None else (str(F.an[0]), cps(F.an[1]))
            if F.an_raises:
                ctx.count('parse_an_unit: pattern without a `half` group (IndexError, not modelled) %s' % C.cul)
            else:
                add('du.an\t%s\t%s\t%s\t%s' % (cfg3(C), ah, au, opt(F.src_suf)),
                    call('an', lambda: dp.parse_an_unit(s)), 'parse_an_unit ' + tag)
            add('du.inexact\t%s\t%s' % (cfg3(C), opt(F.inexact)),
                call('inexact', lambda: dp.parse_in_exact_number_unit(s)), 'parse_in_exact_number_unit ' + tag)
            add('du.regex\t%s\t%s\t0' % (cfg3(C), opt(F.all_unit)),
                call('all', lambda: dp.get_result_from_regex(cfg.all_date_unit_regex, s, 1)), 'get_result_from_regex(all) ' + tag)
            add('du.regex\t%s\t%s\t1' % (cfg3(C), opt(F.half_unit)),
                call('half', lambda: dp.get_result_from_regex(cfg.half_date_unit_regex, s, 0.5)), 'get_result_from_regex(half) ' + tag)
            add('du.regex\t%s\t%s\t0' % (cfg3(C), opt(F.fu_whole)),
                call('bare', lambda: dp.get_result_from_regex(cfg.followed_unit, s, 1)), 'get_result_from_regex(unit) ' + tag)

            def whole():
                er = ExtractResult()
                er.start, er.length, er.text, er.type = 0, len(s), s, Constants.SYS_DATETIME_DURATION
                pr = dp.parse(er, REF)
                v = pr.value
                return '%s\t%s' % (cps(pr.timex_str), v.future_resolution.get('duration', 'none') if v is not None and v.success else 'none')
            if not F.an_raises:
                add('du.parse\t%s\t%s' % (cfg3(C), F.parse_fields()), guarded(whole), 'parse ' + tag)
            for name, x in res.items():
                if x.success:
                    ctx.nontriv(('duration', C.cul, name, s))
                    oracle.append((C, s, name, F, x))

        # ------------------------------------------------------------- set parser
        if C.sp is None:
            continue
        set_unit(ctx, C, set_specs.get(C.cul, []), add, REF)

    model = common.driver(lines)
    hist, shown = {}, {}
    for l, d, a, b in zip(lines, descs, expect, model):
        op = l.split('\t')[0]
        hist[op] = hist.get(op, 0) + 1
        if a != b:
            shown[op] = shown.get(op, 0) + 1
            if shown[op] <= 3:
                ctx.report('correspondence', 'durations-' + op, '%s: implementation %s, model %s' % (d, a, b),
                           failing_input={'op': l, 'call': d, 'implementation': a, 'model': b})
    for op, n in hist.items():
        ctx.count('BaseDurationParser/BaseSetParser:' + op, n)
    if lines:
        ctx.sample({'op': lines[-1], 'call': descs[-1], 'implementation': expect[-1]})

    # ------------------------------------------------------------- property oracle on the real results (C10)
    judge(ctx, oracle)
    return lines, expect, model


def judge(ctx, oracle):
    """C10 on what the real parser returned: the TIMEX names the amount and the unit of the text, the value is
    amount × seconds(unit).  Only amounts with at most 15 significant digits are judged (beyond, the number parser itself
    rounds: C03), and only the path whose unit is known by construction."""
    reported = set()
    for (C, s, name, F, x) in oracle:
        um, uv = C.dp.config.unit_map, C.dp.config.unit_value_map
        unit = {'space': F.fu, 'comb': F.comb and F.comb[1], 'an': F.an and F.an[1], 'inexact': F.inexact, 'all': F.all_unit,
                'half': F.half_unit, 'bare': F.fu_whole}[name]
        code = um.get(unit)
        if code is None:
            continue
        ctx.count('oracle: duration results judged')
        a = amount_of(x.timex)
        why = None
        if code not in BASIC:
            # decade / fortnight / weekend / ...: whatever the TIMEX says must still denote the value
            sig = 'duration-unit-code:%s' % code
            tcode = None if a is None else ('MON' if (a[2] == 'M' and not a[0]) else a[2])
            if a is None or tcode not in SECS_WE or a[0] != (tcode in ('H', 'M', 'S')):
                why = 'unit code %r: TIMEX %r is not P[T]<amount><U>' % (code, x.timex)
            elif not value_agrees(x.future_value, a[1] * SECS_WE[tcode]):
                exact = a[1] * SECS_WE[tcode]
                why = 'unit code %r: TIMEX %r denotes %s s, the value is %r' % (code, x.timex, exact, x.future_value)
                if exact and abs(Fraction(Decimal(str(x.future_value))) - exact) < exact / 10 ** 9:
                    # TIMEX and value differ by float rounding only: which of the two carries the noise?  When the amount
                    # is known by construction the answer is exact; otherwise the one printed with 16+ digits.
                    amt = None
                    if name == 'space' and F.value is not None and F.fu_suf is None:
                        amt = Fraction(Decimal(F.value))
                    elif name == 'comb' and F.src_suf is None:
                        amt = Fraction(Decimal(F.comb[0].rstrip('.')))
                    value_ok = (Fraction(Decimal(str(x.future_value))) == amt * int(uv[unit])) if amt is not None else \
                        len(str(x.future_value).replace('.', '').lstrip('0')) < 16
                    if value_ok:
                        sig = 'duration-timex-multiplied-float'   # _duration_timex multiplied the amount as a binary float
                        why = 'unit code %r: TIMEX %r carries float noise (amount × prefix computed in binary), the value %r is exact' % (
                            code, x.timex, x.future_value)
                    else:
                        sig = 'duration-value-float'   # the TIMEX is right, the value is off by float rounding only
        else:
            sig = 'duration-timex:%s:%s' % (C.cul, code)
            if a is None:
                why = 'TIMEX %r is not P[T]<amount><U>' % x.timex
                if 'e' in x.timex:
                    sig = 'duration-timex-exponent'
            elif a[0] != (code in ('H', 'M', 'S')) or a[2] != code[0]:
                why = 'TIMEX %r does not carry the unit %s' % (x.timex, code)
            elif name == 'space' and F.value is not None and F.fu_suf is None and len(Decimal(F.value).normalize().as_tuple().digits) <= 15 \
                    and a[1] != Fraction(Decimal(F.value)):
                why = 'TIMEX %r does not carry the amount %s' % (x.timex, F.value)
            elif not value_agrees(x.future_value, a[1] * int(uv[unit])) and len(str(a[1].numerator)) <= 15:
                sig = 'duration-value-float'
                why = 'value %r is not %s × %d' % (x.future_value, a[1], uv[unit])
        if why and sig not in reported:
            reported.add(sig)
            try:   # the same text through the whole pipeline
                from recognizers_date_time import recognize_datetime
                import datetime
                pipe = [(e.text, e.type_name, e.resolution) for e in recognize_datetime(s, C.cul, reference=datetime.datetime(2019, 6, 12, 10, 0, 0))]
            except Exception as e:
                pipe = 'raises %s' % type(e).__name__
            ctx.report('property', sig, '%s %r (%s): %s' % (C.cul, s, name, why),
                       failing_input={'culture': C.cul, 'query': s, 'method': name, 'timex': x.timex, 'value': str(x.future_value),
                                      'recognize_datetime': pipe},
                       property_fails=True)


# ---------------------------------------------------------------- BaseSetParser

SET_TEXTS = ['daily', 'weekly', 'biweekly', 'monthly', 'quarterly', 'yearly', 'annually', 'annual', 'each day', 'every day',
             'every week', 'every other week', 'every month', 'each year', 'every other day', 'every other month', 'every 2 weeks',
             'every two days', 'every 3 hours', 'every 1.5 hours', 'every half hour', 'every 1 hour 30 minutes', 'every monday',
             'each monday', 'mondays', 'every morning', 'every day at 9am', '9am every day', 'every monday at 9am', 'every few days',
             'every decade', 'each weekend', 'every weekday', 'every quarter', 'each hour', 'every minute', 'weekly daily',
             'cada dia', 'cada semana', 'cada mes', 'diariamente', 'semanalmente', 'mensualmente', 'anualmente', 'cada 2 semanas',
             'todos los dias', 'cada lunes', 'chaque jour', 'chaque semaine', 'chaque mois', 'quotidien', 'hebdomadaire', 'mensuel',
             'annuel', 'tous les jours', 'toutes les 2 semaines', 'chaque lundi', 'todo dia', 'toda semana', 'diariamente',
             'mensalmente', 'cada 2 semanas', 'ogni giorno', 'ogni settimana', 'jeden tag', 'jede woche', 'täglich', 'wöchentlich',
             'elke dag', 'elke week', 'dagelijks', 'wekelijks']


def set_show(r):
    return '%d\t%s\t%s\t%s' % (1 if r.success else 0, cps(r.timex or ''), cps(r.future_value or ''), cps(r.past_value or ''))


def set_unit(ctx, C, spec_inputs, add, REF):
    import regex
    from recognizers_text.extractor import ExtractResult
    from recognizers_text.utilities import RegExpUtility
    from recognizers_date_time.date_time.constants import Constants
    sp, cfg = C.sp, C.sp.config
    seen = set()
    for t in SET_TEXTS + spec_inputs:
        s = t    # parse() does not strip or lower-case
        if s in seen:
            continue
        seen.add(s)
        ctx.count('set texts %s' % C.cul)
        tag = '%s %r' % (C.cul, s)
        # ---- parse_each_unit
        m = regex.match(cfg.periodic_regex, s)
        if m:
            mt = cfg.get_matched_daily_timex(s)
            periodic = cps(mt.timex) if mt.matched else 'nomatch'
        else:
            periodic = 'none'
        m = regex.match(cfg.each_unit_regex, s)
        each = 'none'
        if m:
            u = RegExpUtility.get_group(m, Constants.UNIT)
            ut = cfg.get_matched_unit_timex(u) if u else None
            each = '%d|%s|%d|%s|%d' % (1 if len(m.group()) == len(s) else 0, cps(u), 1 if u in cfg.unit_map else 0,
                                       cps(ut.timex) if ut is not None and ut.matched else 'nomatch',
                                       1 if RegExpUtility.get_group(m, Constants.OTHER) else 0)
        a = guarded(lambda: set_show(sp.parse_each_unit(s)))
        add('ds.eachunit\t%s\t%s' % (periodic, each), a, 'parse_each_unit ' + tag)
        if a.startswith('1'):
            ctx.nontriv(('set', C.cul, 'eachunit', s))
        # ---- parse_each_duration
        try:
            ers = cfg.duration_extractor.extract(s, REF)
            after_empty = len(ers) == 1 and not s[ers[0].start + ers[0].length:]
            pm = len(ers) == 1 and bool(regex.match(cfg.each_prefix_regex, s[0:ers[0].start]))
            dt = cfg.duration_parser.parse(ers[0], REF).timex_str if len(ers) == 1 else ''
            a = guarded(lambda: set_show(sp.parse_each_duration(s, REF)))
            add('ds.eachdur\t%d\t%d\t%d\t%s' % (len(ers), 1 if after_empty else 0, 1 if pm else 0, cps(dt)), a, 'parse_each_duration ' + tag)
            if a.startswith('1'):
                ctx.nontriv(('set', C.cul, 'eachdur', s))
        except (KeyError, IndexError, ValueError, TypeError, AttributeError):
            pass
        # ---- parser_time_everyday
        try:
            ers = cfg.time_extractor.extract(s, REF)
            em = len(ers) == 1 and bool(regex.match(cfg.each_day_regex, s.replace(ers[0].text, '')))
            tt = cfg.time_parser.parse(ers[0], REF).timex_str if len(ers) == 1 else ''
            a = guarded(lambda: set_show(sp.parser_time_everyday(s, REF)))
            add('ds.everyday\t%d\t%d\t%s' % (len(ers), 1 if em else 0, cps(tt)), a, 'parser_time_everyday ' + tag)
            if a.startswith('1'):
                ctx.nontriv(('set', C.cul, 'everyday', s))
        except (KeyError, IndexError, ValueError, TypeError, AttributeError):
            pass
        # ---- parse_each with the date extractor / parser
        try:
            ex, pa = cfg.date_extractor, cfg.date_parser

            def side(m, trimmed):
                if not m:
                    return 'none'
                er = ex.extract(trimmed, REF)
                tx = pa.parse(er[0]).timex_str if er else ''
                return '%d|%d|%s' % (len(er), 1 if er and er[0].length == len(trimmed) else 0, cps(tx))
            m1 = regex.search(cfg.set_each_regex, s)
            f1 = side(m1, s[0:m1.start()] + s[m1.end():] if m1 else '')
            m2 = regex.search(cfg.set_week_day_regex, s)
            f2 = side(m2, s[0:m2.start()] + RegExpUtility.get_group(m2, Constants.WEEKDAY_GROUP_NAME) + s[m2.end():] if m2 else '')
            a = guarded(lambda: set_show(sp.parse_each(ex, pa, s, REF)))
            add('ds.each\t%s\t%s' % (f1, f2), a, 'parse_each(date) ' + tag)
            if a.startswith('1'):
                ctx.nontriv(('set', C.cul, 'each', s))
        except (KeyError, IndexError, ValueError, TypeError, AttributeError):
            pass
        # ---- parse: value strings are 'Set: ' + timex, whichever sub-parser fired
        try:
            er = ExtractResult()
            er.start, er.length, er.text, er.type = 0, len(s), s, Constants.SYS_DATETIME_SET
            pr = sp.parse(er, REF)
            if pr.value is not None and pr.value.success:
                v = pr.value
                ctx.count('oracle: set results judged')
                if not (v.future_value == v.past_value == 'Set: ' + (pr.timex_str or '') and v.future_resolution.get('set') == v.future_value):
                    ctx.report('property', 'set-value:%s' % C.cul, '%s %r: timex %r, future %r, past %r' % (
                        C.cul, s, pr.timex_str, v.future_value, v.past_value),
                        failing_input={'culture': C.cul, 'text': s}, property_fails=True)
        except (KeyError, IndexError, ValueError, TypeError, AttributeError):
            pass
