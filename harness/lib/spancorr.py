"""Correspondence shared by C01 (spans point at their text) and C12 (entities of one call never overlap):
query generation, the pipeline run, classification of failures, the unit-level comparison with the Lean driver.

Both checks call `run(ctx, prop)`; each evaluates its own predicate on the same kind of run (nothing is cached
between runs)."""
import hashlib
import os
import re
import subprocess
import sys
import json

from . import common, specs, spanpipe, spanunit
from .common import cps

LIMITS = {
    # recognizer: (generated+noise per pair quick, thorough)
    'Number': (450, 2500), 'Sequence': (450, 2500), 'Choice': (450, 2500),
    'NumberWithUnit': (70, 400), 'DateTime': (90, 500),
}
UNIT_LIMITS = {'Number': (2500, 12000), 'Sequence': (1500, 6000), 'Choice': (0, 0),
               'NumberWithUnit': (500, 2500), 'DateTime': (420, 2400)}

EXPANDING = 'İ'
NOISE_EXTRA = ['İ', 'İİ', '٤', '٤٢', '１２', '３％', '５，０００', 'ß', 'ǅ', 'ΑΣ', 'Σ', 'ﬁ', '四十二', '十二月', '３時', '２０１９年',
               'K', 'KB', 'mb', '::', '::1', '1.2.3.4', '@a', '#b', 'a@b.co', 'www.a.com', '-', '--', '%', '$', '€',
               ',', '.', ':', '/', '(', ')', '  ', '\t', ' ', 'minus', 'negative', 'before', 'after', 'since',
               'between', 'and', 'to', 'from', 'until', 'or later', 'half', 'a', 'last', 'next', 'this']
UNIVERSAL = {
    'Number': ['0', '7', '42', '1000', '1,234', '3.5', '-8', '1/2', '3/4', '50%', '12.5 %', '1e3', '1st', '2nd', '23rd',
               '1.000,5', '999999', '1 000', '0.5', '10^3'],
    'NumberWithUnit': ['5 km', '20 $', '$20', '30 kg', '25 °c', '10 m', '3 l', '15 €', '€15', '2 cm', '7 mb', '8 KB',
                       '100 usd', '12 years old', '30 f'],
    'DateTime': ['2019-03-05', '05/03/2019', '3:30', '15:45', '2018', '3pm', '10:30 am', '2019-03-05 10:00', '12/12',
                 '1/1/2020', '07:00:00'],
    'Sequence': ['192.168.0.1', '255.255.255.255', '::1', '2001:db8::ff00:42:8329', 'a@b.com', 'john.doe@example.org',
                 'http://www.microsoft.com', 'www.bing.com/search?q=1', '+1 425 555 0100', '(425) 555-0100',
                 '0011-1-425-555-0100', '#hashtag', '@mention', '123e4567-e89b-12d3-a456-426655440000',
                 '{123e4567-e89b-12d3-a456-426655440000}', '10.0.0.256', '1.2.3.4.5'],
    'Choice': ['yes', 'no', 'sure', 'nope', 'ok', 'yes yes', '\U0001F44D', '\U0001F44E', 'y', 'n'],
}
EN_TEMPLATES = {
    'Number': ['minus {n}', 'negative {n} and {m}', 'minus {n} and {m}', '{n} and {m}', '{n} {m}', '{n}, {m} or {k}',
               'twenty {n}', '{n} thousand', '{n} percent', '{n} per cent of {m}', 'a {n} and a half',
               'the {n}th', 'one hundred and {n}', '{n} hundred {m}', '{n} out of {m}', 'minus {n} percent and {m}%'],
    'DateTime': ['between {h} and {h2}:30 last night', 'before {h}pm', 'after {h}pm tomorrow', 'from {h}pm to {h2}pm',
                 'since {h}am', '{h}pm or later', 'next monday at {h}', 'tomorrow {h}pm before {h2}pm',
                 '{h}pm before {h2}pm', 'on {d}/{mo} from {h} to {h2}', 'last night', 'this evening around {h}',
                 '{d}/{mo}/2019 {h}:15', 'for {n} hours', '{n} days ago', 'in {n} weeks', 'every monday at {h}',
                 'from monday to friday', 'between {h} and {h2}', 'until {h}pm', '{h}:{mi} - {h2}:{mi}',
                 'before {d} march', 'after the {d}th', 'around {h}pm', 'before around {h}pm', '{h}pm on {d}/{mo}'],
    'NumberWithUnit': ['{n} dollars and {m} cents', 'minus {n} degrees', '{n} km and {m} miles', '{n} years old',
                       '{n} dollars', '{n}-{m} kg', 'between {n} and {m} dollars', '{n} degrees celsius',
                       'minus {n} degrees and {m} degrees'],
}


import time as _time


class Phase:
    """wall-clock per phase, reported in the evidence"""

    def __init__(self, ctx, name):
        self.ctx, self.name = ctx, name

    def __enter__(self):
        self.t = _time.time()

    def __exit__(self, *a):
        self.ctx.extra.setdefault('timing_s', {})[self.name] = round(
            self.ctx.extra.get('timing_s', {}).get(self.name, 0) + _time.time() - self.t, 1)


def sha(s):
    return hashlib.sha1(s.encode('utf-8')).hexdigest()[:12]


def ref_str(ref):
    return ref.strftime('%Y-%m-%dT%H:%M:%S') if ref else None


# ------------------------------------------------------------------ query sources

def spec_material():
    """-> inputs [(recognizer, model_type, culture, input, reference)], entity texts {(recognizer, culture): [..]},
    filler words {culture: [..]}"""
    from . import recog
    inputs, seen = [], set()
    ents, words = {}, {}
    for c in specs.iter_cases():
        if not c['supported'] or c['recognizer'] not in ('Number', 'NumberWithUnit', 'DateTime', 'Sequence', 'Choice'):
            continue
        rec = c['recognizer']
        mt = recog.SPEC_MODEL.get((rec, c['model'])) or ('DateTimeModel' if rec == 'DateTime' else None)
        if mt is None:
            continue
        key = (rec, mt, c['culture'], c['input'], c['reference'])
        if key not in seen:
            seen.add(key)
            inputs.append(key)
        for r in (c['results'] or []):
            t = r.get('Text') if isinstance(r, dict) else None
            if t and len(t) <= 60:
                ents.setdefault((rec, c['culture']), []).append(t)
        if isinstance(c['input'], str):
            ws = words.setdefault(c['culture'], [])
            if len(ws) < 4000:
                ws.extend(w for w in c['input'].split() if 0 < len(w) <= 12)
    for k in ents:
        ents[k] = sorted(set(ents[k]))
    for k in words:
        words[k] = sorted(set(words[k]))
    return inputs, ents, words


def gen_queries(r, rec, culture, ents, words, n):
    """n generated / noise queries for one (recognizer, culture): (family, query)."""
    pool = list(ents.get((rec, culture), [])) + UNIVERSAL.get(rec, [])
    other = [t for (rc, cu), ts in sorted(ents.items()) if cu == culture and rc != rec for t in ts[:200]]
    filler = words.get(culture) or words.get('en-us') or ['a']
    noise_pool = filler[:800] + NOISE_EXTRA + UNIVERSAL.get(rec, []) + pool[:200]
    out = []

    def ent():
        if culture.startswith('en') and rec in EN_TEMPLATES and r.random() < 0.35:
            t = r.choice(EN_TEMPLATES[rec])
            return t.format(n=r.choice([0, 1, 5, 6, 12, 30, 42, 100]), m=r.choice([2, 6, 9, 17, 50]),
                            k=r.choice([3, 8]), h=r.choice([1, 3, 7, 9, 12]), h2=r.choice([2, 5, 9, 11]),
                            d=r.choice([1, 5, 12, 28, 31]), mo=r.choice([1, 2, 12]), mi=r.choice(['00', '30', '59']))
        return r.choice(pool) if pool else r.choice(filler)

    sep_cjk = culture in ('zh-cn', 'ja-jp', 'ko-kr')
    for i in range(n):
        k = i % 10
        if k == 0:
            out.append(('alone', ent()))
        elif k in (1, 2):
            a, b = r.choice(filler), r.choice(filler)
            out.append(('carrier', ('%s%s%s' if sep_cjk and r.random() < 0.5 else '%s %s %s') % (a, ent(), b)))
        elif k in (3, 4, 5):
            parts = []
            for _ in range(r.randint(2, 4)):
                parts.append(ent())
                parts.append(' '.join(r.choice(filler) for _ in range(r.randint(0, 2))))
            out.append(('several', ' '.join(p for p in parts if p)))
        elif k == 6:
            lead = r.choice(['  ', ' ', '   ', '\t', '　'])
            out.append(('blank-led', lead + ent() + ' ' + r.choice(filler) + ' ' + ent() + r.choice(['', ' ', '  '])))
        elif k == 7:
            x = ent()
            out.append(('adjacent', x + r.choice(['', ' ', ',', '-', '/']) + ent()))
        elif k == 8 and i % 30 != 8:
            out.append(('carrier', '%s %s %s %s' % (r.choice(filler), ent(), r.choice(filler), r.choice(filler))))
        elif k == 8:
            x = (r.choice(other) if other and r.random() < 0.5 else ent())
            out.append(('expanding', r.choice(['İ ', 'İİ ', 'İstanbul ', 'x İ y ', 'ΑΣ ', '１２ ']) + x + ' ' + ent()))
        else:
            toks = [r.choice(noise_pool) for _ in range(r.randint(1, 9))]
            out.append(('noise', r.choice(['', ' ']).join(toks) if r.random() < 0.3 else ' '.join(toks)))
    return out



# ------------------------------------------------------------------ systematic modifier family (seed-independent)

MOD_CANDIDATES = {
    'before': ['before', 'prior to', 'no later than', 'earlier than', 'sooner than', 'in advance of', 'by', 'until',
               'till', 'til', 'untill', 'as late as', 'on or before', 'ending with', 'ending on', 'before or on', '<', '<='],
    'after': ['after', 'later than', 'on or after', 'after on', 'greater than', 'year greater than', 'after or on', '>'],
    'since': ['since', 'starting', 'starting from', 'starting on', 'starting with', 'beginning', 'beginning from',
              'beginning with', 'as early as', 'any time from', 'after or equal to', 'from', '>='],
    'equal': ['equal to', 'equals', 'equal', '='],
}
APPROX = ['', 'around', 'about', 'approximately', 'circa', 'roughly', 'close to', 'near']
MOD_EXPRS = ['2010', '3pm', '11pm', '5 march', '5/11/2019', 'monday', 'next week', 'yesterday', '3 days ago']
MOD_SUFFIXES = ['or later', 'or earlier', 'or after', 'or before', 'or above', 'and later', 'or sooner']
MOD_CARRIERS = ['%s i lived there', 'we met %s', 'we met %s and left']


def modifier_words(config):
    """The modifier phrases the English merged extractor's configuration accepts right now: every candidate that
    its before/after/since/equal regex matches from its first character to its last (candidates the configuration
    does not know are dropped, so the family follows the working tree's resources)."""
    import regex
    out = []
    for kind, attr in (('before', 'before_regex'), ('after', 'after_regex'), ('since', 'since_regex'),
                       ('equal', 'equal_regex')):
        pat = getattr(config, attr, None)
        for w in MOD_CANDIDATES[kind]:
            ok = True
            if pat is not None:
                m = regex.search(pat, w + ' ')
                ok = bool(m) and m.start() == 0 and len(m.group().strip()) == len(w)
            if ok:
                out.append((kind, w))
    return out


def modifier_family():
    """[(family, query)] for en-us DateTimeModel: modifier x approximation x expression x position, and the suffix
    modifiers; two modifiers of different kinds in one entity is the shape BaseMergedParser.parse's push/pop must
    restore exactly once each."""
    from . import recog
    model = recog.get_model('DateTime', 'DateTimeModel', 'en-us')
    words = modifier_words(model.extractor.config)
    out = []
    for kind, w in words + [('none', '')]:
        for ap in APPROX:
            if not w and not ap:
                continue
            for ex in MOD_EXPRS:
                core = ' '.join(x for x in (w, ap, ex) if x)
                out.append(('mod-' + kind, MOD_CARRIERS[0] % core))
                out.append(('mod-' + kind, MOD_CARRIERS[1] % core))
    for ex in MOD_EXPRS:
        for sfx in MOD_SUFFIXES:
            for ap in ('', 'around'):
                core = ' '.join(x for x in (ap, ex, sfx) if x)
                out.append(('mod-suffix', MOD_CARRIERS[0] % core))
                out.append(('mod-suffix', MOD_CARRIERS[2] % core))
    return out, len(words)


# ------------------------------------------------------------------ multi-entity date-time family (seed-independent)

ZH_EXPRS = ['2点', '2点-4点', '2点-明天4点', '明天', '05/05/89', '5月5日', '国庆节', '3天', '下周']
ZH_TRIPLE = ['2点', '2点-明天4点', '明天', '05/05/89', '国庆节', '下周']
ZH_JOIN = ['和', '，', '']
MULTI = {
    # culture: (conjunction, expressions: bare time, time range(s), date-time range opening with a bare time, dates,
    #           holiday, period, duration)
    'en-us': ('and', ['2pm', '2pm-4pm', 'from 2 to 4pm', 'from 2pm to tomorrow 4pm', '2pm till tomorrow 4pm', 'tomorrow',
                      '05/05/89', 'may 5th', 'christmas', 'next week', '3 days']),
    'es-es': ('y', ['las 2pm', '2pm-4pm', 'de 2 a 4 pm', 'de 2pm a mañana 4pm', 'mañana', '05/05/89', '5 de mayo',
                    'navidad', 'la próxima semana', '3 días']),
    'es-mx': ('y', ['las 2pm', '2pm-4pm', 'de 2 a 4 pm', 'de 2pm a mañana 4pm', 'mañana', '05/05/89', '5 de mayo',
                    'navidad', 'la próxima semana', '3 días']),
    'fr-fr': ('et', ['14h', '14h-16h', 'de 14h à 16h', 'de 14h à demain 16h', 'demain', '05/05/89', 'le 5 mai', 'noël',
                     'la semaine prochaine', '3 jours']),
    'pt-br': ('e', ['2pm', '2pm-4pm', 'das 2 às 4 da tarde', 'das 2pm até amanhã 4pm', 'amanhã', '05/05/89', '5 de maio',
                    'natal', 'próxima semana', '3 dias']),
    'de-de': ('und', ['14 uhr', '14-16 uhr', 'von 14 bis 16 uhr', 'von 14 uhr bis morgen 16 uhr', 'morgen', '05.05.89',
                      '5. mai', 'weihnachten', 'nächste woche', '3 tage']),
    'it-it': ('e', ['le 14', '14-16', 'dalle 14 alle 16', 'dalle 14 alle 16 di domani', 'domani', '05/05/89', '5 maggio',
                    'natale', 'la prossima settimana', '3 giorni']),
    'nl-nl': ('en', ['14 uur', '14-16 uur', 'van 14 tot 16 uur', 'van 14 uur tot morgen 16 uur', 'morgen', '05/05/89',
                     '5 mei', 'kerstmis', 'volgende week', '3 dagen']),
}


def multi_entity_family(cultures):
    """{culture: [(family, query)]}: several date-time expressions of different kinds in one sentence, in every
    order — what the merged extractors' conflict resolution (add_to / the Chinese move_overlap) has to untangle."""
    import itertools
    out = {}
    if 'zh-cn' in cultures:
        qs = []
        for a, b in itertools.permutations(ZH_EXPRS, 2):
            for j in ZH_JOIN:
                qs.append(('multi-pair', a + j + b))
            qs.append(('multi-pair', a + '和你' + b + '有时间吗'))
        for a, b, c in itertools.permutations(ZH_TRIPLE, 3):
            qs.append(('multi-triple', a + '和' + b + '，' + c))
        out['zh-cn'] = qs
    for cul, (conj, exprs) in MULTI.items():
        if cul not in cultures:
            continue
        qs = []
        for a, b in itertools.permutations(exprs, 2):
            qs.append(('multi-pair', '%s %s %s' % (a, conj, b)))
            qs.append(('multi-pair', '%s, %s' % (a, b)))
            qs.append(('multi-pair', '%s %s' % (a, b)))
        out[cul] = qs
    return out


NUMBER_ENDING = {
    # "<time> <meeting word> to <hour>, <month> [year]": BaseMergedExtractor.number_ending_regex_match adds the bare hour as
    # an extra time entity; when the hour also starts a day-first date the two must be resolved by add_to, not both kept
    'en-us': ('move the %s %s to %d, %s', ['3pm', '10am', '9 am', '11:30'], ['meeting', 'appointment', 'call', 'conference'],
              ['may 2019', 'sept', 'march 2020', 'january 20']),
    'de-de': ('verschiebe das %s %s to %d, %s', ['15 uhr', '9 uhr'], ['meeting', 'termin', 'call'], ['mai 2019', 'märz 2020']),
    'nl-nl': ('verzet de %s %s naar %d, %s', ['15:00', '9:30'], ['vergadering', 'afspraak'], ['mei 2019', 'maart 2020']),
    'it-it': ('le %s %s alle %d, %s', ['15:00', '9:30'], ['riunione', 'appuntamento'], ['maggio 2019', 'marzo 2020']),
}


def number_ending_family(cultures):
    out = {}
    for cul, (tmpl, times, words, dates) in NUMBER_ENDING.items():
        if cul not in cultures:
            continue
        qs = []
        for i, t in enumerate(times):
            for j, w in enumerate(words):
                for k, d in enumerate(dates):
                    h = [5, 11, 4, 7, 2][(i + j + k) % 5]
                    qs.append(('number-ending', tmpl % (t, w, h, d)))
                    if (i + j + k) % 3 == 0:
                        qs.append(('number-ending', (tmpl % (t, w, h, d)).split(',')[0]))     # the plain case: extra time kept
        out[cul] = qs
    return out


def build_tasks(ctx, which_units=False):
    from . import recog
    common.setup_repo_imports()
    pairs = recog.all_pairs()
    pairset = set(pairs)
    inputs, ents, words = spec_material()
    tasks, fam = [], []
    # (i) Specs inputs
    by_rec = {}
    for p in pairs:
        by_rec.setdefault(p[0], []).append(p)
    for rec, mt, cul, q, ref in inputs:
        if not isinstance(q, str):
            continue
        if ctx.thorough:
            for p in by_rec.get(rec, []):
                tasks.append((p[0], p[1], p[2], q, ref))
                fam.append('specs-all-pairs')
        elif (rec, mt, cul) in pairset:
            tasks.append((rec, mt, cul, q, ref))
            fam.append('specs-own-pair')
    # (ii)+(iii) generated expressions and noise, every registered pair
    import datetime
    ref0 = datetime.datetime(2016, 11, 7, 16, 12, 0)
    for p in pairs:
        n = LIMITS[p[0]][1 if ctx.thorough else 0]
        # recognisers whose failures are recorded keyed by input get a seed-independent query set (a closed
        # list of inputs); VERIF_SEED drives the fast recognisers, the unit sample and the preprocess strings
        r = common.rng_for(0, 'span-gen', p[0], p[1], p[2]) if p[0] in ('DateTime', 'NumberWithUnit', 'Sequence') \
            else common.rng_for(ctx.seed, 'span', 'gen', p[0], p[1], p[2])
        for family, q in gen_queries(r, p[0], p[2], ents, words, n):
            tasks.append((p[0], p[1], p[2], q, ref0 if p[0] == 'DateTime' else None))
            fam.append('gen-' + family)
    # systematic modifier family (English merged extractor / parser)
    if ('DateTime', 'DateTimeModel', 'en-us') in pairset:
        mods, nwords = modifier_family()
        ctx.extra['modifier_family'] = {'modifier_phrases_accepted_by_config': nwords, 'queries': len(mods)}
        for family, q in mods:
            tasks.append(('DateTime', 'DateTimeModel', 'en-us', q, ref0))
            fam.append(family)
    # several date-time expressions per sentence, every registered date-time culture
    dcults = sorted({p[2] for p in pairs if p[0] == 'DateTime' and p[1] == 'DateTimeModel'})
    multi = multi_entity_family(dcults)
    ctx.extra['multi_entity_family'] = {c: len(q) for c, q in sorted(multi.items())}
    for cul, qs in sorted(multi.items()):
        for family, q in qs:
            tasks.append(('DateTime', 'DateTimeModel', cul, q, ref0))
            fam.append(family)
    for cul, qs in sorted(number_ending_family(dcults).items()):
        for family, q in qs:
            tasks.append(('DateTime', 'DateTimeModel', cul, q, ref0))
            fam.append(family)
    # inputs on which the two (extractor, parser) items of a Chinese NumberWithUnit model read the same stretch twice
    # (nested results): they decide which variant of the b_add filter the tree follows
    for mt, q in (('CurrencyModel', '$20 5度'), ('CurrencyModel', '  ￥300 三月初一 两万两 '), ('TemperatureModel', '\t两万两 两 °c')):
        if ('NumberWithUnit', mt, 'zh-cn') in pairset:
            tasks.append(('NumberWithUnit', mt, 'zh-cn', q, None))
            fam.append('nwu-nested')
    # boundary queries for every pair
    for p in pairs:
        for q in ['', ' ', 'İ', 'İ 42', '42 İ 17', 'a', '0']:
            tasks.append((p[0], p[1], p[2], q, ref0 if p[0] == 'DateTime' else None))
            fam.append('boundary')
    # dedupe
    seen, t2, f2 = set(), [], []
    for t, f in zip(tasks, fam):
        if t in seen:
            continue
        seen.add(t)
        t2.append(t)
        f2.append(f)
    return t2, f2, pairs


# ------------------------------------------------------------------ what-if repairs (classification of failures)

WHATIF_CODE = r'''
import sys, json, warnings, datetime
warnings.filterwarnings('ignore')
sys.path.insert(0, %(harness)r)
from lib import common, recog
common.setup_repo_imports()
import importlib
which = sys.argv[1]
if which == 'negAnchor':
    NE = importlib.import_module('recognizers_number.number.extractors')
    real = NE.regex
    class P:
        def __getattr__(self, n): return getattr(real, n)
        def search(self, pattern, string, *a, **k):
            m = real.search(pattern, string, *a, **k)
            import inspect
            f = inspect.currentframe().f_back
            if f.f_code.co_name == 'extract' and m is not None and m.end() != len(string):
                # proposed patch: the negative term must end where the number starts
                ms = [x for x in real.finditer(pattern, string) if x.end() == len(string)]
                return ms[-1] if ms else None
            return m
    NE.regex = P()
elif which == 'lowerPerChar':
    U = importlib.import_module('recognizers_text.utilities')
    PAIRS = %(pairs)r
    def lower1(s):
        return ''.join(c.lower() if len(c.lower()) == 1 else c for c in s)
    def pre(source, case_sensitive=False, recode=True):
        # proposed patch: lower-case per character, keep a character whose lower-casing is not one code point
        result = source
        if recode:
            for a, b in PAIRS:
                result = result.replace(a, b)
        if not case_sensitive:
            return lower1(result)
        chars = list(lower1(result))
        for m in U.QueryProcessor.special_tokens_regex.finditer(result):
            U.QueryProcessor.apply_reverse(m.start(), chars, m.group())
        return ''.join(chars)
    U.QueryProcessor.preprocess = staticmethod(pre)
    # second call site: ChoiceExtractor.extract does `trimmed_source = source.lower()` and applies the offsets
    # to `source`; proposed patch: the same per-character lower-casing
    CE = importlib.import_module('recognizers_choice.choice.extractors')
    class S(str):
        def lower(self):
            return lower1(str(self))
    orig_ce = CE.ChoiceExtractor.extract
    def ce(self, source):
        return orig_ce(self, S(source) if isinstance(source, str) else source)
    CE.ChoiceExtractor.extract = ce
elif which == 'modRstrip':
    BM = importlib.import_module('recognizers_date_time.date_time.base_merged')
    orig_tm = BM.BaseMergedExtractor.try_merge_modifier_token
    real_has = BM.BaseMergedExtractor.__dict__['has_token_index'].__func__
    def tm(self, er, pattern, source, potential_ambiguity=False):
        # proposed patch: token.index must index into before_str (C#: TrimEnd), not into before_str.strip()
        before = source[0:er.start]
        lead = len(before) - len(before.lstrip())
        stripped = before.strip()
        def has(src, pat):
            r = real_has(src, pat)
            if r.matched and lead and stripped and src == stripped:
                return type(r)(r.matched, r.index + lead)
            return r
        BM.BaseMergedExtractor.has_token_index = staticmethod(has)
        try:
            return orig_tm(self, er, pattern, source, potential_ambiguity)
        finally:
            BM.BaseMergedExtractor.has_token_index = staticmethod(real_has)
    BM.BaseMergedExtractor.try_merge_modifier_token = tm
tasks = json.load(sys.stdin)
out = []
for rec, mt, cul, q, ref in tasks:
    refd = datetime.datetime.strptime(ref, '%%Y-%%m-%%dT%%H:%%M:%%S') if ref else None
    try:
        rs = recog.parse(rec, mt, cul, q, refd)
        out.append([[r.start, r.end, r.text, r.type_name] for r in rs if r is not None])
    except Exception as e:
        out.append(None)
json.dump(out, sys.stdout)
'''


def whatif(which, tasks):
    """Re-run `tasks` in fresh processes with one proposed repair monkey-patched in. -> list of span lists."""
    if not tasks:
        return []
    key = spanpipe.cache_key('whatif-' + which, [[t[0], t[1], t[2], t[3], str(t[4])] for t in tasks] + [WHATIF_CODE],
                             spanpipe)
    hit = spanpipe.cache_get(key)
    if hit is not None and len(hit) == len(tasks):
        return hit
    out = _whatif(which, tasks)
    spanpipe.cache_put(key, out)
    return out


def _whatif(which, tasks):
    if len(tasks) > 24:
        from concurrent.futures import ThreadPoolExecutor
        order = sorted(range(len(tasks)), key=lambda i: (tasks[i][:3], i))
        k = 12
        parts = [order[j::k] for j in range(k)]
        parts = [p for p in parts if p]
        with ThreadPoolExecutor(len(parts)) as ex:
            outs = list(ex.map(lambda p: _whatif(which, [tasks[i] for i in p]), parts))
        res = [None] * len(tasks)
        for p, o in zip(parts, outs):
            for i, x in zip(p, o):
                res[i] = x
        return res
    from translate.preprocess import replace_pairs
    code = WHATIF_CODE % {'harness': os.path.join(common.VERIF, 'harness'), 'pairs': replace_pairs()}
    payload = json.dumps([[t[0], t[1], t[2], t[3], ref_str(t[4])] for t in tasks])
    p = subprocess.run([sys.executable, '-c', code, which], input=payload, stdout=subprocess.PIPE,
                       stderr=subprocess.PIPE, text=True, env=common.child_env(), timeout=1200)
    if p.returncode != 0:
        raise common.InfraError('what-if run %s failed: %s' % (which, p.stderr[-1500:]))
    return json.loads(p.stdout)


# ------------------------------------------------------------------ pipeline level

def pipeline(ctx, prop):
    with Phase(ctx, 'build_tasks'):
        tasks, fam, pairs = build_tasks(ctx)
    with Phase(ctx, 'pipeline_run'):
        ctx._span_unit = spanunit.UnitRun(unit_tasks(ctx, tasks, fam), nproc=16, timeout=10.0)   # runs meanwhile
        res = spanpipe.run(tasks, nproc=16, timeout=10.0)
        ctx.extra['pipeline_scheduling'] = dict(spanpipe.LAST_STATS)
    stats = {'timeout': 0, 'error': 0, 'none_results': 0, 'entities': 0}
    per_pair = {}
    fails = []          # (task, family, detail)
    lean_lines, lean_expect = [], []
    for t, f, r in zip(tasks, fam, res):
        ctx.count('pipeline:' + f)
        per_pair[t[:3]] = per_pair.get(t[:3], 0) + 1
        if r is None or r[0] == 'timeout':
            stats['timeout'] += 1
            continue
        if r[0] == 'error':
            stats['error'] += 1
            # a call that raises returns no entity: neither property speaks about it (counted, sampled in the
            # evidence and handed to the owner of the recogniser's robustness property)
            ctx.extra.setdefault('parse_error_samples', [])
            if len(ctx.extra['parse_error_samples']) < 10:
                ctx.extra['parse_error_samples'].append({'query': t[3], 'model': t[1], 'culture': t[2], 'error': r[1]})
            continue
        spans = r[1]
        stats['none_results'] += r[2]
        stats['entities'] += len(spans)
        if len(r) > 3 and r[3]:
            # DateTimeModel.parse caught and dropped an exception on this query: the entities are those found before it
            sw = ctx.extra.setdefault('swallowed_exceptions', {'queries_with_swallowed_exception': 0,
                                                               'by_exception_type_and_culture': {}, 'examples': []})
            sw['queries_with_swallowed_exception'] += 1
            k = '%s:%s' % (r[3][1], t[2])
            sw['by_exception_type_and_culture'][k] = sw['by_exception_type_and_culture'].get(k, 0) + 1
            if len(sw['examples']) < 8:
                sw['examples'].append({'culture': t[2], 'query': t[3], 'reference': str(t[4]), 'stage': r[3][0],
                                       'exception': '%s: %s' % (r[3][1], r[3][2])})
        if spans:
            ctx.nontriv((t[1], t[2], t[3]))
        if prop == 'C01':
            bad = []
            for (s, e, tx, ty) in spans:
                why = spanpipe.span_ok(t[3], s, e, tx)
                if isinstance(s, int) and isinstance(e, int) and isinstance(tx, str):
                    lean_lines.append('sp.ok\t%s\t%d\t%d\t%s' % (cps(t[3]), s, e, cps(tx)))
                    lean_expect.append(('1' if why is None else '0', t, (s, e, tx)))
                if why:
                    bad.append(((s, e, tx, ty), why))
            if bad:
                fails.append((t, f, bad, spans))
        else:
            ov = spanpipe.overlaps(spans)
            ints = [(s, e) for (s, e, _, _) in spans if isinstance(s, int) and isinstance(e, int)]
            if len(ints) == len(spans) and len(spans) > 1:
                lean_lines.append('sp.disj\t' + ','.join('%d:%d' % x for x in ints))
                lean_expect.append(('0' if ov else '1', t, ints))
            if ov:
                fails.append((t, f, [(spans[i], spans[j]) for i, j in ov], spans))
    # the same predicates evaluated by the Lean definitions the theorems are about
    if lean_lines:
        with Phase(ctx, 'lean_predicates'):
            ans = common.driver(lean_lines)
        ctx.count('lean-predicate', len(lean_lines))
        for a, (exp, t, what) in zip(ans, lean_expect):
            if a != exp:
                ctx.report('correspondence', 'predicate-python-vs-lean',
                           'the %s predicate evaluated in Python (%s) and in Lean (%s) differ on %r %r' % (
                               prop, exp, a, t[3], what),
                           failing_input={'query': t[3], 'what': what}, property_fails=False)
    ctx.extra['pipeline'] = {'queries': len(tasks), 'pairs': len(pairs), 'dropped_timeouts': stats['timeout'],
                             'parse_errors': stats['error'], 'entities': stats['entities'],
                             'none_results_skipped': stats['none_results'],
                             'min_queries_per_pair': min(per_pair.values()) if per_pair else 0,
                             'failing_queries': len(fails)}
    with Phase(ctx, 'classify_whatif'):
        classify(ctx, prop, fails)
    return tasks


def keyed_signature(prop, t):
    sig = '%s:%s:%s:%s' % ('span' if prop == 'C01' else 'overlap', t[2], t[1], sha(t[3]))
    if t[4] is not None:
        sig += ':' + ref_str(t[4])
    return sig


def what_hash(prop, bad):
    """A short hash of WHAT failed on the input (audit item 24: the input-keyed signature used to cover ANY failure of the
    query): C12 the spans of the overlapping pairs, C01 the spans of the offending entities and the reason."""
    try:
        if prop == 'C01':
            parts = sorted('%s,%s,%s' % (e[0], e[1], why) for e, why in bad)
        else:
            parts = sorted('%s,%s,%s,%s' % ((a[0], a[1], b[0], b[1]) if (a[0], a[1]) <= (b[0], b[1]) else (b[0], b[1], a[0], a[1]))
                           for a, b in bad)
    except Exception:
        parts = [json.dumps(bad, default=str, sort_keys=True)]
    return hashlib.sha1('|'.join(parts).encode('utf-8')).hexdigest()[:8]


def keyed_signature2(prop, t, bad):
    """input + reference + WHAT failed.  New recorded entries use this key; the entries recorded under the old key
    (`keyed_signature`) stay valid as a fallback, narrowed by findings/sets/<property>/narrow.json to the failure observed for
    them on the unchanged tree (vcheck `match_known`)."""
    return keyed_signature(prop, t) + ':w' + what_hash(prop, bad)


def still_fails(prop, q, spans):
    if spans is None:
        return True
    if prop == 'C01':
        return any(spanpipe.span_ok(q, s[0], s[1], s[2]) for s in spans)
    return bool(spanpipe.overlaps([tuple(s) for s in spans]))


def classify(ctx, prop, fails):
    """Give every failing query a stable signature. Mechanism classes are decided by re-running the query with
    the proposed repair patched in (fresh process): if the failure disappears, the defect is that mechanism."""
    if not fails:
        return
    # failures already recorded keyed by input need no mechanism search; only unrecorded ones are re-run with
    # the proposed repairs patched in
    def is_listed(x):
        return ctx.match_known(keyed_signature2(prop, x[0], x[2]), (keyed_signature(prop, x[0]),)) is not None
    listed = [x for x in fails if is_listed(x)]
    fails = [x for x in fails if not is_listed(x)]
    remaining = list(fails) + listed
    classes = []
    if prop == 'C01':
        order = [('lowerPerChar', 'lower-expands-U+0130', lambda t: any(c.lower() != c and len(c.lower()) != 1 for c in t[3])),
                 ('modRstrip', 'modifier-index-leading-blank', lambda t: t[0] == 'DateTime' and t[3][:1].isspace())]
    else:
        order = [('negAnchor', 'neg-term-unanchored', lambda t: True),
                 ('modRstrip', 'modifier-index-leading-blank', lambda t: t[0] == 'DateTime' and t[3][:1].isspace()),
                 ('lowerPerChar', 'lower-expands-U+0130', lambda t: any(c.lower() != c and len(c.lower()) != 1 for c in t[3]))]
    # the what-if runs are independent of each other: start them together, apply them in priority order
    from concurrent.futures import ThreadPoolExecutor
    if not fails:
        order = []
    with ThreadPoolExecutor(max(len(order), 1)) as ex:
        pre = {which: ex.submit(lambda w=which, a=applies: (lambda c: (c, whatif(w, [x[0] for x in c])))(
            [x for x in fails if a(x[0])])) for which, sig, applies in order}
        pre = {k: v.result() for k, v in pre.items()}
    for which, sig, applies in order:
        allc, allout = pre[which]
        by_id = {id(x): o for x, o in zip(allc, allout)}
        cand = [x for x in remaining if id(x) in by_id]
        if not cand:
            continue
        out = [by_id[id(x)] for x in cand]
        fixed = set()
        for x, spans in zip(cand, out):
            if not still_fails(prop, x[0][3], spans):
                fixed.add(id(x))
                classes.append((sig, x))
        remaining = [x for x in remaining if id(x) not in fixed]
    for sig, (t, f, bad, spans) in classes:
        ctx.report('property', sig,
                   '%s %s on %r: %s (disappears with the proposed repair)' % (t[1], t[2], t[3], describe(prop, bad)),
                   failing_input=fi(prop, t, f, bad, spans), property_fails=True)
    # C12, NumberWithUnit: ONE mechanism, recognisable on the output alone — a unit symbol standing between two numbers is
    # claimed as the suffix unit of the left entity AND as the prefix unit of the right one ('$20 €15' -> '$20 €' + '€15',
    # '10 $ 30 $' -> '10 $' + '$ 30 $'): every overlapping pair of the query shares nothing but a digit-free stretch that
    # ends the left entity and starts the right one. Keyed by model type (a call site), not by input: the noise pool of the
    # thorough tier produces new inputs of this shape at will; any OTHER overlap keeps its input-keyed signature.
    if prop == 'C12':
        still = []
        for x in remaining:
            (t, f, bad, spans) = x
            def shared_symbol(a, b):
                (a, b) = (a, b) if (a[0], a[1]) <= (b[0], b[1]) else (b, a)
                if not (isinstance(a[0], int) and isinstance(b[0], int)) or not (a[0] < b[0] <= a[1] < b[1]):
                    return False
                shared = t[3][b[0]:a[1] + 1]
                return 0 < len(shared) <= 6 and not any(c.isdigit() for c in shared) and shared.strip() != ''
            if t[0] == 'NumberWithUnit' and not is_listed(x) and bad and all(shared_symbol(a, b) for a, b in bad):
                ctx.report('property', 'nwu-shared-unit-symbol:%s' % t[1],
                           '%s %s on %r: %s (one unit symbol claimed as suffix of the left and prefix of the right entity)' % (
                               t[1], t[2], t[3], describe(prop, bad)),
                           failing_input=fi(prop, t, f, bad, spans), property_fails=True)
            else:
                still.append(x)
        remaining = still
    for (t, f, bad, spans) in remaining:
        ctx.report('property', keyed_signature2(prop, t, bad), '%s %s on %r: %s' % (t[1], t[2], t[3], describe(prop, bad)),
                   failing_input=fi(prop, t, f, bad, spans), property_fails=True, fallback=(keyed_signature(prop, t),))
    ctx.extra.setdefault('observed_failures', []).extend(
        [{'signature': s, 'input': x[0][3], 'culture': x[0][2], 'model': x[0][1], 'reference': ref_str(x[0][4]),
          'family': x[1], 'detail': json.loads(json.dumps(x[2], default=str))} for s, x in classes] +
        [{'signature': keyed_signature2(prop, x[0], x[2]), 'signature_without_what': keyed_signature(prop, x[0]),
          'input': x[0][3], 'culture': x[0][2], 'model': x[0][1], 'reference': ref_str(x[0][4]), 'family': x[1],
          'detail': json.loads(json.dumps(x[2], default=str))} for x in remaining])


def describe(prop, bad):
    if prop == 'C01':
        return '; '.join('entity %r: %s' % (e[:3], why) for e, why in bad[:3])
    return '; '.join('[%s,%s] %r overlaps [%s,%s] %r' % (a[0], a[1], a[2], b[0], b[1], b[2]) for a, b in bad[:3])


def fi(prop, t, f, bad, spans):
    return {'recognizer': t[0], 'model': t[1], 'culture': t[2], 'query': t[3], 'reference': ref_str(t[4]),
            'family': f, 'results': [list(s) for s in spans],
            'violations': json.loads(json.dumps(bad, default=str))}


# ------------------------------------------------------------------ unit level

def unit_tasks(ctx, tasks, fam=None):
    """A deterministic subset of the pipeline tasks for the instrumented run; the slices of the systematic
    families that exercise two modifiers in one entity (parser push / pop) and the Chinese add_to / move_overlap are
    always part of it."""
    by_rec = {}
    for t in tasks:
        by_rec.setdefault(t[0], []).append(t)
    out = []
    if fam is not None:
        for t, f in zip(tasks, fam):
            if (f.startswith('mod-') and '2010' in t[3]) or (f == 'multi-pair' and t[2] == 'zh-cn' and '和你' in t[3]) \
                    or f == 'nwu-nested':
                out.append(t)
    for rec, ts in sorted(by_rec.items()):
        lim = UNIT_LIMITS.get(rec, (0, 0))[1 if ctx.thorough else 0]
        if lim <= 0:
            continue
        r = common.rng_for(ctx.seed, 'span', 'unit', rec)
        if len(ts) > lim:
            ts = r.sample(ts, lim)
        out.extend(ts)
    seen, uniq = set(), []
    for t in out:
        if t not in seen:
            seen.add(t)
            uniq.append(t)
    return uniq


def unit_level(ctx, prop, tasks):
    with Phase(ctx, 'unit_run_tail'):
        run = getattr(ctx, '_span_unit', None) or spanunit.UnitRun(unit_tasks(ctx, tasks), nproc=16, timeout=10.0)
        ops, dropped, cache = run.get()
    ctx.extra['unit'] = {'dropped_timeouts': dropped, 'cache': cache}
    hyp = {}
    lines, live = [], []
    for o in ops:
        if o.get('skipped'):
            ctx.count('unit-skipped:' + o['kind'])
            continue
        if o.get('problem') and 'op' not in o:
            ctx.report('correspondence', 'unit-instrumentation:' + o['kind'], o['problem'],
                       failing_input={'task': o.get('task')}, property_fails=False)
            continue
        lines.append(o['op'])
        live.append(o)
    with Phase(ctx, 'unit_driver'):
        ans = common.driver(lines) if lines else []
        # NumberWithUnit b_add filter: current variant (one-way containment) and repaired variant (no nesting)
        nwu = [o for o in live if o['kind'] == 'nwu' and o.get('op2')]
        ans2 = common.driver([o['op2'] for o in nwu]) if nwu else []
    agree = {'current': 0, 'repaired': 0, 'cases': len(nwu)}
    for o, a2 in zip(nwu, ans2):
        o['_sym_ok'] = compare(o, a2)[0]
    for o, a in zip(live, ans):
        k = o['kind']
        ctx.count('unit:' + k)
        if o.get('n_results'):
            ctx.nontriv(('u', k, o['op'][:200]))
        for h, v in (o.get('hyp') or {}).items():
            d = hyp.setdefault(k + '.' + h, {'true': 0, 'false': 0, 'n': 0})
            if isinstance(v, bool):
                d['true' if v else 'false'] += 1
            else:
                d['n'] += v
        if o.get('problem'):
            ctx.report('correspondence', 'unit-%s-type' % k, '%s on %r' % (o['problem'], o.get('src')),
                       failing_input={'task': o.get('task'), 'op': o['op']}, property_fails=False)
        ok, model_view = compare(o, a)
        if k == 'nwu':
            agree['current'] += int(ok)
            agree['repaired'] += int(bool(o.get('_sym_ok')))
            ok = ok or bool(o.get('_sym_ok'))
        if not ok:
            ctx.report('correspondence', 'unit-' + k,
                       '%s (%s) on %r: implementation %s, model %s' % (k, o.get('ext'), o.get('src'), o.get('impl', o.get('impl_spans')), model_view),
                       failing_input={'task': o.get('task'), 'op': o['op'], 'implementation': o.get('impl', o.get('impl_spans')),
                                      'model': a}, property_fails=False)
        if k == 'mext':
            parts = a.split('|')
            if len(parts) >= 3:
                d = hyp.setdefault('mext.ChainNoCrossing', {'true': 0, 'false': 0, 'n': 0})
                d['true' if parts[1] == '1' else 'false'] += 1
            if len(parts) >= 4:
                # the second hypothesis of mergedExtract_disjoint(_monitored): the modifier extensions stay clear of each
                # other (Lean `extClearB` = `ExtClear`, theorem extClearB_iff) — evaluated on this recorded call
                d = hyp.setdefault('mext.ExtClear', {'true': 0, 'false': 0, 'n': 0})
                d['true' if parts[3] == '1' else 'false'] += 1
                if o.get('n_mods'):
                    d['n'] += 1          # calls in which add_mod really extended an entity
                if parts[3] != '1':
                    # the theorem does not cover this call: two entities apart before add_mod, overlapping after it
                    ctx.report('correspondence', 'extclear-violated:%s' % o.get('ext'),
                               'add_mod of %s made two disjoint entities overlap on %r (model output %s): hypothesis ExtClear of '
                               'mergedExtract_disjoint is false on this call' % (o.get('ext'), o.get('src'), parts[0][:200]),
                               failing_input={'task': o.get('task'), 'op': o['op'], 'out_spans': o.get('out_spans')},
                               property_fails=False)
                # the theorem's consequence on the implementation's own output (it equals the model's when `ok`)
                if parts[1] == '1' and parts[3] == '1' and not (o.get('hyp') or {}).get('disjoint_out', True):
                    ctx.report('correspondence', 'mext-theorem-consequence',
                               'ChainNoCrossing and ExtClear hold but the real output overlaps: ' + o['op'][:300],
                               failing_input={'task': o.get('task'), 'op': o['op']}, property_fails=False)
        if k == 'addto':
            parts = a.split('|')
            if len(parts) == 4:
                d = hyp.setdefault('addto.NoCrossingAll', {'true': 0, 'false': 0, 'n': 0})
                d['true' if parts[1] == '1' else 'false'] += 1
                d2 = hyp.setdefault('addto.disjoint_in->disjoint_out', {'true': 0, 'false': 0, 'n': 0})
                if parts[2] == '1':
                    d2['true' if parts[3] == '1' else 'false'] += 1
                # the theorem's consequence, on the implementation's own output (it equals the model's here)
                if parts[1] == '1' and parts[2] == '1' and parts[3] != '1':
                    ctx.report('correspondence', 'addto-theorem-consequence',
                               'NoCrossingAll and disjoint input but overlapping output: ' + o['op'],
                               failing_input={'op': o['op']}, property_fails=False)
    ctx.extra['monitored_hypotheses'] = hyp
    ctx.extra['nwu_filter_variant'] = dict(agree, tree_follows=(
        'repaired (no nesting)' if agree['repaired'] == agree['cases'] and agree['current'] < agree['cases'] else
        'current (one-way containment)' if agree['current'] == agree['cases'] else 'mixed'))
    ctx.sample({'op': lines[len(lines) // 2][:300], 'model': ans[len(ans) // 2][:200]} if lines else '(no unit ops)')


def compare(o, a):
    k = o['kind']
    if k == 'nwu':
        try:
            kept = [int(x) for x in a.split(',')] if a else []
            exp = [tuple(o['flat'][i]) for i in kept]
        except Exception:
            return False, a
        return exp == [tuple(x) for x in o['impl_spans']], exp
    if k == 'addto':
        return a.split('|')[0] == o['impl'], a
    if k == 'mext':
        return a.split('|')[0] == o['impl'], a
    if k in ('mparse', 'spushpop'):
        parts = a.split('|')
        view = '%s|%s' % (parts[0], parts[2]) if len(parts) == 3 else a
        return view == o['impl'], a
    if k == 'grp':
        # compare (start, length, stripped text)
        ms = []
        for x in (a.split(';') if a else []):
            f = x.split(':')
            ms.append('%s:%s:%s' % (f[0], f[1], cps(common.uncps(f[3]).strip())))
        return ';'.join(ms) == o['impl'], ';'.join(ms)
    return a == o['impl'], a


# ------------------------------------------------------------------ QueryProcessor.preprocess

def preprocess_unit(ctx, prop):
    common.setup_repo_imports()
    import importlib
    U = importlib.import_module('recognizers_text.utilities')
    common.assert_tree_modules(U)
    QP = U.QueryProcessor
    sig = lambda s: s.replace('ς', 'σ')
    cases = []          # (cs, q)
    block = []
    for c in range(0x110000):
        if 0xD800 <= c <= 0xDFFF:
            continue
        block.append(chr(c))
        if len(block) == 200:
            cases.append((False, ' '.join(block)))
            cases.append((True, ' '.join(block)))
            block = []
    if block:
        cases.append((False, ' '.join(block)))
        cases.append((True, ' '.join(block)))
    n_blocks = len(cases)
    r = ctx.rng('preprocess')
    pool = ['a', 'B', 'K', 'KB', 'Mb', 'G', 'İ', 'Σ', 'ΑΣ', 'ς', '１', '９', '：', '％', '、', 'Ｋ', 'ｋ', ' ', '  ', '3', '3K', '3 KB',
            ' MB', 'ß', 'ǅ', 'É', '中', '\t', 'x', '٤']
    for _ in range(30000 if ctx.thorough else 4000):
        q = ''.join(r.choice(pool) for _ in range(r.randint(0, 12)))
        cases.append((r.random() < 0.5, q))
    lines, meta = [], []
    for cs, q in cases:
        impl = QP.preprocess(q, cs)
        ms = [(m.start(), m.end()) for m in QP.special_tokens_regex.finditer(recode_only(QP, q))] if cs else []
        for variant in ('full', 'keep'):
            lines.append('sp.pre\t%s\t%s\t%s\t%s' % (variant, '1' if cs else '0', spanunit.fmt_items(ms), cps(q)))
        meta.append((cs, q, impl))
    ans = pdriver(lines)
    ctx.count('preprocess:code-point-blocks', n_blocks)
    ctx.count('preprocess:seeded', len(cases) - n_blocks)
    follows_full = follows_keep = 0
    expanding_seen = []
    for i, (cs, q, impl) in enumerate(meta):
        full, keep = ans[2 * i], ans[2 * i + 1]
        f_ok = (not full.startswith('err')) and sig(common.uncps(full)) == sig(impl)
        k_ok = (not keep.startswith('err')) and sig(common.uncps(keep)) == sig(impl)
        if f_ok:
            follows_full += 1
        if k_ok:
            follows_keep += 1
        if len(impl) != len(q):
            bad = [c for c in set(q) if len(QP.preprocess(c, cs)) != 1]
            expanding_seen.extend(bad)
        if not f_ok and not k_ok:
            ctx.report('correspondence', 'preprocess',
                       'QueryProcessor.preprocess(%r, case_sensitive=%s): implementation %r, model(current) %r, '
                       'model(repaired) %r' % (q[:60], cs, impl[:60], common.uncps(full)[:60] if not full.startswith('err') else full,
                                               common.uncps(keep)[:60] if not keep.startswith('err') else keep),
                       failing_input={'query': q, 'case_sensitive': cs, 'implementation': impl},
                       property_fails=len(impl) != len(q))
    # hypothesis `habs` of RTV.Merged.spanOK_of_preprocessed_slice (Props/C01.lean): the property's normalisation absorbs the
    # preprocessing, code point by code point — norm(preprocess(c)) = norm(c) wherever preprocess keeps one code point
    n_abs, bad_abs = 0, []
    for c in range(0x110000):
        if 0xD800 <= c <= 0xDFFF:
            continue
        ch = chr(c)
        pc = QP.preprocess(ch)
        if len(pc) != 1:
            continue
        n_abs += 1
        if spanpipe.norm_char(pc) != spanpipe.norm_char(ch):
            bad_abs.append(c)
    ctx.count('preprocess:norm-absorbs-preprocess (code points)', n_abs)
    if bad_abs:
        ctx.report('correspondence', 'norm-does-not-absorb-preprocess',
                   'norm(preprocess(c)) != norm(c) for %d code points, e.g. %s' % (len(bad_abs), ', '.join('U+%04X' % c for c in bad_abs[:8])),
                   failing_input={'code_points': bad_abs[:50]}, property_fails=False)
    variant = 'repaired (per-character)' if follows_keep == len(meta) else (
        'current (whole-string str.lower())' if follows_full == len(meta) else 'neither')
    ctx.extra['preprocess'] = {'cases': len(meta), 'agrees_with_current_variant': follows_full,
                               'agrees_with_repaired_variant': follows_keep, 'tree_follows': variant,
                               'length_changing_code_points': sorted({'U+%04X' % ord(c) for c in expanding_seen})}
    if prop == 'C01' and expanding_seen:
        # the negative theorem's witness replayed on the implementation: offsets behind U+0130 are shifted
        q = 'İ 42'
        got = QP.preprocess(q)
        ctx.report('property', 'lower-expands-U+0130',
                   'QueryProcessor.preprocess changes the length of %r: %d -> %d code points (%s); every offset '
                   'behind it is shifted' % (q, len(q), len(got), ', '.join(sorted({'U+%04X' % ord(c) for c in expanding_seen}))),
                   failing_input={'query': q, 'preprocessed': got, 'code_points': sorted({ord(c) for c in expanding_seen})},
                   property_fails=True)


_PAIRS = []


def pdriver(lines, k=8):
    """the Lean driver over `k` processes (answers in order)"""
    if len(lines) < 2000:
        return common.driver(lines)
    from concurrent.futures import ThreadPoolExecutor
    step = (len(lines) + k - 1) // k
    parts = [lines[i:i + step] for i in range(0, len(lines), step)]
    with ThreadPoolExecutor(len(parts)) as ex:
        outs = list(ex.map(common.driver, parts))
    return [a for o in outs for a in o]


def recode_only(QP, q):
    """the string `to_lower_term_sensitive` receives: the recodes applied, nothing else (from the working
    tree's own replace chain, read by the translator)."""
    if not _PAIRS:
        from translate.preprocess import replace_pairs
        _PAIRS.extend(replace_pairs())
    for a, b in _PAIRS:
        q = q.replace(a, b)
    return q


# ------------------------------------------------------------------ witnesses of the negative theorems

def replay_witnesses(ctx, prop):
    """Each `decide`d counterexample of the Props module, replayed on the implementation."""
    from . import recog
    import datetime
    common.setup_repo_imports()
    ref = datetime.datetime(2016, 11, 7, 16, 12, 0)
    wit = []
    if prop == 'C12':
        wit = [('DateTime', 'DateTimeModel', 'en-us', 'between 7 and 9:30 last night', ref, 'addTo_crossing_counterexample'),
               ('Number', 'NumberModel', 'en-us', 'minus 5 and 6', None, 'sweep_number_neg_counterexample'),
               ('DateTime', 'DateTimeModel', 'en-us', '   3pm before 5pm', ref, 'mergeModPrefix_leading_blank')]
    else:
        wit = [('Number', 'NumberModel', 'en-us', 'İ 42', None, 'preprocess_length_current_fails')]
    out = []
    for rec, mt, cul, q, rf, thm in wit:
        try:
            rs = [(r.start, r.end, r.text) for r in recog.parse(rec, mt, cul, q, rf) if r is not None]
        except Exception as e:
            rs = 'raised %s' % type(e).__name__
        if isinstance(rs, list):
            if prop == 'C12':
                holds = not spanpipe.overlaps([(a, b, c, '') for a, b, c in rs])
            else:
                holds = all(spanpipe.span_ok(q, a, b, c) is None for a, b, c in rs)
        else:
            holds = None
        out.append({'theorem': thm, 'query': q, 'results': rs, 'property_holds_on_implementation': holds})
        ctx.count('witness-replay')
    ctx.extra['negative_theorem_witnesses'] = out
    return out
