"""C19 through the model: `implementation = model` on exactly the spec cases that RTV/Props/C19.lean proves
`model = spec` for (Specs/Sequence/*/IpAddressModel*.json, GUIDModel*.json, HashtagModel / MentionModel / EmailModel / URLModel,
Specs/Choice/English/BooleanModel*.json,
Python-supported cases).  Call `model_cases(ctx)` from corr/c19.py; add `RTV.Props.C19` to PROPS_MODULES, the names
in THEOREMS to REQUIRED_THEOREMS and the names in GEN to GEN.

Compared: the fields the repository's runner compares (count, type_name, text, resolution value; score for GUID).
A disagreement implementation/model is a `correspondence` report; a disagreement model/spec (which the theorem of the
same family then also shows as a broken proof) or implementation/spec is a `property` report with the case as the
concrete failing input."""
from lib import common
from lib.common import cps
from translate import speccases

THEOREMS = ['spec_ip_cases', 'spec_ip_cases_zh', 'spec_guid_cases', 'spec_boolean_cases', 'spec_hashtag_cases',
            'spec_mention_cases', 'spec_email_cases', 'spec_url_cases', 'spec_url_cases_zh', 'spec_case_counts']
GEN = ['chartables', 'regexes', 'emojitable', 'preprocess', 'speccases', 'tlds', 'pytables', 'urlgrammar']
PROPS_MODULE = 'RTV.Props.C19'


def _expected(key, res):
    out = []
    for r in res:
        if key == 'bool':
            out.append('%s:%s:%d' % (cps(r['TypeName']), cps(r['Text']), 1 if r['Resolution']['value'] is True else 0))
        elif key == 'guid':
            out.append('%s:%s:%s:%s' % (cps(r['TypeName']), cps(r['Text']), cps(str(r['Resolution']['value'])),
                                        cps(str(r['Resolution']['score'])) if 'score' in r['Resolution'] else '*'))
        else:
            out.append('%s:%s:%s' % (cps(r['TypeName']), cps(r['Text']), cps(str(r['Resolution']['value']))))
    return ';'.join(out)


def _agree(a, b):
    """field-wise equality where `*` (score not stated by the spec) matches anything"""
    pa, pb = a.split(';') if a else [], b.split(';') if b else []
    if len(pa) != len(pb):
        return False
    for x, y in zip(pa, pb):
        fx, fy = x.split(':'), y.split(':')
        if len(fx) != len(fy) or any(u != v and '*' not in (u, v) for u, v in zip(fx, fy)):
            return False
    return True


def model_cases(ctx):
    common.setup_repo_imports()
    import recognizers_sequence
    import recognizers_choice
    from recognizers_sequence.sequence.sequence_recognizer import (recognize_ip_address, recognize_guid, recognize_hashtag,
                                                                  recognize_mention, recognize_email, recognize_url)
    simple = {'hashtag': recognize_hashtag, 'mention': recognize_mention, 'email': recognize_email,
              'urlEn': recognize_url, 'urlZh': recognize_url}
    from recognizers_choice import recognize_boolean
    common.assert_tree_modules(recognizers_sequence, recognizers_choice)
    fam = speccases.families()
    lines, meta = [], []
    for key, cases in fam.items():
        for f, idx, inp, res in cases:
            if key == 'ipEn':
                op, culture = 'spec.ip\ten\t' + cps(inp), 'en-us'
            elif key == 'ipZh':
                op, culture = 'spec.ip\tzh\t' + cps(inp), 'zh-cn'
            elif key == 'guid':
                op, culture = 'spec.guid\t' + cps(inp), 'en-us'
            elif key in ('hashtag', 'mention', 'email'):
                op, culture = 'spec.seq\t%s\t%s' % (key, cps(inp)), 'en-us'
            elif key == 'urlEn':
                op, culture = 'spec.seq\turl\t' + cps(inp), 'en-us'
            elif key == 'urlZh':
                op, culture = 'spec.seq\turlzh\t' + cps(inp), 'zh-cn'
            else:
                op, culture = 'spec.bool\t' + cps(inp), 'en-us'
            lines.append(op)
            meta.append((key, f, idx, inp, res, culture, op))
    model = common.driver(lines)
    for (key, f, idx, inp, res, culture, op), m in zip(meta, model):
        try:
            if key in ('ipEn', 'ipZh'):
                rs = recognize_ip_address(inp, culture)
                impl = ';'.join('%s:%s:%s' % (cps(r.type_name), cps(r.text), cps(str(r.resolution['value']))) for r in rs)
            elif key in simple:
                rs = simple[key](inp, culture)
                impl = ';'.join('%s:%s:%s' % (cps(r.type_name), cps(r.text), cps(str(r.resolution['value']))) for r in rs)
            elif key == 'guid':
                rs = recognize_guid(inp, culture)
                impl = ';'.join('%s:%s:%s:%s' % (cps(r.type_name), cps(r.text), cps(str(r.resolution['value'])),
                                                 cps(str(r.resolution['score']))) for r in rs)
            else:
                rs = recognize_boolean(inp, culture)
                impl = ';'.join('%s:%s:%d' % (cps(r.type_name), cps(r.text), 1 if r.resolution['value'] is True else 0) for r in rs)
        except Exception as e:
            impl = 'err:Other'
        exp = _expected(key, res)
        ctx.count('c19-model-' + key)
        if impl:
            ctx.nontriv(('c19m', key, inp))
        fi = {'op': op.split('\t')[0], 'spec_file': f, 'spec_index': idx, 'input': inp, 'culture': culture,
              'implementation': impl, 'model': m, 'spec': exp}
        if impl != m:
            ctx.report('correspondence', 'c19-model-' + key,
                       '%s #%d %r: implementation %s, model %s (spec %s)' % (f, idx, inp, impl, m, exp),
                       failing_input=fi, property_fails=not _agree(impl, exp))
        elif not _agree(m, exp):
            ctx.report('property', 'c19-spec-' + key,
                       '%s #%d %r: model and implementation give %s, the spec expects %s' % (f, idx, inp, m, exp),
                       failing_input=fi, property_fails=True)
    ctx.extra['c19_model_cases'] = {k: len(v) for k, v in fam.items()}
