"""C19 through the model: `implementation = model` on exactly the spec cases that RTV/Props/C19.lean proves
`model = spec` for (Specs/Sequence/*/IpAddressModel*.json, GUIDModel*.json, HashtagModel / MentionModel / EmailModel / URLModel,
Specs/Choice/English/BooleanModel*.json,
Python-supported cases).  Call `model_cases(ctx)` from corr/c19.py; add `RTV.Props.C19` to PROPS_MODULES, the names
in THEOREMS to REQUIRED_THEOREMS and the names in GEN to GEN.

Compared: EVERY field the Specs state for a result — count and order, TypeName, Text, Start / End where given, and
every key of Resolution (`value`, `type`, `score`; str / bool / float as text, `translate.speccases.canon`) — which is
what property C19 states ("text, type, offsets where given, and resolution fields").  The repository's own runner
compares less (never Start / End, never Resolution.type, never the boolean score; see translate/speccases.py), so two
families passed it and failed here, each in one field of every entity, until two one-line fixes of /repo (a7314f077, aeefbdd20):
  spec-field:IpAddress:Resolution.type:absent   recognize_ip_address reported {'value', 'score': 'None'} — no `type`
  spec-field:Boolean:Resolution.score:0.0       recognize_boolean reported score 0.0, the Specs state the extractor's score
(findings/specs-fields/*.diff; RTV.C19.prefix_spec_ip_type_absent / prefix_spec_boolean_score_differs are the
kernel-checked witnesses about the code before the fixes).  Both variants of the two functions are modelled; the check
probes which one the tree follows (`ip_resolution`, `boolean_score` in the evidence) and asks the driver for that
variant, so implementation = model holds on both trees, and the `spec-field:` reports come back if a tree follows the
old code.
Implementation and model are compared on the WHOLE ModelResult (type name, start, end, text, the whole resolution dict
in insertion order — also keys the Specs do not state, e.g. the IP `score`): a disagreement is a `correspondence`
report.  Implementation against spec, field by field: a `property` report `spec-field:<Model>:<field>[:<what>]` with the
case as the concrete failing input.  Keys the implementation reports beyond the Specs are counted in the evidence
(`c19_resolution_keys_beyond_specs`), never an alarm."""
from fractions import Fraction

from lib import common
from lib.common import cps
from translate import speccases

THEOREMS = ['spec_ip_cases', 'spec_ip_cases_zh', 'spec_guid_cases', 'spec_boolean_cases', 'spec_hashtag_cases',
            'spec_mention_cases', 'spec_email_cases', 'spec_url_cases', 'spec_url_cases_zh', 'spec_case_counts',
            'spec_field_counts', 'prefix_spec_ip_cases_partial', 'prefix_spec_ip_type_absent', 'prefix_spec_ip_zh',
            'prefix_spec_boolean_cases_partial', 'prefix_spec_boolean_score_differs']
GEN = ['chartables', 'regexes', 'emojitable', 'preprocess', 'speccases', 'tlds', 'pytables', 'urlgrammar']
PROPS_MODULE = 'RTV.Props.C19'
MODEL_NAME = {'ipEn': 'IpAddress', 'ipZh': 'IpAddress', 'guid': 'GUID', 'bool': 'Boolean', 'hashtag': 'Hashtag',
              'mention': 'Mention', 'email': 'Email', 'urlEn': 'URL', 'urlZh': 'URL'}


def ent_str(type_name, start, end, text, res):
    """the driver's `showEnt` format: typecps:start:end:textcps:keycps=valuecps,…"""
    return '%s:%d:%d:%s:%s' % (cps(type_name), start, end, cps(text),
                               ','.join('%s=%s' % (cps(k), cps(speccases.canon(v))) for k, v in res))


def parse_ents(line):
    """driver / implementation line -> [(type, start, end, text, [(key, value)])]; value = text, or a Fraction for
    the driver's exact `#num/den` (a float of the implementation)"""
    out = []
    for part in [p for p in line.split(';') if p]:
        t, a, b, x, res = part.split(':')
        kv = []
        for item in [i for i in res.split(',') if i]:
            k, v = item.split('=')
            if v.startswith('#'):
                n, d = v[1:].split('/')
                kv.append((common.uncps(k), Fraction(int(n), int(d)) if int(d) else None))
            else:
                kv.append((common.uncps(k), common.uncps(v)))
        out.append((common.uncps(t), int(a), int(b), common.uncps(x), kv))
    return out


def same_ents(impl, model):
    """implementation line = model line: every field equal; a float of the implementation (its repr) against the
    model's exact fraction within 1e-9"""
    if impl == model:
        return True
    if impl.startswith('err') or model.startswith('err'):
        return False
    pi, pm = parse_ents(impl), parse_ents(model)
    if len(pi) != len(pm):
        return False
    for (t1, a1, b1, x1, kv1), (t2, a2, b2, x2, kv2) in zip(pi, pm):
        if (t1, a1, b1, x1) != (t2, a2, b2, x2) or [k for k, _ in kv1] != [k for k, _ in kv2]:
            return False
        for (_, v1), (_, v2) in zip(kv1, kv2):
            if isinstance(v2, Fraction):
                try:
                    if abs(Fraction(v1) - v2) > Fraction(1, 10 ** 9):
                        return False
                except (ValueError, ZeroDivisionError):
                    return False
            elif v1 != v2:
                return False
    return True


def differing_fields(ents, res):
    """fields of the expected results `res` (Specs JSON) that the reported `ents` do not meet ->
    [(field, what, detail)]; [] = the case passes in every stated field"""
    if len(ents) != len(res):
        return [('count', '', 'reports %d entities, the case expects %d' % (len(ents), len(res)))]
    out = []
    for i, ((t, a, b, x, kv), r) in enumerate(zip(ents, res)):
        et, ex, ea, eb, eres = speccases.expected_fields(r)
        d = dict(kv)
        for name, got, want in (('TypeName', t, et), ('Text', x, ex), ('Start', a, ea), ('End', b, eb)):
            if want is not None and got != want:
                out.append((name, '', 'entity %d: %s %r, expected %r' % (i, name, got, want)))
        for k, v in eres:
            if k not in d:
                out.append(('Resolution.' + k, ':absent', 'entity %d: no Resolution.%s (keys %s), expected %r' % (
                    i, k, sorted(d), v)))
            elif d[k] != v:
                # the reported value is part of the signature when it is short (a constant such as 0.0 / None):
                # another wrong value is another finding
                what = ':' + d[k] if (k != 'value' and len(d[k]) <= 6) else ''
                out.append(('Resolution.' + k, what, 'entity %d: Resolution.%s %r, expected %r' % (i, k, d[k], v)))
    return out


def model_cases(ctx):
    common.setup_repo_imports()
    import recognizers_sequence
    import recognizers_choice
    from recognizers_sequence.sequence.sequence_recognizer import (recognize_ip_address, recognize_guid, recognize_hashtag,
                                                                  recognize_mention, recognize_email, recognize_url)
    from recognizers_choice import recognize_boolean
    common.assert_tree_modules(recognizers_sequence, recognizers_choice)
    fns = {'ipEn': recognize_ip_address, 'ipZh': recognize_ip_address, 'guid': recognize_guid, 'bool': recognize_boolean,
           'hashtag': recognize_hashtag, 'mention': recognize_mention, 'email': recognize_email,
           'urlEn': recognize_url, 'urlZh': recognize_url}
    fam = speccases.families()
    # which variant of the two repaired functions does the working tree follow? (both are modelled)
    try:
        probe = recognize_ip_address('1.1.1.1', 'en-us')[0].resolution
    except Exception:
        probe = {}
    ip_v = 'typed' if 'type' in probe else 'score'
    try:
        bprobe = recognize_boolean('yes', 'en-us')[0].resolution.get('score')
    except Exception:
        bprobe = None
    bool_v = 'pscore0' if bprobe == 0.0 else 'fixed'
    ctx.extra['c19_variants'] = {'ip_resolution': ip_v, 'boolean_score': bool_v}
    lines, meta = [], []
    for key, cases in fam.items():
        for f, idx, inp, res in cases:
            if key == 'ipEn':
                op, culture = 'spec.ip\ten\t%s\t%s' % (ip_v, cps(inp)), 'en-us'
            elif key == 'ipZh':
                op, culture = 'spec.ip\tzh\t%s\t%s' % (ip_v, cps(inp)), 'zh-cn'
            elif key == 'guid':
                op, culture = 'spec.guid\t' + cps(inp), 'en-us'
            elif key in ('hashtag', 'mention', 'email'):
                op, culture = 'spec.seq\t%s\t%s' % (key, cps(inp)), 'en-us'
            elif key == 'urlEn':
                op, culture = 'spec.seq\turl\t' + cps(inp), 'en-us'
            elif key == 'urlZh':
                op, culture = 'spec.seq\turlzh\t' + cps(inp), 'zh-cn'
            else:
                op, culture = 'spec.bool\t%s\t%s' % (bool_v, cps(inp)), 'en-us'
            lines.append(op)
            meta.append((key, f, idx, inp, res, culture, op))
    model = common.driver(lines)
    beyond, stated, allok = {}, {}, {}
    for (key, f, idx, inp, res, culture, op), m in zip(meta, model):
        try:
            rs = fns[key](inp, culture)
            impl = ';'.join(ent_str(r.type_name, r.start, r.end, r.text, list(r.resolution.items())) for r in rs)
        except Exception as e:
            rs, impl = None, 'err:Other'
        ctx.count('c19-model-' + key)
        if impl:
            ctx.nontriv(('c19m', key, inp))
        fi = {'op': op.split('\t')[0], 'spec_file': f, 'spec_index': idx, 'input': inp, 'culture': culture,
              'implementation': impl, 'model': m,
              'spec': [speccases.expected_fields(r) for r in res]}
        if not same_ents(impl, m):
            ctx.report('correspondence', 'c19-model-' + key,
                       '%s #%d %r: implementation %s, model %s' % (f, idx, inp, impl, m), failing_input=fi)
        # implementation against the spec, field by field
        if rs is None:
            diffs = [('exception', '', 'the recogniser raises')]
        else:
            diffs = differing_fields(parse_ents(impl), res)
            for r, e in zip(rs, res):
                for k in r.resolution:
                    if k not in (e.get('Resolution') or {}):
                        beyond.setdefault(key, {}).setdefault(k, 0)
                        beyond[key][k] += 1
        for r in res:
            for fld in [x for x in ('Start', 'End') if x in r] + ['Resolution.' + k for k in (r.get('Resolution') or {})]:
                stated.setdefault(key, {}).setdefault(fld, 0)
                stated[key][fld] += 1
        for field, what, detail in diffs:
            ctx.report('property', 'spec-field:%s:%s%s' % (MODEL_NAME[key], field, what),
                       '%s #%d %r (%s): %s' % (f, idx, inp, culture, detail), failing_input=fi, property_fails=True)
        if not diffs:
            allok[key] = allok.get(key, 0) + 1
    ctx.extra['c19_model_cases'] = {k: len(v) for k, v in fam.items()}
    ctx.extra['c19_fields_stated_by_specs'] = stated
    ctx.extra['c19_cases_agreeing_in_every_stated_field'] = allok
    ctx.extra['c19_resolution_keys_beyond_specs'] = beyond
