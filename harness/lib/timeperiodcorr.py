"""Unit correspondence of RTV.Model.TimePeriod (Lean driver ops `tp.*`) against the real methods of
BaseTimePeriodParser (parse_pure_numbers, parse_specific_time, parse_time_of_day, parse; English and Spanish
configurations) and BaseDateTimeParser (parse_basic_regex, parse_special_time_of_date,
parser_duration_with_ago_and_later; AgoLaterUtil.get_date_result), plus the pipeline oracle for explicit clock-time
ranges ("from A to B" = exactly the stated end points; 12 am = 00, 12 pm = 12).

The model takes the regex outcomes as inputs.  They are recomputed here with the same configuration objects and the same
calls the method makes (`regex.search` of the configured pattern on the stripped text, `captures`, `get_group`, the am / pm
description regexes, `MatchingUtil.contains_*`), never read off the method's result.
Called from corr/c07.py: `run(ctx, T)`."""
import datetime as dt

from . import common, dtres, calcorr
from .common import cps
from .calcorr import fmt_dt, ref_fields

REFS = [dt.datetime(2016, 11, 7, 0, 0, 0), dt.datetime(2016, 11, 7, 23, 59, 59), dt.datetime(2020, 2, 29, 12, 0, 0),
        dt.datetime(2019, 12, 31, 23, 59, 59), dt.datetime(2021, 1, 1, 0, 0, 0), dt.datetime(2020, 2, 28, 10, 30, 0),
        dt.datetime(2019, 3, 1, 0, 0, 1), dt.datetime(1950, 1, 31, 6, 7, 8), dt.datetime(2089, 4, 30, 18, 0, 0)]

FORMS = ['from %s to %s', '%s to %s', 'between %s and %s', '%s - %s', '%s till %s', 'from %s until %s']
ES_FORMS = ['de %s a %s', 'entre %s y %s', 'desde las %s hasta las %s', 'de las %s a las %s']
DESCS = ['', 'am', 'pm', ' a.m.', ' p.m.', ' p', " o'clock", ' in the afternoon', ' in the morning', ' at night', ' in the evening']
HOURS = ['0', '1', '3', '5', '10', '11', '12', '13', '15', '23', '24', '03', 'three', 'five', 'eleven', 'twelve', 'zero', 'twenty']
CLOCKS = ['3:30', '12:00', '11:59', '5:05', '10:10', '0:30', '12:30', '23:59', '10:00:05', '11:00:20', '3.30', '5:10', '4:00']


def list_field(xs):
    return ';'.join(cps(x) for x in xs) if xs else '[]'


def guarded(fn):
    try:
        return fn()
    except Exception as e:
        return dtres.err_kind(e)


def show_period(r, ref):
    if not r.success:
        return 'none'
    mid = ref.replace(hour=0, minute=0, second=0, microsecond=0)
    b = int((r.future_value.start - mid).total_seconds())
    e = int((r.future_value.end - mid).total_seconds())
    if (r.past_value.start, r.past_value.end) != (r.future_value.start, r.future_value.end):
        return 'past-differs'
    return 'ok|%s|%s|%s|%d|%d' % (cps(r.timex or ''), cps(r.comment or ''), cps(r.mod or ''), b, e)


def norm_err(a, m):
    """the model names the exception class, the harness only its family"""
    if a.startswith('err:') and m.startswith('err:'):
        fam = {'err:TypeError': 'err:Other', 'err:AttributeError': 'err:Other', 'err:OverflowError': 'err:Other'}
        return fam.get(a, a), fam.get(m, m)
    return a, m


class Parsers:
    def __init__(self, T):
        from recognizers_date_time.date_time.english.common_configs import EnglishCommonDateTimeParserConfiguration
        from recognizers_date_time.date_time.spanish.common_configs import SpanishCommonDateTimeParserConfiguration
        from recognizers_date_time.date_time.utilities import MatchingUtil, AgoLaterUtil, AgoLaterMode
        self.T = T
        self.en = EnglishCommonDateTimeParserConfiguration()
        self.es = SpanishCommonDateTimeParserConfiguration()
        self.MatchingUtil, self.AgoLaterUtil, self.AgoLaterMode = MatchingUtil, AgoLaterUtil, AgoLaterMode
        common.assert_tree_modules(__import__('recognizers_date_time'))

    def tpp(self, cu):
        return (self.en if cu == 'en' else self.es).time_period_parser

    def dtp(self, cu='en'):
        return (self.en if cu == 'en' else self.es).date_time_parser


def variant_of_tree(P):
    """Which of the three proposed repairs of parse_specific_time the working tree contains (probed on the real method)."""
    tpp = P.tpp('en')
    R = REFS[0]

    def probe(text):
        try:
            return tpp.parse_specific_time(text, R)
        except Exception:
            return None
    a = probe('from 10pm to 12am')
    b = probe('from 10:00:05 to 11:00:20')
    c = probe('from 10 to 5:10pm')
    right_am_ge = bool(a is not None and a.success and a.timex.startswith('(T22,T00'))
    seconds_bail = bool(b is not None and not b.success)
    minute_by_span = bool(c is not None and c.success and c.timex.startswith('(T10,'))
    return dtres.b(right_am_ge) + dtres.b(seconds_bail) + dtres.b(minute_by_span)


# ---------------------------------------------------------------- texts

def range_texts(ctx):
    r = ctx.rng('tp-texts')
    out = []
    # boundary first: every hour x every description on one side, both sides described, one clock side
    for f in FORMS[:3]:
        for h1 in HOURS:
            for h2 in ('5', '12', '0', '24', 'three'):
                for d2 in DESCS:
                    out.append(f % (h1, h2 + d2))
        for h2 in HOURS:
            for d1 in ('am', 'pm', ' a.m.'):
                for d2 in ('', 'am', 'pm'):
                    out.append(f % ('10' + d1, h2 + d2))
                    out.append(f % ('12' + d1, h2 + d2))
        for c in CLOCKS:
            for h in ('4', '10', '12', '5', '0'):
                for d1 in ('', 'am', 'pm'):
                    for d2 in ('', 'am', 'pm'):
                        out.append(f % (c + d1, h + d2))
                        out.append(f % (h + d1, c + d2))
            for c2 in CLOCKS[:6]:
                for d2 in ('', 'am', 'pm'):
                    out.append(f % (c, c2 + d2))
    n = 6000 if ctx.thorough else 900
    for _ in range(n):
        f = r.choice(FORMS)
        side = lambda: r.choice(HOURS + CLOCKS + [str(r.randint(0, 24)), '%d:%02d' % (r.randint(0, 24), r.randint(0, 59)),
                                                  '%d:%02d:%02d' % (r.randint(0, 23), r.randint(0, 59), r.randint(0, 59))])
        out.append(f % (side() + r.choice(DESCS[:6]), side() + r.choice(DESCS)))
    out += ['  from 3 to 5 pm ', 'from 3 to 5', '3 to 5', 'it is from 3 to 5pm', 'from ٣ to ٥ pm', 'from 3pm to 5pm tomorrow',
            'between 1500 and 1700', 'between 0900 and 1730 pm']
    seen, uniq = set(), []
    for s in out:
        if s not in seen:
            seen.add(s)
            uniq.append(s)
    return uniq


def es_range_texts(ctx):
    out = []
    hours = ['0', '1', '3', '11', '12', '13', '23', '24', 'tres', 'once']
    descs = ['', ' am', ' pm', ' a.m.', ' p.m.', ' de la tarde', ' de la mañana', ' de la noche']
    for f in ES_FORMS:
        for h1 in hours:
            for h2 in hours[:8]:
                for d2 in descs:
                    out.append(f % (h1, h2 + d2))
        for c in ('3:30', '12:00', '5:05', '10:10'):
            for d in descs[:5]:
                out.append(f % (c, '5' + d))
                out.append(f % ('10', c + d))
    return out


# ---------------------------------------------------------------- parse_pure_numbers / parse_specific_time

def pure_line(P, cu, text):
    rx, g = P.T.regex, P.T.RegExpUtility.get_group
    cfg = P.tpp(cu).config
    s = text.strip().lower()
    m = rx.search(cfg.pure_number_from_to_regex, s) or rx.search(cfg.pure_number_between_and_regex, s)
    if not m or m.start() != 0:
        return None
    ld, rd = g(m, 'leftDesc'), g(m, 'rightDesc')
    uc = cfg.utility_configuration
    ra = bool(rd and rx.search(uc.am_desc_regex, rd.lower()))
    rp = bool(rd and rx.search(uc.pm_desc__regex, rd.lower()))
    return '\t'.join(['tp.pure', cu, list_field(m.captures('hour')), cps(ld), cps(rd), cps(g(m, 'am')), cps(g(m, 'pm')),
                      dtres.b(ra), dtres.b(rp)])


def spec_line(P, cu, text, variant):
    rx, g = P.T.regex, P.T.RegExpUtility.get_group
    cfg = P.tpp(cu).config
    s = text.strip().lower()
    m = rx.search(cfg.specific_time_from_to_regex, s) or rx.search(cfg.specific_time_between_and_regex, s)
    if not m or m.start() != 0:
        return None
    mins = m.captures('min')
    first_in_1 = bool(mins and m.starts('min')[0] < m.end('time1'))
    return '\t'.join(['tp.spec', variant, cu, list_field(m.captures('hour')), list_field(mins), list_field(m.captures('desc')),
                      cps(g(m, 'time1')), cps(g(m, 'time2')), cps(g(m, 'leftDesc')), cps(g(m, 'rightDesc')),
                      dtres.b(first_in_1), dtres.b(bool(m.captures('sec')))])


def unit_ranges(ctx, P, variant):
    jobs = [('en', t) for t in range_texts(ctx)] + [('es', t) for t in es_range_texts(ctx)]
    lines, impl, meta = [], [], []
    pre_none = 0
    for i, (cu, text) in enumerate(jobs):
        R = REFS[i % len(REFS)]
        tpp = P.tpp(cu)
        for kind, meth, mk in (('pure', tpp.parse_pure_numbers, lambda: pure_line(P, cu, text)),
                               ('spec', tpp.parse_specific_time, lambda: spec_line(P, cu, text, variant))):
            a = guarded(lambda: show_period(meth(text, R), R))
            line = mk()
            if line is None:
                # the code returns before any computation: `success` must be False
                pre_none += 1
                if a != 'none':
                    dtres.report(ctx, 'correspondence', 'timeperiod-' + kind, '%s(%r): no match at 0 but implementation %s' % (kind, text, a),
                                 failing_input={'call': kind, 'culture': cu, 'source': text, 'implementation': a})
                continue
            lines.append(line)
            impl.append(a)
            meta.append((kind, cu, text, R))
    model = common.driver(lines)
    hist = {}
    for (kind, cu, text, R), l, a, m in zip(meta, lines, impl, model):
        hist[(kind, cu)] = hist.get((kind, cu), 0) + 1
        if a.startswith('ok|'):
            ctx.nontriv(('tp', kind, cu, text))
        a2, m2 = norm_err(a, m)
        if a2 != m2:
            dtres.report(ctx, 'correspondence', 'timeperiod-' + kind, 'parse_%s(%r, %s) [%s]: implementation %s, model %s' % (
                'pure_numbers' if kind == 'pure' else 'specific_time', text, R, cu, a, m),
                failing_input={'op': l, 'culture': cu, 'source': text, 'reference': str(R), 'implementation': a, 'model': m})
    for (kind, cu), n in sorted(hist.items()):
        ctx.count('BaseTimePeriodParser.parse_%s:%s' % ('pure_numbers' if kind == 'pure' else 'specific_time', cu), n)
    ctx.count('BaseTimePeriodParser: no match at offset 0', pre_none)
    if lines:
        ctx.sample({'op': lines[0], 'implementation': impl[0]})
    return jobs


# ---------------------------------------------------------------- parse_time_of_day

EN_TOD = ['morning', 'afternoon', 'evening', 'night', 'daytime', 'business hours', 'business hour', 'breakfast', 'brunch', 'lunch',
          'lunchtime', 'lunch time', 'dinner', 'dinnertime', 'supper', 'nighttime', 'night-time', 'mornings', 'nights', 'midday',
          'noon', 'dawn', 'hour', 'the morning', 'tomorrow morning', 'daytimes', 'in the daytime']
ES_TOD = ['madrugada', 'mañana', 'la mañana', 'pasado mediodia', 'pasado el mediodía', 'tarde', 'noche', 'tardes', 'noches',
          'la madrugada', 'mediodia', 'por la tarde', 'en la noche', 'temprano en la mañana', 'tarde en la noche', 'dia']


def unit_time_of_day(ctx, P):
    rx, g = P.T.regex, P.T.RegExpUtility.get_group
    texts = []
    for w in EN_TOD:
        for pre in ('', 'in the ', 'early ', 'late ', 'in the early ', 'in the late ', 'later ', 'earlier ', 'early in the ',
                    'late-', ' ', 'at '):
            texts.append(('en', pre + w))
        texts.append(('en', w + ' '))
        texts.append(('en', 'early ' + w + ' early '))
    for w in ES_TOD:
        for pre in ('', 'en la ', 'por la ', 'temprano en la ', 'tarde en la ', ' '):
            texts.append(('es', pre + w))
    lines, impl, meta = [], [], []
    for i, (cu, text) in enumerate(texts):
        R = REFS[i % len(REFS)]
        tpp = P.tpp(cu)
        a = guarded(lambda: show_period(tpp.parse_time_of_day(text, R), R))
        m = rx.search(tpp.config.time_of_day_regex, text)
        early = (g(m, 'early') or '') if m is not None else ''
        late = (g(m, 'late') or '') if m is not None else ''
        lines.append('\t'.join(['tp.tod', cu, cps(text), cps(early), cps(late)]))
        impl.append(a)
        meta.append((cu, text, R))
    model = common.driver(lines)
    for (cu, text, R), l, a, m in zip(meta, lines, impl, model):
        if a.startswith('ok|'):
            ctx.nontriv(('tod', cu, text))
        a2, m2 = norm_err(a, m)
        if a2 != m2:
            dtres.report(ctx, 'correspondence', 'timeperiod-time_of_day', 'parse_time_of_day(%r) [%s]: implementation %s, model %s' % (
                text, cu, a, m), failing_input={'op': l, 'culture': cu, 'source': text, 'implementation': a, 'model': m})
    ctx.count('BaseTimePeriodParser.parse_time_of_day', len(lines))
    # the table behind it, row by row (TimexUtil.parse_time_of_day on every Constants code the hooks can produce)
    from recognizers_date_time.date_time.utilities import TimexUtil
    C = P.T.Constants
    rows = {}
    for name in ('EARLY_MORNING', 'MORNING', 'MID_DAY', 'AFTERNOON', 'EVENING', 'DAYTIME', 'BUSINESS_HOUR', 'NIGHT',
                 'MEALTIME_BREAKFAST', 'MEALTIME_BRUNCH', 'MEALTIME_LUNCH', 'MEALTIME_DINNER'):
        code = getattr(C, name)
        t = TimexUtil.parse_time_of_day(code)
        rows[name] = (code, t.timex, t.begin_hour, t.end_hour, t.end_min)
        ok = t.timex == code and 0 <= t.begin_hour < t.end_hour <= 24 and 0 <= t.end_min <= 59
        if not ok:
            ctx.report('property', 'time-of-day-row:' + name, 'TimexUtil.parse_time_of_day(%r) = %r: not begin < end <= 24 with its own code' % (
                code, rows[name]), failing_input={'op': 'TimexUtil.parse_time_of_day', 'code': code, 'row': list(rows[name])},
                property_fails=True)
    ctx.extra['time_of_day_rows'] = rows


# ---------------------------------------------------------------- BaseTimePeriodParser.parse (order of the sub-parsers)

def unit_parse_order(ctx, P, jobs):
    from recognizers_text.extractor import ExtractResult
    r = ctx.rng('tp-order')
    sel = jobs[:: max(1, len(jobs) // (1500 if ctx.thorough else 350))] + [('en', 'morning'), ('en', 'late night'), ('en', 'xyz')]
    lines, impl, meta = [], [], []
    for i, (cu, text) in enumerate(sel):
        R = REFS[i % len(REFS)]
        tpp = P.tpp(cu)
        mid = R.replace(hour=0, minute=0, second=0)
        subs = []
        for meth in (tpp.parse_pure_numbers, tpp.parse_specific_time, tpp.merge_two_time_points, tpp.parse_time_of_day):
            try:
                x = meth(text.lower(), R)
                subs.append('ok|%s|%d|%d' % (cps(x.timex or ''), int((x.future_value.start - mid).total_seconds()),
                                             int((x.future_value.end - mid).total_seconds())) if x.success else 'none')
            except Exception:
                subs.append('err')
        er = ExtractResult()
        er.start, er.length, er.text, er.type = 0, len(text), text, tpp.parser_type_name
        try:
            pr = tpp.parse(er, R)
            TT = P.T.TimeTypeConstants
            a = 'none' if pr.value is None else '%s|%s|%s' % (cps(pr.timex_str), cps(pr.value.future_resolution[TT.START_TIME]),
                                                             cps(pr.value.future_resolution[TT.END_TIME]))
        except Exception:
            a = 'none' if 'err' in subs else 'err:Other'
        lines.append('\t'.join(['tp.parse'] + subs))
        impl.append(a)
        meta.append((cu, text, R))
    model = common.driver(lines)
    for (cu, text, R), l, a, m in zip(meta, lines, impl, model):
        if a != m:
            dtres.report(ctx, 'correspondence', 'timeperiod-parse', 'BaseTimePeriodParser.parse(%r) [%s]: implementation %s, model %s' % (
                text, cu, a, m), failing_input={'op': l, 'culture': cu, 'source': text, 'implementation': a, 'model': m})
    ctx.count('BaseTimePeriodParser.parse', len(lines))


# ---------------------------------------------------------------- BaseDateTimeParser: now, end of day, ago / later

NOW_TEXTS = ['now', 'right now', 'right  now', 'recently', 'previously', 'asap', 'as soon as possible', 'at present', 'at this time',
             'at the moment', 'at this minute', 'at the present time', ' now ', 'now now', 'not now', 'nowadays', 'NOW', 'right now!',
             'now and then', 'recently now', '']


def boundary_refs(ctx, n):
    r = ctx.rng('tp-refs')
    days = [dt.date(2016, 11, 7), dt.date(2020, 2, 29), dt.date(2019, 2, 28), dt.date(2019, 12, 31), dt.date(2021, 1, 1),
            dt.date(2020, 3, 1), dt.date(2019, 3, 31), dt.date(2020, 1, 31), dt.date(2000, 2, 29), dt.date(1900, 3, 1)]
    days += r.sample(calcorr.boundary_days(), min(n, 40)) + calcorr.seeded_days(r, n)
    times = [dt.time(0, 0, 0), dt.time(23, 59, 59), dt.time(12, 0, 0), dt.time(0, 0, 1), dt.time(10, 30, 0)]
    return [dt.datetime.combine(d, times[i % len(times)]) for i, d in enumerate(days)]


def unit_now(ctx, P, refs):
    rx = P.T.regex
    dtp = P.dtp('en')
    lines, impl = [], []
    for i, text in enumerate(NOW_TEXTS):
        for R in refs[i % 3:: 3][:12]:
            s = text.strip().lower()
            m = rx.search(dtp.config.now_regex, s)
            whole = bool(m and m.start() == 0 and m.group() == s)

            def run():
                x = dtp.parse_basic_regex(text, R)
                return '%s|%s|%s' % (cps(x.timex or ''), fmt_dt(x.future_value), fmt_dt(x.past_value)) if x.success else 'none'
            impl.append(guarded(run))
            lines.append('\t'.join(['tp.now', 'en', cps(text.lower()), dtres.b(whole), ref_fields(R)]))   # the model's texts are lower-cased
            if whole:
                ctx.nontriv(('now', text))
    model = common.driver(lines)
    for l, a, m in zip(lines, impl, model):
        if a != m:
            dtres.report(ctx, 'correspondence', 'datetime-basic_regex', '%s: implementation %s, model %s' % (l.replace('\t', ' '), a, m),
                         failing_input={'op': l, 'implementation': a, 'model': m})
    ctx.count('BaseDateTimeParser.parse_basic_regex', len(lines))


EOD_TEXTS = ['end of day', 'eod', 'end of the day', 'the end of the day', 'end of tomorrow', 'end of yesterday', 'end of next monday',
             'tomorrow end of day', 'end of 2020-02-28', 'end of feb 29', 'the end of may 5th', 'tomorrow', 'end of', 'end of today',
             'end of 2019-02-30', 'at the end of 12/31/2019', 'end of sunday', 'end of the 15th', 'end of 2020-02-29 and 2020-03-01',
             'may 5th end of']


def unit_end_of_day(ctx, P, refs):
    rx = P.T.regex
    dtp = P.dtp('en')
    cfg = dtp.config
    lines, impl, meta = [], [], []
    for i, text in enumerate(EOD_TEXTS):
        for R in refs[i % 4:: 4][:8]:
            a = guarded(lambda: dtres.res_str(dtp.parse_special_time_of_date(text, R)))
            eod = bool(rx.search(cfg.unspecific_end_of_regex, text))
            ers = cfg.date_extractor.extract(text, R)
            hit, pr_f = False, 'none'
            if len(ers) == 1:
                er = ers[0]
                before, after = text[0:er.start], text[:er.start + er.end]
                hit = bool(rx.search(cfg.specific_end_of_regex, before) or rx.search(cfg.specific_end_of_regex, after))
                if hit and not eod:
                    pr = cfg.date_parser.parse(er, R)
                    if pr.value is not None:
                        pr_f = '%s|%s|%s' % (cps(pr.timex_str), dtres.dt_field(pr.value.future_value), dtres.dt_field(pr.value.past_value))
            lines.append('\t'.join(['tp.eod', dtres.b(eod), dtres.dt_field(R), str(len(ers)), dtres.b(hit), pr_f]))
            impl.append(a)
            meta.append((text, R))
    model = common.driver(lines)
    for (text, R), l, a, m in zip(meta, lines, impl, model):
        if a.startswith('1|'):
            ctx.nontriv(('eod', text))
        a2, m2 = norm_err(a, m)
        if a2 != m2:
            dtres.report(ctx, 'correspondence', 'datetime-special_time_of_date', 'parse_special_time_of_date(%r, %s): implementation %s, model %s' % (
                text, R, a, m), failing_input={'op': l, 'source': text, 'reference': str(R), 'implementation': a, 'model': m})
    ctx.count('BaseDateTimeParser.parse_special_time_of_date', len(lines))


AGO_UNITS = ['hour', 'hours', 'hr', 'hrs', 'h', 'minute', 'minutes', 'min', 'mins', 'second', 'seconds', 'sec', 'secs', 'day', 'days',
             'week', 'weeks', 'month', 'months', 'year', 'years', 'decade', 'fortnight']
AGO_FORMS = ['%s ago', 'in %s', '%s later', '%s from now', '%s', '%s earlier', 'within %s', '%s before', '%s from today']
NS = [1, 2, 24, 36, 60, 90, 3600, 86400, 100000]


def unit_ago_later(ctx, P, refs):
    rx = P.T.regex
    r = ctx.rng('tp-ago')
    dtp = P.dtp('en')
    cfg = dtp.config
    MU = P.MatchingUtil
    texts = []
    for u in AGO_UNITS:
        for f in AGO_FORMS:
            for n in ([1, 24, 60] if f in AGO_FORMS[:3] else [3]):
                texts.append(f % ('%d %s' % (n, u)))
    texts += ['1.5 hours ago', 'in 2.5 minutes', '1 hour and 30 minutes ago', 'in 1 hour 20 minutes', 'an hour ago', 'in half an hour',
              'a minute ago', 'in a few hours', '0 hours ago', 'in 0 seconds', 'three hours ago', 'ago', '', 'in twenty minutes']
    for _ in range(400 if ctx.thorough else 60):
        texts.append(r.choice(AGO_FORMS[:4]) % ('%d %s' % (r.choice(NS + [r.randint(1, 200000)]), r.choice(AGO_UNITS[:13]))))
    lines, impl, meta = [], [], []
    for i, text in enumerate(texts):
        for R in (refs[i % len(refs)], refs[(7 * i + 3) % len(refs)]):
            def run():
                x = dtp.parser_duration_with_ago_and_later(text, R)
                if not x.success:
                    return 'none'
                if x.future_value != x.past_value:
                    return 'past-differs'
                sub = x.sub_date_time_entities[0].value.mod if x.sub_date_time_entities else ''
                return '%s|%s|%s' % (cps(x.timex or ''), fmt_dt(x.future_value), cps(sub or ''))
            a = guarded(run)
            # the model's inputs, by the calls the method makes
            ers = cfg.duration_extractor.extract(text, R)
            kind, vt, ts, su, code, ago, later = 'none', '-', '-', 'none', 'none', False, False
            if ers:
                d = ers[0]
                pr = cfg.duration_parser.parse(d, R)
                kind = 'ok' if pr.value else 'novalue'
                if pr.value:
                    vt, ts = cps(pr.value.timex or ''), cps(pr.timex_str or '')
                m = rx.search(cfg.unit_regex, text)
                if m:
                    unit = m.group('unit')
                    su = cps(unit or '')
                    uc = cfg.unit_map.get(unit)
                    code = 'none' if uc is None else cps(uc)
                    after, before = text[d.start + d.length:], text[0:d.start]
                    uconf = cfg.utility_configuration
                    ago = bool(MU.contains_ago_later_index(after, uconf.ago_regex, True))
                    later = bool(MU.contains_ago_later_index(after, uconf.later_regex, False) or
                                 MU.contains_term_index(before, uconf.in_connector_regex))
            lines.append('\t'.join(['tp.ago', kind, vt, ts, su, code, dtres.b(ago), dtres.b(later), ref_fields(R)]))
            impl.append(a)
            meta.append((text, R))
    # AgoLaterUtil.get_date_result: every unit in both modes
    for i, R in enumerate(refs):
        for unit in ('D', 'W', 'MON', 'Y', 'H', 'M', 'S', 'DC'):
            for n in ([1, 24, 60, 3600, 86400] if i % 4 == 0 else [r.choice(NS), r.randint(1, 5000)]):
                if unit in ('MON', 'Y') and n > 400:
                    n = n % 400 + 1
                for fut in (True, False):
                    for date_mode in (True, False):
                        def run2():
                            x = P.AgoLaterUtil.get_date_result(unit, n, R, fut, P.AgoLaterMode.DATE if date_mode else P.AgoLaterMode.DATETIME)
                            return '%s|%s' % (cps(x.timex), fmt_dt(x.future_value)) if x.success else 'none'
                        lines.append('\t'.join(['tp.gdr', unit, str(n), ref_fields(R), dtres.b(fut), dtres.b(date_mode)]))
                        impl.append(guarded(run2))
                        meta.append(('get_date_result', R))
    model = common.driver(lines)
    n_ago = 0
    for (text, R), l, a, m in zip(meta, lines, impl, model):
        if l.startswith('tp.ago'):
            n_ago += 1
            if not a.startswith(('none', 'err')):
                ctx.nontriv(('ago', text))
        a2, m2 = norm_err(a, m)
        if a2 != m2:
            sig = 'datetime-ago_later' if l.startswith('tp.ago') else 'agolater-get_date_result-modes'
            dtres.report(ctx, 'correspondence', sig, '%s (%r, %s): implementation %s, model %s' % (l.split('\t')[0], text, R, a, m),
                         failing_input={'op': l, 'source': text, 'reference': str(R), 'implementation': a, 'model': m})
    ctx.count('BaseDateTimeParser.parser_duration_with_ago_and_later', n_ago)
    ctx.count('AgoLaterUtil.get_date_result (7 units x 2 modes)', len(lines) - n_ago)


# ---------------------------------------------------------------- pipeline: explicit clock-time ranges

def clock(h12, desc, mi, se):
    """24-hour reading of a 12-hour clock time with its designator: 12 am = 00, 12 pm = 12."""
    h = h12 % 12 + (12 if desc == 'pm' else 0)
    return '%02d:%02d:%02d' % (h, mi, se)


def point_ok(observed, spec):
    """spec: the exact 'HH:MM:SS', or ('mod12', h, m, s) = minutes / seconds exact, hour equal modulo 12"""
    if not isinstance(observed, str) or len(observed) != 8:
        return False
    if isinstance(spec, str):
        return observed == spec
    _, h, m, s_ = spec
    return observed[2:] == ':%02d:%02d' % (m, s_) and observed[:2].isdigit() and int(observed[:2]) % 12 == h % 12


def show_spec(spec):
    return spec if isinstance(spec, str) else '%02d:%02d:%02d' % (spec[1] % 12, spec[2], spec[3])


def pipeline(ctx, T):
    r = ctx.rng('tp-pipe')
    cases = []   # (query, expected start, expected end, family)
    hs = [12, 1, 3, 9, 10, 11]
    for f in ('from %s to %s', 'between %s and %s', '%s to %s'):
        for h1 in hs:
            for d1 in ('am', 'pm'):
                for h2 in hs:
                    for d2 in ('am', 'pm'):
                        if (h1, d1) == (h2, d2):
                            continue
                        if f != 'from %s to %s' and not (12 in (h1, h2) or r.random() < 0.12):
                            continue
                        cases.append((f % ('%d%s' % (h1, d1), '%d%s' % (h2, d2)), clock(h1, d1, 0, 0), clock(h2, d2, 0, 0), 'hours'))
    for _ in range(400 if ctx.thorough else 70):
        h1, h2 = r.choice(hs), r.choice(hs)
        d1, d2 = r.choice(['am', 'pm']), r.choice(['am', 'pm'])
        m1, m2 = r.choice([0, 5, 10, 30, 59]), r.choice([0, 5, 10, 30, 59])
        kind = r.choice(['min-both', 'min-left', 'min-right', 'sec-both', 'sec-right'])
        s1 = r.choice([5, 20, 59]) if kind == 'sec-both' else 0
        s2 = r.choice([5, 20, 59]) if kind.startswith('sec') else 0

        def txt(h, m, s, d, with_min, with_sec):
            return ('%d:%02d:%02d%s' % (h, m, s, d)) if with_sec else (('%d:%02d%s' % (h, m, d)) if with_min else '%d%s' % (h, d))
        lm = kind in ('min-both', 'min-left', 'sec-both')
        rm = kind in ('min-both', 'min-right', 'sec-both', 'sec-right')
        a = txt(h1, m1, s1, d1, lm, kind == 'sec-both')
        b = txt(h2, m2, s2, d2, rm, kind.startswith('sec'))
        ea = clock(h1, d1, m1 if lm else 0, s1 if kind == 'sec-both' else 0)
        eb = clock(h2, d2, m2 if rm else 0, s2 if kind.startswith('sec') else 0)
        if ea == eb:
            continue
        cases.append(('from %s to %s' % (a, b), ea, eb, kind))
    # one side designated only: the designated end is exact, the other keeps its minutes and its hour modulo 12 (C07: an
    # hour without am / pm has the two readings twelve hours apart; which one the range takes is the library's choice)
    for h1 in hs:
        for h2 in hs:
            if h1 == h2:
                continue    # 'from 1 to 1am': no range is stated (the code answers a 24-hour one: `pure_edge_witnesses`)
            for d in ('am', 'pm'):
                if r.random() < (1.0 if ctx.thorough else 0.45):
                    cases.append(('from %d to %d%s' % (h1, h2, d), ('mod12', h1, 0, 0), clock(h2, d, 0, 0), 'one-sided'))
                if r.random() < (1.0 if ctx.thorough else 0.45):
                    cases.append(('from %d%s to %d' % (h1, d, h2), clock(h1, d, 0, 0), ('mod12', h2, 0, 0), 'one-sided'))
    for _ in range(200 if ctx.thorough else 40):
        h1, h2, d = r.choice(hs), r.choice(hs), r.choice(['am', 'pm'])
        m1, m2 = r.choice([0, 5, 10, 30, 59]), r.choice([5, 10, 30, 59])
        if h1 == h2 and m1 == m2:
            continue
        if r.random() < 0.5:
            cases.append(('from %d:%02d to %d:%02d%s' % (h1, m1, h2, m2, d), ('mod12', h1, m1, 0), clock(h2, d, m2, 0), 'one-sided-min'))
        else:
            cases.append(('from %d:%02d%s to %d:%02d' % (h1, m1, d, h2, m2), clock(h1, d, m1, 0), ('mod12', h2, m2, 0), 'one-sided-min'))
    cases = [c for c in cases if not (isinstance(c[1], str) and c[1] == c[2])]
    # the witnesses of the three defects first
    cases = [('from 10pm to 12am', '22:00:00', '00:00:00', 'hours'), ('from 10:00:05am to 11:00:20am', '10:00:05', '11:00:20', 'sec-both'),
             ('from 10am to 5:10pm', '10:00:00', '17:10:00', 'min-right')] + cases
    model = T.model('en-us')
    R = dt.datetime(2016, 11, 7, 10, 30, 0)
    ents, idx = [], []
    for k, (q, ea, eb, fam) in enumerate(cases):
        ctx.count('pipeline explicit clock range:' + fam)
        try:
            rs = model.parse(q, R)
            got = [(x.text, x.type_name, (x.resolution or {}).get('values')) for x in rs]
        except Exception as e:
            got = 'raised %s: %s' % (type(e).__name__, e)
        why, sig = '', None
        if isinstance(got, str) or len(got) != 1 or not got[0][2]:
            why, sig = 'not exactly one resolved entity', 'timerange-not-one-entity'
        else:
            text, tn, vals = got[0]
            if tn != 'datetimeV2.timerange' or text != q:
                why, sig = 'entity %r of type %s' % (text, tn), 'timerange-not-one-entity'
            elif len(vals) != 1 and isinstance(ea, str) and isinstance(eb, str):
                why, sig = '%d readings although both ends carry am / pm' % len(vals), 'timerange-designated-ambiguous'
            else:
                bad = [v for v in vals if not (point_ok(v.get('start'), ea) and point_ok(v.get('end'), eb))]
                if bad:
                    st, en = bad[0].get('start'), bad[0].get('end')
                    why = 'resolved %s..%s, stated %s..%s' % (st, en, show_spec(ea), show_spec(eb))
                    xa, xb = show_spec(ea), show_spec(eb)
                    if st and en and en[:2] == '12' and xb[:2] == '00':
                        sig = 'timerange-12am-end'
                    elif st and en and (st[3:5], en[3:5]) == (xa[3:5], xb[3:5]) and point_ok(st[:5] + xa[5:], ea) and point_ok(en[:5] + xb[5:], eb):
                        sig = 'timerange-seconds-dropped'
                    elif st and en and {st[3:5], en[3:5]} == {xa[3:5], xb[3:5]} and point_ok(st[:3] + xa[3:], ea) and point_ok(en[:3] + xb[3:], eb):
                        sig = 'timerange-minute-wrong-side'
                    else:
                        sig = 'timerange-endpoints'
                else:
                    ents.append({'text': text, 'type_name': tn, 'typeName': tn, 'values': vals, 'start': 0, 'end': len(q) - 1})
                    idx.append(k)
        if why:
            dtres.report(ctx, 'property', sig, 'parse(%r, ref %s): %s; got %r' % (q, R, why, got), failing_input={
                'op': 'recognize_datetime', 'culture': 'en-us', 'query': q, 'reference': [2016, 11, 7, 10, 30, 0],
                'expected_start': show_spec(ea), 'expected_end': show_spec(eb), 'observed': str(got)}, property_fails=True, cap=4)
    # the TIMEX of the ranges whose end points are right: `(Tb,Te,PT…)` consistent with them (Lean predicate tripleOK)
    from . import dtcorpus
    try:
        wf = dtcorpus.evaluate_wf(ents)
    except Exception as e:   # the entity form is dtcorpus's; a change there must not hide behind a pass
        raise common.InfraError('evaluate_wf on time-range entities: %s' % e)
    for k, e, (tn, vs) in zip(idx, ents, wf):
        if all(t for (_s, _d, t) in vs):
            ctx.nontriv(('tp-range', cases[k][0]))
        else:
            dtres.report(ctx, 'property', 'timerange-triple', '%r: timex %r is not consistent with %r..%r' % (
                cases[k][0], e['values'][0].get('timex'), e['values'][0].get('start'), e['values'][0].get('end')),
                failing_input={'op': 'recognize_datetime', 'culture': 'en-us', 'query': cases[k][0], 'entity': str(e)},
                property_fails=True, cap=4)


def run(ctx, T):
    P = Parsers(T)
    variant = variant_of_tree(P)
    ctx.extra['timeperiod_variant'] = {'right 12am folded (end_hour >= 12)': variant[0] == '1',
                                       'parse_specific_time leaves texts with seconds to merge_two_time_points': variant[1] == '1',
                                       'single minute attributed by span': variant[2] == '1'}
    jobs = unit_ranges(ctx, P, variant)
    unit_time_of_day(ctx, P)
    unit_parse_order(ctx, P, jobs)
    refs = boundary_refs(ctx, 120 if ctx.thorough else 30)
    unit_now(ctx, P, refs)
    unit_end_of_day(ctx, P, refs)
    unit_ago_later(ctx, P, refs)
    pipeline(ctx, T)
