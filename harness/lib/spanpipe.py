"""Pipeline runner shared by C01 and C12: run registered (recognizer, model_type, culture) models of the working
tree on many queries in worker processes and return, per query, the spans the model reported.

run(tasks, nproc, timeout) -> list aligned with `tasks` of
    ('ok', [(start, end, text, type_name), ...], n_none)   results in the order the API returned them
    ('timeout',)                                            the per-query wall-clock guard fired (dropped, counted)
    ('error', 'ExcType: message')                           Model.parse itself raised
task = (recognizer, model_type, culture, query, reference-or-None)

Nothing is cached on disk.  Each property evaluates its own predicate on these records."""
import multiprocessing
import signal
import sys

from . import common


class QueryTimeout(BaseException):
    """BaseException on purpose: every Model.parse swallows `Exception`."""


def _on_alarm(signum, frame):
    raise QueryTimeout()


_W = {}


def _init_worker():
    try:
        import warnings
        warnings.filterwarnings('ignore')
        common.setup_repo_imports()
        from . import recog
        _W['recog'] = recog
        recog.recognizers()
        signal.signal(signal.SIGALRM, _on_alarm)
    except BaseException as e:     # a raising initializer makes Pool respawn workers forever
        _W['init_error'] = '%s: %s' % (type(e).__name__, e)


def _run_chunk(args):
    idxs, tasks, timeout = args
    if 'init_error' in _W:
        raise common.InfraError('pipeline worker failed to initialise: ' + _W['init_error'])
    recog = _W['recog']
    out = []
    for i, (rec, mt, cul, q, ref) in zip(idxs, tasks):
        try:
            model = recog.get_model(rec, mt, cul)     # first use may take seconds: outside the guard
        except Exception as e:                        # pragma: no cover
            out.append((i, ('error', 'get_model %s: %s' % (type(e).__name__, e))))
            continue
        signal.setitimer(signal.ITIMER_REAL, timeout, 1.0)   # repeats: a raise swallowed by a __del__ fires again
        try:
            rs = model.parse(q, ref) if rec == 'DateTime' else model.parse(q)
            signal.setitimer(signal.ITIMER_REAL, 0)
            spans = [(r.start, r.end, r.text, r.type_name) for r in rs if r is not None]
            out.append((i, ('ok', spans, sum(1 for r in rs if r is None))))
        except QueryTimeout:
            signal.setitimer(signal.ITIMER_REAL, 0)
            out.append((i, ('timeout',)))
        except Exception as e:
            signal.setitimer(signal.ITIMER_REAL, 0)
            out.append((i, ('error', '%s: %s' % (type(e).__name__, e))))
        finally:
            signal.setitimer(signal.ITIMER_REAL, 0)
    return out


SLOW = {'DateTime': 150, 'NumberWithUnit': 400}


def run(tasks, nproc=16, timeout=10.0):
    """Chunks never mix (recognizer, model_type, culture) pairs, so a worker loads few models."""
    by_pair = {}
    for i, t in enumerate(tasks):
        by_pair.setdefault(t[:3], []).append(i)
    chunks = []
    for pair, idxs in by_pair.items():
        size = SLOW.get(pair[0], 3000)
        for k in range(0, len(idxs), size):
            part = idxs[k:k + size]
            chunks.append((part, [tasks[i] for i in part], timeout))
    # slow pairs first so that the tail of the run is made of cheap chunks
    chunks.sort(key=lambda c: (-len(c[0]) / SLOW.get(c[1][0][0], 3000), c[1][0][:3]))
    res = [None] * len(tasks)
    if not chunks:
        return res
    mpctx = multiprocessing.get_context('fork')
    with mpctx.Pool(min(nproc, len(chunks)), initializer=_init_worker) as pool:
        for part in pool.imap_unordered(_run_chunk, chunks):
            for i, r in part:
                res[i] = r
    return res


# ---------------------------------------------------------------- the two predicates (implementation side)

FULLWIDTH = {'０': '0', '１': '1', '２': '2', '３': '3', '４': '4', '５': '5', '６': '6', '７': '7', '８': '8', '９': '9',
             '：': ':', '－': '-', '，': ',', '／': '/', 'Ｇ': 'G', 'Ｍ': 'M', 'Ｔ': 'T', 'Ｋ': 'K', 'ｋ': 'k', '．': '.',
             '（': '(', '）': ')', '％': '%', '、': ','}


def norm_char(c):
    """The documented length-preserving normalisation, one code point at a time: full-width digits/punctuation
    -> ASCII, Unicode *simple* lower-casing (U+0130 -> 'i'), final sigma identified with sigma."""
    c = FULLWIDTH.get(c, c)
    l = c.lower()
    if len(l) != 1:
        l = l[0] if c == 'İ' else c
    if l == 'ς':
        l = 'σ'
    return l


def norm(s):
    return ''.join(norm_char(c) for c in s)


def span_ok(q, start, end, text):
    """C01's predicate. Returns None when it holds, else a short reason."""
    if not (isinstance(start, int) and isinstance(end, int)):
        return 'offsets are not integers'
    if not (0 <= start <= end < len(q)):
        return 'offsets out of range: 0 <= %d <= %d < %d fails' % (start, end, len(q))
    if text is None:
        return 'text is None'
    if norm(q[start:end + 1]).strip() != norm(text).strip():
        return 'text %r is not the normalised slice %r' % (text, q[start:end + 1])
    return None


def overlaps(spans):
    """C12's predicate: all pairs (i<j) of result spans sharing at least one character."""
    out = []
    for i in range(len(spans)):
        for j in range(i + 1, len(spans)):
            a, b = spans[i], spans[j]
            if a[0] <= b[1] and b[0] <= a[1]:
                out.append((i, j))
    return out
