"""Pipeline runner shared by C01 and C12: run registered (recognizer, model_type, culture) models of the working
tree on many queries in worker processes and return, per query, the spans the model reported.

run(tasks, nproc, timeout) -> list aligned with `tasks` of
    ('ok', [(start, end, text, type_name), ...], n_none, swallowed)   results in the order the API returned them;
                                                            swallowed = None | [stage, exception type, message]: the
                                                            exception `DateTimeModel.parse` caught and dropped
                                                            (`except Exception: pass`; recorded for DateTime only)
    ('timeout',)                                            the per-query wall-clock guard fired (dropped, counted)
    ('error', 'ExcType: message')                           Model.parse itself raised
task = (recognizer, model_type, culture, query, reference-or-None)

Nothing is cached on disk.  Each property evaluates its own predicate on these records."""
import multiprocessing
import signal
import sys

from . import common


class QueryTimeout(BaseException):
    """BaseException on purpose: every Model.parse swallows `Exception`."""


def _on_alarm(signum, frame):
    raise QueryTimeout()


_W = {}


def _init_worker():
    try:
        import warnings
        warnings.filterwarnings('ignore')
        common.setup_repo_imports()
        from . import recog
        _W['recog'] = recog
        recog.recognizers()
        signal.signal(signal.SIGALRM, _on_alarm)
    except BaseException as e:     # a raising initializer makes Pool respawn workers forever
        _W['init_error'] = '%s: %s' % (type(e).__name__, e)


def _run_chunk(args):
    idxs, tasks, timeout = args
    if 'init_error' in _W:
        raise common.InfraError('pipeline worker failed to initialise: ' + _W['init_error'])
    recog = _W['recog']
    out = []
    for i, (rec, mt, cul, q, ref) in zip(idxs, tasks):
        try:
            model = recog.get_model(rec, mt, cul)     # first use may take seconds: outside the guard
        except Exception as e:                        # pragma: no cover
            out.append((i, ('error', 'get_model %s: %s' % (type(e).__name__, e))))
            continue
        swl = None
        if rec == 'DateTime':
            try:
                from . import dtpipe
                swl = dtpipe.instrument(model)     # notes what the model's `except Exception: pass` swallows
                del swl[:]
            except Exception:
                swl = None
        signal.setitimer(signal.ITIMER_REAL, timeout, 1.0)   # repeats: a raise swallowed by a __del__ fires again
        try:
            rs = model.parse(q, ref) if rec == 'DateTime' else model.parse(q)
            signal.setitimer(signal.ITIMER_REAL, 0)
            spans = [(r.start, r.end, r.text, r.type_name) for r in rs if r is not None]
            out.append((i, ('ok', spans, sum(1 for r in rs if r is None), list(swl[0]) if swl else None)))
        except QueryTimeout:
            signal.setitimer(signal.ITIMER_REAL, 0)
            out.append((i, ('timeout',)))
        except Exception as e:
            signal.setitimer(signal.ITIMER_REAL, 0)
            out.append((i, ('error', '%s: %s' % (type(e).__name__, e))))
        finally:
            signal.setitimer(signal.ITIMER_REAL, 0)
    return out


# ---------------------------------------------------------------- scheduling: sticky bins, not a shared chunk queue

RATE = {'DateTime': 1 / 30.0, 'NumberWithUnit': 1 / 110.0, 'Number': 1 / 1200.0, 'Sequence': 1 / 3000.0,
        'Choice': 1 / 1500.0}
RATE_MT = {'CurrencyModel': 1 / 40.0}
LOAD = {'DateTime': 4.0, 'NumberWithUnit': 1.2, 'Number': 0.4, 'Sequence': 0.2, 'Choice': 0.2}
LAST_STATS = {}


def task_cost(t, scale=1.0):
    r = RATE_MT.get(t[1], RATE.get(t[0], 1 / 1000.0))
    if t[0] in ('DateTime', 'NumberWithUnit'):
        r *= 0.35 + len(t[3]) / 45.0
    return r * scale


def plan_bins(tasks, nbins, scale=1.0):
    """Every worker gets ONE bin made of whole (recognizer, model, culture) pairs or large pieces of one, so that a
    model is loaded by as few processes as possible (first use of a date-time culture costs seconds); longest
    processing time first. -> list of index lists."""
    by_pair = {}
    for i, t in enumerate(tasks):
        by_pair.setdefault(t[:3], []).append(i)
    costs = {p: sum(task_cost(tasks[i], scale) for i in idxs) for p, idxs in by_pair.items()}
    total = sum(costs.values()) + sum(LOAD.get(p[0], 0.3) for p in by_pair)
    target = max(total / float(nbins), 1e-9)
    pieces = []
    for p, idxs in by_pair.items():
        k = int(min(nbins, max(1, round(costs[p] / (0.8 * target) + 0.499))))
        for j in range(k):
            part = idxs[j::k]
            if part:
                pieces.append((sum(task_cost(tasks[i], scale) for i in part) + LOAD.get(p[0], 0.3), p, part))
    pieces.sort(key=lambda x: (-x[0], x[1]))
    bins = [[0.0, []] for _ in range(nbins)]
    for c, p, part in pieces:
        b = min(bins, key=lambda x: x[0])
        b[0] += c
        b[1].extend(part)
    return [b[1] for b in bins if b[1]]


def _run_bin(args):
    import time
    t0 = time.time()
    out = _run_chunk(args)
    return out, time.time() - t0


# ---------------------------------------------------------------- content-addressed cache (/verif/.cache/span)

def _src_hash(*mods):
    import hashlib
    h = hashlib.sha256()
    for m in mods:
        with open(m.__file__.replace('.pyc', '.py'), 'rb') as f:
            h.update(f.read())
    return h.hexdigest()


def cache_key(kind, payload, *mods):
    """key = every .py of the working tree's libraries + the shims (dtpipe.tree_hash) + the harness modules that
    produce the result + the job list.  Any edit to the tree or to the runner changes the key."""
    import hashlib
    import json
    from . import dtpipe
    blob = json.dumps(payload, ensure_ascii=False, sort_keys=True, default=str)
    return kind + '-' + hashlib.sha256((dtpipe.tree_hash() + _src_hash(*mods) + blob).encode('utf-8')).hexdigest()


def cache_get(key):
    import json
    import os
    if os.environ.get('VERIF_NO_CACHE'):
        return None
    path = os.path.join(common.VERIF, '.cache', 'span', key + '.json')
    try:
        with open(path, encoding='utf-8') as f:
            return json.load(f)
    except Exception:
        return None


def cache_put(key, value):
    import json
    import os
    import time
    if os.environ.get('VERIF_NO_CACHE'):
        return
    cdir = os.path.join(common.VERIF, '.cache', 'span')
    try:
        os.makedirs(cdir, exist_ok=True)
        for f in os.listdir(cdir):          # keep the cache small: nothing older than six hours
            fp = os.path.join(cdir, f)
            if time.time() - os.path.getmtime(fp) > 6 * 3600:
                os.remove(fp)
        tmp = os.path.join(cdir, key + '.tmp%d' % os.getpid())
        with open(tmp, 'w', encoding='utf-8') as f:
            json.dump(value, f, ensure_ascii=False)
        os.replace(tmp, os.path.join(cdir, key + '.json'))
    except Exception:
        pass


def run(tasks, nproc=16, timeout=10.0, cache=True):
    """One pool for everything; results come back aligned with `tasks`."""
    import sys
    res = [None] * len(tasks)
    if not tasks:
        return res
    key = None
    if cache:
        key = cache_key('pipe', [[t[0], t[1], t[2], t[3], str(t[4])] for t in tasks] + [timeout], sys.modules[__name__])
        hit = cache_get(key)
        if hit is not None and len(hit) == len(tasks):
            LAST_STATS.clear()
            LAST_STATS.update({'cache': 'hit'})
            return [tuple([r[0], [tuple(s) for s in r[1]], r[2], r[3] if len(r) > 3 else None]) if r and r[0] == 'ok'
                    else (tuple(r) if r else None) for r in hit]
    bins = plan_bins(tasks, nproc)
    jobs = [(idxs, [tasks[i] for i in idxs], timeout) for idxs in bins]
    mpctx = multiprocessing.get_context('fork')
    walls = []
    with mpctx.Pool(min(nproc, len(jobs)), initializer=_init_worker) as pool:
        for part, wall in pool.imap_unordered(_run_bin, jobs, chunksize=1):
            walls.append(round(wall, 1))
            for i, r in part:
                res[i] = r
    LAST_STATS.clear()
    LAST_STATS.update({'cache': 'miss', 'bins': len(jobs), 'bin_wall_s_min_max': [min(walls), max(walls)]})
    if key and not any(r is None or r[0] == 'timeout' for r in res):
        cache_put(key, res)
    return res


# ---------------------------------------------------------------- the two predicates (implementation side)

FULLWIDTH = {'０': '0', '１': '1', '２': '2', '３': '3', '４': '4', '５': '5', '６': '6', '７': '7', '８': '8', '９': '9',
             '：': ':', '－': '-', '，': ',', '／': '/', 'Ｇ': 'G', 'Ｍ': 'M', 'Ｔ': 'T', 'Ｋ': 'K', 'ｋ': 'k', '．': '.',
             '（': '(', '）': ')', '％': '%', '、': ','}


def norm_char(c):
    """The documented length-preserving normalisation, one code point at a time: full-width digits/punctuation
    -> ASCII, Unicode *simple* lower-casing (U+0130 -> 'i'), final sigma identified with sigma."""
    c = FULLWIDTH.get(c, c)
    l = c.lower()
    if len(l) != 1:
        l = l[0] if c == 'İ' else c
    if l == 'ς':
        l = 'σ'
    return l


def norm(s):
    return ''.join(norm_char(c) for c in s)


def span_ok(q, start, end, text):
    """C01's predicate. Returns None when it holds, else a short reason."""
    if not (isinstance(start, int) and isinstance(end, int)):
        return 'offsets are not integers'
    if not (0 <= start <= end < len(q)):
        return 'offsets out of range: 0 <= %d <= %d < %d fails' % (start, end, len(q))
    if text is None:
        return 'text is None'
    if norm(q[start:end + 1]).strip() != norm(text).strip():
        return 'text %r is not the normalised slice %r' % (text, q[start:end + 1])
    return None


def overlaps(spans):
    """C12's predicate: all pairs (i<j) of result spans sharing at least one character."""
    out = []
    for i in range(len(spans)):
        for j in range(i + 1, len(spans)):
            a, b = spans[i], spans[j]
            if a[0] <= b[1] and b[0] <= a[1]:
                out.append((i, j))
    return out
