"""Recorded calls of `NumberWithUnitExtractor.extract` (C05 unit level for RTV.Model.UnitExtract).

`record(ex, source)` runs the REAL `extract` of a NumberWithUnitExtractor of the working tree while everything it
receives from parts the Lean model does not contain is recorded from the harness process (nothing in /repo changes):
  prefix_matcher.find / suffix_matcher.find      -> proxies set through the extractor's own property setters
  config.unit_num_extractor.extract              -> proxy returned by a delegating configuration proxy
  config.non_unit_regex.finditer                 -> pattern proxy
  regex.finditer in the extractors module        -> module proxy (separate_regex matches, ambiguous multiplier matches)
  self._filter_ambiguity / self._select_candidates -> instance wrappers (keep-masks; select's arguments and answer)
  config.expand_half_suffix                      -> wrapper (result list right before it runs, half-unit flags)
`to_ops(rec)` turns one record into driver lines (`ux.extract` for the stage before expand_half_suffix and for the whole
call, `ux.select` for every recorded `_select_candidates` call) with the implementation's answers in driver format."""
import importlib

from . import common
from .common import cps

_S = {}
# which variant of the code the working tree follows (probed once per run by `probe_variants`, see findings/nwu)
VARIANT = {'lockstep': False, 'pristine_half': False}


def _mod():
    if 'EX' not in _S:
        common.setup_repo_imports()
        EX = importlib.import_module('recognizers_number_with_unit.number_with_unit.extractors')
        common.assert_tree_modules(EX)
        _S['EX'] = EX
        import regex as real_regex
        _S['regex'] = real_regex
        from recognizers_text.extractor import ExtractResult
        _S['ER'] = ExtractResult
        from recognizers_number_with_unit.number_with_unit.constants import Constants
        _S['C'] = Constants
    return _S['EX']


class _Tag:
    """a key / value pattern of an ambiguity-filter dictionary handed to the real `_filter_ambiguity`: the module proxy
    unwraps it and knows which dictionary entry the call belongs to"""

    def __init__(self, role, j, real):
        self.role, self.j, self.real = role, j, real


class _RegexModuleProxy:
    """stands in for the `regex` module inside number_with_unit/extractors.py; logs finditer / match calls to the active
    record"""

    def __init__(self, real):
        self.__dict__['_real'] = real

    def __getattr__(self, name):
        return getattr(self._real, name)

    def finditer(self, pattern, string, *a, **k):
        tag = None
        if isinstance(pattern, _Tag):
            tag, pattern = pattern, pattern.real
        ms = list(self._real.finditer(pattern, string, *a, **k))
        rec = _S.get('active')
        if rec is not None:
            cur = rec.get('fa_cur')
            if tag is not None and cur is not None:
                nz = [(m.start(), len(m.group())) for m in ms if m.group()]
                if tag.role == 'key':
                    if nz and string not in cur['filters'][tag.j]['hits']:
                        cur['filters'][tag.j]['hits'].append(string)
                else:
                    cur['filters'][tag.j]['val'] = nz
            else:
                rec['finditer'].append((pattern, string, [(m.start(), m.group()) for m in ms]))
        return iter(ms)

    def match(self, pattern, string, *a, **k):
        m = self._real.match(pattern, string, *a, **k)
        rec = _S.get('active')
        if rec is not None and rec.get('fa_cur') is not None and m and string not in rec['fa_cur']['scu']:
            rec['fa_cur']['scu'].append(string)
        return m


class _FindProxy:
    def __init__(self, real, rec, key):
        self._real, self._rec, self._key = real, rec, key

    def find(self, q):
        out = self._real.find(q)
        if isinstance(q, str):
            self._rec[self._key] = [(m.start, m.length, m.text) for m in out]
            self._rec[self._key + '_arg'] = q
        return out

    def __getattr__(self, name):
        return getattr(self._real, name)


class _NumProxy:
    def __init__(self, real, rec):
        self._real, self._rec = real, rec

    def extract(self, source):
        out = self._real.extract(source)
        self._rec['nums'].append((source, [(e.start, e.length, e.text) for e in out]))
        if 'num_ids' in self._rec:
            self._rec['num_ids'].append([id(e) for e in out])
        return out

    def __getattr__(self, name):
        return getattr(self._real, name)


class _PatProxy:
    def __init__(self, real, rec):
        self._real, self._rec = real, rec

    def finditer(self, s, *a, **k):
        ms = list(self._real.finditer(s, *a, **k))
        self._rec['nonunit'] = [(m.start(), len(m.group()), m.end()) for m in ms]
        self._rec['nonunit_groups'] = [m.group() for m in ms]
        return iter(ms)

    def __getattr__(self, name):
        return getattr(self._real, name)


class _CfgProxy:
    def __init__(self, real, rec):
        self.__dict__['_real'] = real
        self.__dict__['_rec'] = rec

    def __getattr__(self, name):
        real, rec = self.__dict__['_real'], self.__dict__['_rec']
        if name == 'unit_num_extractor':
            return _NumProxy(real.unit_num_extractor, rec)
        if name == 'non_unit_regex':
            return _PatProxy(real.non_unit_regex, rec)
        if name == 'ambiguous_unit_number_multiplier_regex':
            v = real.ambiguous_unit_number_multiplier_regex
            rec['amb'] = v
            return v
        if name == 'expand_half_suffix':
            def wrapper(source, result, numbers):
                rec['pre'] = [_snap(e) for e in result]
                rec['half_numbers'] = None if numbers is None else [(n.start, n.length, n.text) for n in numbers]
                hr = getattr(real, '_half_unit_regex', None)
                if hr and numbers:
                    rec['half'] = [bool(_S['regex'].match(hr, n.text)) for n in numbers]
                else:
                    rec['half'] = [False] * len(numbers or [])
                return real.expand_half_suffix(source, result, numbers)
            return wrapper
        return getattr(real, name)


def _snap(e):
    ER = _S['ER']
    d = e.data
    if isinstance(d, list) and d and isinstance(d[0], ER):
        rel = d[0].start
    elif isinstance(d, ER):
        rel = d.start
    else:
        rel = None
    return (e.start, e.length, e.text, rel, e.type)


def instrument():
    """install the module-level regex proxy (idempotent, this process only)"""
    EX = _mod()
    if not isinstance(EX.regex, _RegexModuleProxy):
        EX.regex = _RegexModuleProxy(_S['regex'])


def record(ex, source):
    """Run ex.extract(source) recorded. `ex` is a NumberWithUnitExtractor of the working tree."""
    instrument()
    C = _S['C']
    rec = {'source': source, 'pm': [], 'sm': [], 'nums': [], 'finditer': [], 'nonunit': [], 'amb': None, 'masks': [],
           'select': [], 'pre': None, 'half': [], 'raised': None, 'result': None, 'filter_raised': False, 'fa': [], 'fa_cur': None}
    cfg = ex.config
    rec['conn'] = cfg.connector_token
    rec['mpl'] = ex.max_prefix_match_len
    rec['is_cur'] = cfg.extract_type is C.SYS_UNIT_CURRENCY
    rec['is_dim'] = cfg.extract_type is C.SYS_UNIT_DIMENSION
    rec['type'] = cfg.extract_type
    rec['has_sep'] = bool(ex.separate_regex)
    rec['sep_regex'] = ex.separate_regex
    rec['amb_term'] = C.AMBIGUOUS_TIME_TERM
    real_pm, real_sm = ex.prefix_matcher, ex.suffix_matcher
    orig_fa, orig_sc = ex._filter_ambiguity, ex._select_candidates

    def fa(ers, text, *a, **k):
        # the dictionary the call would use, handed over explicitly with tagged patterns (same patterns, same order)
        d = a[0] if a else k.get('ambiguity_filter_dict')
        if d is None:
            d = cfg.ambiguity_filters_dict
        before = list(ers)
        cur = {'filters': [{'hits': [], 'val': []} for _ in (d or {})], 'scu': []}
        rec['fa_cur'] = cur
        try:
            if d is None:
                out = orig_fa(ers, text)
            else:
                out = orig_fa(ers, text, dict((_Tag('key', j, kk), _Tag('val', j, d[kk])) for j, kk in enumerate(d)))
        except Exception:
            # (before fix 1adaa8061 it indexed `ers[0]` of a list it had just emptied)
            rec['filter_raised'] = True
            raise
        finally:
            rec['fa_cur'] = None
        rec['fa'].append(cur)
        ids = set(id(e) for e in out)
        rec['masks'].append(([_snap(e) for e in before], [id(e) in ids for e in before]))
        return out

    def sc(src, ers, flags):
        entry = {'src_len': len(src), 'ers': [_snap(e) for e in ers], 'flags': list(flags), 'out': None, 'raised': None}
        rec['select'].append(entry)
        try:
            out = orig_sc(src, ers, flags)
        except Exception as e:
            entry['raised'] = type(e).__name__
            raise
        entry['out'] = [_snap(e) for e in out]
        return out

    ex.prefix_matcher = _FindProxy(real_pm, rec, 'pm')
    ex.suffix_matcher = _FindProxy(real_sm, rec, 'sm')
    ex.config = _CfgProxy(cfg, rec)
    ex._filter_ambiguity = fa
    ex._select_candidates = sc
    _S['active'] = rec
    try:
        out = ex.extract(source)
        rec['result'] = [_snap(e) for e in out]
    except Exception as e:  # noqa: BLE001 - the models swallow it; here it is an observation
        rec['raised'] = type(e).__name__
    finally:
        _S['active'] = None
        ex.prefix_matcher, ex.suffix_matcher, ex.config = real_pm, real_sm, cfg
        del ex._filter_ambiguity
        del ex._select_candidates
    return rec


# ------------------------------------------------------------------ record -> driver lines

def _lst(items):
    return ';'.join(items) if items else '_'


def _mrs(ms):
    return _lst(['%d:%d:%s' % (s, l, cps(t)) for (s, l, t) in ms])


def _mask(bs):
    return ''.join('1' if b else '0' for b in bs) if bs else '_'


def _filt(cur):
    """regex outcomes of one `_filter_ambiguity` call in the driver's format"""
    if cur is None:
        return '_'
    parts = [','.join(cps(t) for t in cur['scu']) or '_']
    for f in cur['filters']:
        parts.append((','.join(cps(t) for t in f['hits']) or '_') + '~' + _lst(['%d:%d' % m for m in f['val']]))
    return '|'.join(parts)


def _ers(snaps, with_type=None):
    return _lst(['%d:%d:%s:%s' % (s, l, 'n' if rel is None else rel, cps(t)) for (s, l, t, rel, ty) in snaps])


def wellformed(rec):
    """the hypotheses of the theorems on this call: match spans inside the string, number spans inside and texts = slices"""
    src = rec['source']
    n = len(src)
    ok = all(0 <= s and l >= 0 and s + l <= n for (s, l, t) in rec['pm'] + rec['sm'])
    ok = ok and all(src[s:s + l] == t for (s, l, t) in rec['pm'] + rec['sm'])
    for (arg, ns) in rec['nums']:
        ok = ok and all(0 <= s and l == len(t) and arg[s:s + l] == t for (s, l, t) in ns)
    return ok


def to_ops(rec):
    """[(kind, line, impl)]"""
    src = rec['source']
    pm = sorted(rec['pm'], key=lambda m: m[0])
    sm = sorted(rec['sm'], key=lambda m: m[0])
    nums = [sorted(ns, key=lambda e: e[0]) for (_a, ns) in rec['nums']]
    nums1 = nums[0] if nums else []
    nums2 = nums[1] if len(nums) > 1 else []
    fixed = rec['nums'][1][0] if len(rec['nums']) > 1 else src
    final_nums = nums2 if len(nums) > 1 else nums1
    # ambiguous multiplier: one finditer per number of the final list, in order
    cuts = []
    if rec['amb'] is not None:
        calls = [f for f in rec['finditer'] if f[0] is rec['amb']]
        for (pat, s, ms) in calls[:len(final_nums)]:
            nz = [g for (st, g) in ms if g]
            cuts.append(str(len(nz[0])) if len(nz) == 1 else 'n')
    sep_calls = [f for f in rec['finditer'] if f[0] is rec['sep_regex'] and rec['has_sep']]
    sep = sep_calls[-1][2] if sep_calls else []
    filt1 = _filt(rec['fa'][0] if rec['fa'] else None)
    filt2 = _filt(rec['fa'][1] if len(rec['fa']) > 1 else None)
    half = rec['half']
    base = [cps(src), cps(rec['conn'] or ''), str(rec['mpl']), '1' if rec['is_cur'] else '0', '1' if rec['is_dim'] else '0',
            _mrs(pm), _mrs(sm), _mrs(nums1), _mrs(nums2), (','.join(cuts) if cuts else '_'),
            _lst(['%d:%d' % (s, l) for (s, l, e) in rec['nonunit']]), '1' if rec['has_sep'] else '0',
            _lst(['%d:%s' % (s, cps(g)) for (s, g) in sep]), cps(rec['amb_term']), filt1, filt2, _mask(half), '1' if VARIANT['pristine_half'] else '0',
            '1' if VARIANT['lockstep'] else '0']
    ops = []
    flags = rec['select'][0]['flags'] if rec['select'] else None
    if rec['filter_raised']:
        return []
    if rec['raised']:
        impl = 'err:' + rec['raised']
        ops.append(('extract', '\t'.join(['ux.extract', 'full'] + base), impl))
    else:
        if rec['pre'] is not None and any(half):
            # (every configuration but the Chinese one has `expand_half_suffix: pass`; then this stage is the whole call)
            ops.append(('extract-pre', '\t'.join(['ux.extract', 'pre'] + base), _ers(rec['pre']), flags, fixed))
        ops.append(('extract', '\t'.join(['ux.extract', 'full'] + base), _ers(rec['result']), flags, fixed))
    for e in rec['select']:
        line = '\t'.join(['ux.select', str(e['src_len']), _ers(e['ers']), _mask(e['flags'])])
        ops.append(('select', line, ('err:' + e['raised']) if e['raised'] else _ers(e['out'])))
    return ops


def compare(op, answer):
    """None if the model's answer agrees with the implementation, else a description"""
    kind, line, impl = op[0], op[1], op[2]
    if kind in ('select', 'merged') or impl.startswith('err:'):
        return None if answer == impl else 'implementation %s, model %s' % (impl, answer)
    parts = answer.split('#')
    if len(parts) != 3:
        return 'implementation %s, model %s' % (impl, answer)
    res, mflags, mfixed = parts
    if res != impl:
        return 'results: implementation %s, model %s' % (impl, res)
    flags, fixed = op[3], op[4]
    if flags is not None and _mask(flags) != mflags:
        return 'unit_is_prefix: implementation %s, model %s' % (_mask(flags), mflags)
    if cps(fixed) != mfixed:
        return 'source after the comma rewrite: implementation %r, model differs' % (fixed,)
    return None


def show(s):
    """driver result list -> readable"""
    if s.startswith('err:') or s == '_':
        return s
    out = []
    for it in s.split('#')[0].split(';'):
        f = it.split(':')
        if len(f) == 4:
            out.append((int(f[0]), int(f[1]), f[2], common.uncps(f[3])))
        else:
            out.append(it)
    return repr(out)


# ------------------------------------------------------------------ tasks, workers, the unit level itself

NUMERALS = ['7', '12', '1,234', '0.5', '3,5', '1,000,000', '50', '2']
FILLERS = [' ', ' and ', ', ', ' , ', '  ', ' de ', '，', ' x ', ' - ']
TIMES = ['2:00 pm', '2:00 PM', '11:30am']
BRACKETS = [('(', ')'), ('[', ']'), ('{', '}'), ('<', '>')]


def seeded_sentences(r, suffix_forms, prefix_forms, conn, cjk, n):
    """multi-entity sentences exercising every branch of the number loop: suffix / prefix / both / bracketed units /
    connector / comma numbers between a prefix and a suffix unit / bare units / bare numbers / time terms / collisions"""
    sep = '' if cjk else ' '
    out = []

    def sf():
        return r.choice(suffix_forms) if suffix_forms else 'xx'

    def pf():
        return r.choice(prefix_forms) if prefix_forms else r.choice(suffix_forms) if suffix_forms else '$'

    def piece():
        k = r.randint(0, 16)
        num = r.choice(NUMERALS)
        if k == 0:
            return num + sep + sf()
        if k == 1:
            return num + sf()
        if k == 2:
            o, c = r.choice(BRACKETS)
            return num + ' ' + o + sf() + c
        if k == 3:
            o, c = r.choice(BRACKETS)
            return num + ' x ' + o + sf() + c
        if k == 4:
            return num + ' ' + (conn or 'of') + ' ' + sf()
        if k == 5:
            return pf() + sep + num
        if k == 6:
            return pf() + num
        if k == 7:
            return pf() + r.choice(['', ' ']) + num + r.choice(['', ' ']) + sf()
        if k == 8:
            return pf() + '1,000' + sf()
        if k == 9:
            return sf()
        if k == 10:
            return num
        if k == 11:
            return r.choice(TIMES)
        if k == 12:
            return num + ' ' + pf() + r.choice(NUMERALS)
        if k == 13:
            return num + sep + sf() + ('半' if cjk else ' ' + sf())
        if k == 14:
            return num + '  ' + sf() + ' ' + sf()
        if k == 16:
            # digits glued to both sides of a unit: the shape the ambiguity filters remove (then `_select_candidates`
            # indexes past the filtered list)
            return num + sf() + r.choice(NUMERALS)
        return num + sep + sf().upper()
    for _ in range(n):
        parts = [piece() for _ in range(r.randint(1, 4))]
        s = parts[0]
        for p in parts[1:]:
            s += r.choice(FILLERS) + p
        if r.random() < 0.1:
            s = ' ' + s + ' '
        out.append(s)
    return out


def _extractor_for(mt, cul, k):
    key = ('ex', mt, cul, k)
    if key not in _S:
        from . import recog
        EX = _mod()
        m = recog.get_model('NumberWithUnit', mt, cul)
        ex = m.extractor_parser[k].extractor
        if isinstance(ex, EX.BaseMergedUnitExtractor):
            # BaseMergedUnitExtractor builds `NumberWithUnitExtractor(self.config)` on every call; build it once here
            ex = EX.NumberWithUnitExtractor(ex.config)
        _S[key] = ex
    return _S[key]


PROBE_SELECT = 'model 5usd3 costs 7 dollars'
PROBE_HALF = '5元,￥ 半'


def probe_variants():
    """Which variant of `extract` does the working tree follow? (No instrumentation: one plain call.)
    English currency, `model 5usd3 costs 7 dollars`: the number loop produces `5usd` and `7 dollars`, the ambiguity filter
    removes the first. Before findings/nwu/select-candidates-misaligned.diff `_select_candidates` still gets two flags and
    indexes past the one remaining result (IndexError, swallowed by the model's parse: the query returns nothing);
    with it `7 dollars` comes out. Anything else is left to the correspondence (model = unfiltered flags)."""
    from . import recog
    EX = _mod()
    ex = EX.NumberWithUnitExtractor(recog.get_model('NumberWithUnit', 'CurrencyModel', 'en-us').extractor_parser[0].extractor.config)
    v = {}
    try:
        out = ex.extract(PROBE_SELECT)
        got = [(e.start, e.length, e.text) for e in out]
        v.update({'lockstep': got == [(18, 9, '7 dollars')], 'probe': got})
    except IndexError:
        v.update({'lockstep': False, 'probe': 'IndexError'})
    # `5元,￥ 半` (zh-cn currency): the number `半` is consumed by `￥ 半`, the loop overwrites its start with the relative
    # start 2 = where `5元` ends; expand_half_suffix then glues `半` onto `5元` (text `5元半` is not the source at [0,3)).
    # With findings/nwu/half-stale-start.diff the relative start is set on a copy and `5元` stays as it is.
    zx = EX.NumberWithUnitExtractor(recog.get_model('NumberWithUnit', 'CurrencyModel', 'zh-cn').extractor_parser[0].extractor.config)
    got = [(e.start, e.length, e.text) for e in zx.extract(PROBE_HALF)]
    v.update({'pristine_half': got[:1] == [(0, 2, PROBE_HALF[:2])], 'probe_half': got})
    return v


def run_chunk(arg):
    """worker: (variant, [(mt, cul, k, family, query)]) -> [(task, ops, stats)]"""
    variant, tasks = arg
    VARIANT.update(variant)
    common.setup_repo_imports()
    import warnings
    warnings.filterwarnings('ignore')
    from recognizers_text.utilities import QueryProcessor
    out = []
    for t in tasks:
        (mt, cul, k, fam, q) = t
        try:
            if fam == 'merged':
                from . import recog
                bm = recog.get_model('NumberWithUnit', mt, cul).extractor_parser[k].extractor
                mrec = record_merged(bm, QueryProcessor.preprocess(q, True))
                ops = [] if mrec['inner_raised'] else [merged_op(mrec)]
                res = mrec['result'] or []
                out.append((t, ops, {'wf': True, 'raised': mrec['raised'], 'n': len(res), 'type_ok': True,
                                     'merged_group': any(n > 1 for (_s, _l, _t, n) in res),
                                     'pure_number_merged': len(mrec['final_nums']) > len(mrec['inner'] or []) and
                                     any(n > 1 for (_s, _l, _t, n) in res)}, None))
                continue
            ex = _extractor_for(mt, cul, k)
            rec = record(ex, QueryProcessor.preprocess(q, True))
            ops = to_ops(rec)
            res = rec['result'] or []
            fixed = rec['nums'][1][0] if len(rec['nums']) > 1 else rec['source']
            stats = {
                'wf': wellformed(rec), 'raised': rec['raised'], 'n': len(res),
                'type_ok': all(ty == rec['type'] for (_s, _l, _t, _r, ty) in res),
                'slice_ok': all(fixed[s:s + l] == tx for (s, l, tx, _r, _ty) in (rec['pre'] or [])),
                'prefix': any(rel not in (None, 0) for (_s, _l, _t, rel, _ty) in res),
                'suffix': any(rel == 0 for (_s, _l, _t, rel, _ty) in res),
                'separate': any(rel is None for (_s, _l, _t, rel, _ty) in res),
                'comma': fixed != rec['source'],
                'filter_raised': rec['filter_raised'],
                'select_conflict': any(e['out'] is not None and e['out'] != e['ers'] for e in rec['select']),
                'filtered': any(not all(m) for (_b, m) in rec['masks']),
                'nonunit': bool(rec['nonunit']),
                'half': any(rec['half']),
                'cut': any(f[0] is rec['amb'] and any(g for (_st, g) in f[2]) for f in rec['finditer']) if rec['amb'] is not None else False,
                'bracket': any(tx and tx[-1] in ')]}>' for (_s, _l, tx, rel, _ty) in res if rel is not None),
            }
            out.append((t, ops, stats, None))
        except Exception as e:  # noqa: BLE001
            out.append((t, [], {}, '%s: %s' % (type(e).__name__, e)))
    return out


# ------------------------------------------------------------------ BaseMergedUnitExtractor (currency)

class _ConnProxy:
    """compound_unit_connector_regex: pass-through (the harness evaluates the same three-line test per gap itself)"""

    def __init__(self, real):
        self._real = real

    def __getattr__(self, name):
        return getattr(self._real, name)


class _MergedCfgProxy:
    def __init__(self, real, rec):
        self.__dict__['_real'] = real
        self.__dict__['_rec'] = rec

    def __getattr__(self, name):
        real, rec = self.__dict__['_real'], self.__dict__['_rec']
        if name == 'unit_num_extractor':
            return _NumProxy(real.unit_num_extractor, rec)
        return getattr(real, name)


def _item(e, types):
    ER, C = _S['ER'], _S['C']
    ty = e.type
    if ty not in types:
        types.append(ty)
    non_int = isinstance(e.data, ER) and not str(e.data.data).startswith('Integer')
    return (e.start, e.length, e.text, ty == C.SYS_NUM, types.index(ty), bool(non_int))


def record_merged(bm, source):
    """Run BaseMergedUnitExtractor.extract(source) (currency configuration) recorded: the inner unit extractor's answer,
    the number extractor's answer inside __merge_pure_number, and the final groups."""
    EX = _mod()
    rec = {'source': source, 'nums': [], 'num_ids': [], 'inner': None, 'result': None, 'raised': None, 'types': [],
           'inner_raised': False}
    cfg = bm.config
    orig_extract = EX.NumberWithUnitExtractor.extract

    def inner(self, src):
        try:
            out = orig_extract(self, src)
        except Exception:
            rec['inner_raised'] = True
            raise
        rec['inner'] = [_item(e, rec['types']) for e in out]
        rec['inner_ids'] = [id(e) for e in out]
        return out

    EX.NumberWithUnitExtractor.extract = inner
    bm.config = _MergedCfgProxy(cfg, rec)
    try:
        out = bm.extract(source)
        # members = number of results merged into the group. A merged group's data is [copy of the head, next member, ..]
        # whose later elements are objects of the inner extractor's answer or of the number extractor's answer inside
        # __merge_pure_number; a single result whose data is the [number, half] pair of expand_half_suffix is one member.
        member_ids = set(rec.get('inner_ids', [])) | set(rec['num_ids'][-1] if rec['num_ids'] else [])
        rec['result'] = [(e.start, e.length, e.text,
                          len(e.data) if isinstance(e.data, list) and len(e.data) >= 2 and id(e.data[1]) in member_ids else 1)
                         for e in out]
    except Exception as e:  # noqa: BLE001
        rec['raised'] = type(e).__name__
    finally:
        EX.NumberWithUnitExtractor.extract = orig_extract
        bm.config = cfg
    # gaps: the connector test of the code, evaluated for every (end of an item, start of an item) pair
    C = _S['C']
    rx = cfg.compound_unit_connector_regex
    nums = rec['nums'][-1][1] if rec['nums'] else []
    items = list(rec['inner'] or []) + [(s, l, t, True, 0, False) for (s, l, t) in nums]
    gaps = []
    for a in items:
        for b in items:
            bgn, end = a[0] + a[1], b[0]
            mid = source[bgn: bgn + (end - bgn)].strip().lower()
            if not mid:
                continue
            m = rx.match(mid)
            if m and m.pos == 0 and len(m.string.split(' ')[0]) == len(mid):
                gaps.append((bgn, end))
    rec['gaps'] = sorted(set(gaps))
    rec['final_nums'] = nums
    return rec


def merged_op(rec):
    C = _S['C']
    types = list(rec['types'])
    if C.SYS_NUM not in types:
        types.append(C.SYS_NUM)
    nt = types.index(C.SYS_NUM)

    def items(its):
        return _lst(['%d:%d:%d:%d:%d:%s' % (s, l, 1 if isn else 0, ty, 1 if ni else 0, cps(t)) for (s, l, t, isn, ty, ni) in its])
    nums = [(s, l, t, True, nt, False) for (s, l, t) in rec['final_nums']]
    line = '\t'.join(['ux.merge', cps(rec['source']), items(rec['inner'] or []), items(nums),
                      _lst(['%d:%d' % g for g in rec['gaps']])])
    if rec['raised']:
        impl = 'err:' + rec['raised']
    else:
        impl = _lst(['%d:%d:%d:%s' % (s, l, n, cps(t)) for (s, l, t, n) in rec['result']])
    return ('merged', line, impl)


# ------------------------------------------------------------------ NumberWithUnitParser.parse (unit + number part)

class _NumParserProxy:
    def __init__(self, real, log):
        self._real, self._log = real, log

    def parse(self, er):
        try:
            pr = self._real.parse(er)
        except Exception:
            # the internal number parser is a parameter of the model (C03/C04); when it raises there is nothing to compare
            self._log['raised'] = True
            raise
        self._log[id(er)] = None if pr is None else pr.resolution_str
        return pr

    def __getattr__(self, name):
        return getattr(self._real, name)


class _ParserCfgProxy:
    def __init__(self, real, log):
        self.__dict__['_real'] = real
        self.__dict__['_log'] = log

    def __getattr__(self, name):
        if name == 'internal_number_parser':
            return _NumParserProxy(self.__dict__['_real'].internal_number_parser, self.__dict__['_log'])
        return getattr(self.__dict__['_real'], name)


def _base_parser(mt, cul, k):
    key = ('bp', mt, cul, k)
    if key not in _S:
        from . import recog
        from recognizers_number_with_unit.number_with_unit.parsers import NumberWithUnitParser
        p = recog.get_model('NumberWithUnit', mt, cul).extractor_parser[k].parser
        _S[key] = NumberWithUnitParser(p.config)
    return _S[key]


def run_parse_chunk(tasks):
    """worker: [(mt, cul, k, family, query)] -> [(task, [(text, numStart, numLen, numRes, half, impl)])]: the real extractor's
    results go through the real NumberWithUnitParser.parse with the internal number parser's answers recorded"""
    common.setup_repo_imports()
    import warnings
    warnings.filterwarnings('ignore')
    _mod()
    ER = _S['ER']
    from recognizers_text.utilities import QueryProcessor
    out = []
    for t in tasks:
        (mt, cul, k, fam, q) = t
        rows = []
        try:
            ex = _extractor_for(mt, cul, k)
            bp = _base_parser(mt, cul, k)
            ers = ex.extract(QueryProcessor.preprocess(q, True))
        except Exception:
            out.append((t, rows))
            continue
        for er in ers:
            d = er.data
            if isinstance(d, ER):
                num, half = d, None
            elif isinstance(d, list) and len(d) == 2 and d and isinstance(d[0], ER):
                num, half = d
            else:
                continue   # a bare unit: parse builds its own dummy number (start -1); covered by the unit-key tier
            log = {}
            cfg = bp.config
            bp.config = _ParserCfgProxy(cfg, log)
            try:
                pr = bp.parse(er)
                v = pr.value
                if v is None:
                    impl = 'novalue'
                else:
                    impl = 'u:%s:%s:%s' % (cps(v.unit), 'None' if v.number is None else cps(v.number), cps(pr.resolution_str))
            except Exception as e:  # noqa: BLE001
                impl = 'err:' + type(e).__name__
            finally:
                bp.config = cfg
            if log.get('raised'):
                rows.append((er.text, num.start, num.length, 'none', 'none', 'number-parser-raised'))
                continue
            num_res = log.get(id(num)) if num.text else None
            hf = 'none'
            if half is not None:
                hres = log.get(id(half))
                hf = '%s:%d:%s' % (cps(half.text), half.length, 'none' if hres is None else cps(hres))
            rows.append((er.text, num.start, num.length, 'none' if num_res is None else cps(num_res), hf, impl))
        out.append((t, rows))
    return out
