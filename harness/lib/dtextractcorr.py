"""Recorded-call correspondence for the L2c `DtExtract` layer (C01, C12): the token arithmetic of the date-time
SUB-EXTRACTORS between "a regex matched / a sub-extractor returned an entity" and "tokens handed to merge_all_tokens".

Inside worker processes only (nothing in /repo changes, the plain pipeline runs elsewhere):
  * every compiled pattern / sub-extractor / number parser a sub-extractor configuration hands out is replaced by a
    recording proxy (a dynamic subclass of the configuration class overrides the properties; `regex` inside the
    date-time modules and recognizers_text.utilities is replaced by a module proxy that unwraps pattern proxies);
  * RegExpUtility.match_begin / match_end / is_exact_match, MatchingUtil.get_ago_later_index / get_term_index and the
    configurations' connector / from / between helpers log what they returned;
  * the modelled methods of BaseDateExtractor, BaseTimeExtractor, BaseDurationExtractor, BaseDateTimeExtractor,
    BaseDatePeriodExtractor, BaseDateTimePeriodExtractor and AgoLaterUtil are wrapped: one frame per call with
    the match facts the call saw (in order) and the tokens it returned.
Every frame becomes one driver line `dx.*` (the facts) and the implementation's answer (the tokens); the Lean model
must reproduce the tokens from the facts alone.  Monitored on every frame: the hypotheses of the theorems (facts lie
inside the strings they were computed on) and the conclusion (every token inside the text).  A frame whose tokens are
NOT inside the text is followed up at pipeline level: recognize on the same query, C01 / C12 oracle on the result."""
import datetime
import importlib
import multiprocessing
import signal
import sys
import warnings

from . import common
from .common import cps

_S = {}
LAST = {}
CULTURES = ['en-us', 'es-es', 'fr-fr', 'de-de', 'pt-br', 'it-it']
EXTRACTOR_ATTRS = ['date_extractor', 'time_extractor', 'duration_extractor', 'date_time_extractor',
                   'date_period_extractor', 'date_time_period_extractor']
REF = datetime.datetime(2019, 7, 31, 10, 20, 30)


# ------------------------------------------------------------------ recording

class Rec:
    def __init__(self):
        self.stack = []
        self.frames = []

    def log(self, entry):
        if self.stack:
            self.stack[-1]['log'].append(entry)


def _name(p):
    return getattr(p, '_verif_name', None)


class PatProxy:
    """a compiled pattern that reports what it returned"""

    def __init__(self, real, name, rec):
        self.__dict__['_real'] = real
        self.__dict__['_verif_name'] = name
        self.__dict__['_rec'] = rec

    def __getattr__(self, n):
        return getattr(self.__dict__['_real'], n)

    def __str__(self):
        return str(self.__dict__['_real'])

    def __repr__(self):
        return repr(self.__dict__['_real'])

    def _do(self, meth, string, a, k):
        real = self.__dict__['_real']
        out = getattr(real, meth)(string, *a, **k)
        if meth == 'finditer':
            out = list(out)
        self.__dict__['_rec'].log(('re', self.__dict__['_verif_name'], meth, string, out))
        return iter(out) if meth == 'finditer' else out

    def search(self, string, *a, **k):
        return self._do('search', string, a, k)

    def match(self, string, *a, **k):
        return self._do('match', string, a, k)

    def fullmatch(self, string, *a, **k):
        return self._do('fullmatch', string, a, k)

    def finditer(self, string, *a, **k):
        return self._do('finditer', string, a, k)


class RegexModuleProxy:
    """stands in for the `regex` module inside the date-time modules: unwraps pattern proxies"""

    def __init__(self, real):
        self.__dict__['_real'] = real

    def __getattr__(self, n):
        return getattr(self.__dict__['_real'], n)

    def _do(self, meth, pattern, string, a, k):
        if isinstance(pattern, PatProxy):
            return getattr(pattern, meth)(string, *a, **k)
        return getattr(self.__dict__['_real'], meth)(pattern, string, *a, **k)

    def search(self, pattern, string, *a, **k):
        return self._do('search', pattern, string, a, k)

    def match(self, pattern, string, *a, **k):
        return self._do('match', pattern, string, a, k)

    def fullmatch(self, pattern, string, *a, **k):
        return self._do('fullmatch', pattern, string, a, k)

    def finditer(self, pattern, string, *a, **k):
        return self._do('finditer', pattern, string, a, k)

    def sub(self, pattern, repl, string, *a, **k):
        if isinstance(pattern, PatProxy):
            pattern = pattern.__dict__['_real']
        return self.__dict__['_real'].sub(pattern, repl, string, *a, **k)

    def split(self, pattern, string, *a, **k):
        if isinstance(pattern, PatProxy):
            pattern = pattern.__dict__['_real']
        return self.__dict__['_real'].split(pattern, string, *a, **k)

    def findall(self, pattern, string, *a, **k):
        if isinstance(pattern, PatProxy):
            pattern = pattern.__dict__['_real']
        return self.__dict__['_real'].findall(pattern, string, *a, **k)


class SubProxy:
    """a sub-extractor / number parser handed out by a configuration: extract / parse are recorded"""

    def __init__(self, real, name, rec):
        self.__dict__['_real'] = real
        self.__dict__['_verif_name'] = name
        self.__dict__['_rec'] = rec

    def __getattr__(self, n):
        return getattr(self.__dict__['_real'], n)

    def extract(self, *a, **k):
        out = self.__dict__['_real'].extract(*a, **k)
        self.__dict__['_rec'].log(('sub', self.__dict__['_verif_name'], 'extract', a[0] if a else None,
                                   [(e.start, e.length, e.text, e.type, e.data, e) for e in out]))
        return out

    def parse(self, *a, **k):
        out = self.__dict__['_real'].parse(*a, **k)
        self.__dict__['_rec'].log(('sub', self.__dict__['_verif_name'], 'parse', a[0] if a else None,
                                   getattr(out, 'value', None)))
        return out


CONFIG_METHODS = ['is_connector_token', 'has_connector_token', 'get_from_token_index', 'get_between_token_index']


def instrument_config(cfg, rec, prefix=''):
    """replace what the configuration hands out by recording proxies (dynamic subclass with overriding properties)"""
    import regex as real_regex
    cls = type(cfg)
    if cls.__dict__.get('_verif_proxied'):
        return
    pat_t = type(real_regex.compile('a'))
    over = {'_verif_proxied': True}
    for p in dir(cls):
        attr = getattr(cls, p, None)
        if not isinstance(attr, property):
            continue
        try:
            v = getattr(cfg, p)
        except Exception:
            continue
        px = None
        if isinstance(v, pat_t):
            px = PatProxy(v, prefix + p, rec)
        elif isinstance(v, (list, tuple)) and v and all(isinstance(x, pat_t) for x in v):
            px = [PatProxy(x, '%s%s[%d]' % (prefix, p, i), rec) for i, x in enumerate(v)]
        elif p == 'utility_configuration' and v is not None:
            instrument_config(v, rec, prefix='util.')
        elif v is not None and not isinstance(v, (str, int, float, bool, dict, list, tuple)) and \
                (hasattr(v, 'extract') or (hasattr(v, 'parse') and 'parser' in p)):
            px = SubProxy(v, prefix + p, rec)
        if px is not None:
            over[p] = property(lambda self, _px=px: _px)
    for m in CONFIG_METHODS:
        if callable(getattr(cls, m, None)):
            def make(m=m):
                def logged(self, *a, **k):
                    out = getattr(cls, m)(self, *a, **k)
                    rec.log(('call', m, a[0] if a else None, out))
                    return out
                return logged
            over[m] = make()
    cfg.__class__ = type(cls.__name__, (cls,), over)


def _snap(out):
    if isinstance(out, list):
        res = []
        for x in out:
            if hasattr(x, 'end') and hasattr(x, 'start') and not hasattr(x, 'text'):
                res.append((x.start, x.end))
            elif hasattr(x, 'length'):
                res.append((x.start, x.length))
            else:
                res.append(x)
        return res
    if hasattr(out, 'end') and hasattr(out, 'start') and not hasattr(out, 'text'):
        return (out.start, out.end)
    return out


def _wrap(rec, owner, name, kind, static=False, pre=None):
    raw = owner.__dict__[name]
    orig = raw.__func__ if isinstance(raw, staticmethod) else raw

    def wrapper(*a, **k):
        # only calls on an instrumented configuration are recorded (the sub-extractors inside a configuration are
        # other instances with their own, un-instrumented configurations: their calls would carry no facts)
        cfg = a[3] if kind == 'ago' else getattr(a[0], 'config', None)
        if not getattr(type(cfg), '_verif_proxied', False):
            return orig(*a, **k)
        fr = {'kind': kind, 'args': a, 'log': [], 'out': None, 'exc': None}
        if pre:
            pre(fr, a)
        if rec.stack:
            rec.stack[-1]['log'].append(('frame', fr))
        rec.stack.append(fr)
        try:
            out = orig(*a, **k)
            fr['out'] = _snap(out)
            fr['raw'] = out
            return out
        except Exception as e:
            fr['exc'] = type(e).__name__
            raise
        finally:
            rec.stack.pop()
            rec.frames.append(fr)

    setattr(owner, name, staticmethod(wrapper) if (static or isinstance(raw, staticmethod)) else wrapper)


def instrument():
    if 'rec' in _S:
        return _S['rec']
    common.setup_repo_imports()
    warnings.filterwarnings('ignore')
    import regex as real_regex
    import recognizers_date_time  # noqa: F401
    rec = Rec()
    mods = {}
    for nm in ('base_date', 'base_time', 'base_duration', 'base_datetime', 'base_dateperiod', 'base_timeperiod',
               'base_datetimeperiod', 'utilities'):
        mods[nm] = importlib.import_module('recognizers_date_time.date_time.' + nm)
    TU = importlib.import_module('recognizers_text.utilities')
    common.assert_tree_modules(TU, *mods.values())
    proxy = RegexModuleProxy(real_regex)
    for name, mod in list(sys.modules.items()):
        if mod is None or not (name.startswith('recognizers_date_time') or name == 'recognizers_text.utilities'):
            continue
        for attr in ('regex', 're'):
            if getattr(mod, attr, None) is real_regex:
                setattr(mod, attr, proxy)
    DU = mods['utilities']
    DU.MatchingUtil.invalid_day_number_prefix = PatProxy(DU.MatchingUtil.invalid_day_number_prefix,
                                                         'invalid_day_number_prefix', rec)

    # ConditionalMatch producers
    for nm in ('match_begin', 'match_end'):
        orig_fn = TU.RegExpUtility.__dict__[nm].__func__

        def logged(pattern, text, trim, _orig=orig_fn, _nm=nm):
            r = _orig(pattern, text, trim)
            rec.log(('cm', _nm, _name(pattern), text,
                     None if r is None else (r.index, r.length, bool(r.success), r.group())))
            return r

        setattr(TU.RegExpUtility, nm, staticmethod(logged))
    orig_exact = TU.RegExpUtility.__dict__['is_exact_match'].__func__

    def logged_exact(pattern, text, trim):
        r = orig_exact(pattern, text, trim)
        rec.log(('call', 'is_exact_match', (_name(pattern), text), bool(r)))
        return r

    TU.RegExpUtility.is_exact_match = staticmethod(logged_exact)
    for nm in ('get_ago_later_index', 'get_term_index'):
        orig_fn = DU.MatchingUtil.__dict__[nm].__func__

        def logged_mi(*a, _orig=orig_fn, _nm=nm):
            r = _orig(*a)
            rec.log(('mi', _nm, _name(a[1]), a[0], a[2] if len(a) > 2 else None, (bool(r.matched), r.index)))
            return r

        setattr(DU.MatchingUtil, nm, staticmethod(logged_mi))

    def pre_er(fr, a):
        er = a[1]
        fr['er'] = (er.start, er.length, er.text)

    _wrap(rec, DU.AgoLaterUtil, 'extractor_duration_with_before_and_after', 'ago', static=True, pre=pre_er)
    BD = mods['base_date'].BaseDateExtractor
    for nm, kind in (('basic_regex_match', 'date.basic'), ('implicit_date', 'date.implicit'),
                     ('number_with_month', 'date.nwm'), ('relative_duration_date', 'date.reldur'),
                     ('validate_match', 'validate'), ('extend_with_week_day_and_year', 'ext')):
        _wrap(rec, BD, nm, kind)
    BT = mods['base_time'].BaseTimeExtractor
    for nm, kind in (('basic_regex_match', 'time.basic'), ('at_regex_match', 'time.at'),
                     ('specials_regex_match', 'time.specials')):
        _wrap(rec, BT, nm, kind)
    BU = mods['base_duration'].BaseDurationExtractor

    def pre_tokens(fr, a):
        fr['tokens'] = [(t.start, t.end) for t in a[2]]

    def pre_ers(fr, a):
        fr['ers'] = [(e.start, e.length, e.text) for e in a[2]]

    _wrap(rec, BU, 'number_with_unit', 'dur.nwu')
    _wrap(rec, BU, 'number_with_unit_and_suffix', 'dur.suffix', pre=pre_tokens)
    _wrap(rec, BU, 'implicit_duration', 'dur.implicit')
    _wrap(rec, BU, 'merge_multiple_duration', 'dur.mmd', pre=pre_ers)
    _wrap(rec, BU, 'tag_inequality_prefix', 'dur.tag', pre=pre_ers)
    BDT = mods['base_datetime'].BaseDateTimeExtractor
    for nm, kind in (('merge_date_and_time', 'dt.mdt'), ('basic_regex_match', 'dt.basic'),
                     ('time_of_today_before', 'dt.todb'), ('time_of_today_after', 'dt.toda'),
                     ('special_time_of_date', 'dt.special'), ('duration_with_before_and_after', 'dt.dwba'),
                     ('extend_with_date_time_and_year', 'dt.ext')):
        _wrap(rec, BDT, nm, kind)
    BDP = mods['base_dateperiod'].BaseDatePeriodExtractor

    def pre_ers1(fr, a):
        fr['ers'] = [(e.start, e.length) for e in a[2]]

    def pre_dur(fr, a):
        fr['dur'] = (a[2].start, a[2].end)

    _wrap(rec, BDP, 'merge_multiple_extractions', 'dp.merge', pre=pre_ers1)
    _wrap(rec, BDP, 'match_duration', 'dp.mdur')
    _wrap(rec, BDP, '_match_within_next_affix_regex', 'dp.within', pre=pre_dur)
    BDTP = mods['base_datetimeperiod'].BaseDateTimePeriodExtractor

    def pre_dtp(fr, a):
        fr['time_ers'] = [(e.start, e.length, e.type, e) for e in a[4]]

    _wrap(rec, BDTP, 'merge_two_time_points', 'dtp.merge', pre=pre_dtp)
    _S['rec'] = rec
    _S['mods'] = mods
    _S['TU'] = TU
    return rec


# ------------------------------------------------------------------ frame -> driver line + implementation answer

def b(x):
    return '1' if x else '0'


def omt(m):
    """optional match -> k:s:e"""
    return '1:%d:%d' % (m.start(), m.end()) if m is not None else '0:0:0'


def ocm(c):
    return '1:%d:%d:%s' % (c[0], c[1], b(c[2])) if c is not None else '0:0:0:0'


def lst(items):
    return ','.join(items) if items else '-'


def toks(ts):
    return lst(['%d:%d' % (s, e) for s, e in ts])


def mts(ms):
    return lst(['%d:%d' % (m.start(), m.end()) for m in ms])


def res(log, name=None, meth=None):
    return [e for e in log if e[0] == 're' and (name is None or e[1] == name) and (meth is None or e[2] == meth)]


def first_re(log, name, meth=None):
    r = res(log, name, meth)
    return r[0] if r else None


def mt_in(m, L):
    return m is None or 0 <= m.start() <= m.end() <= L


def cm_in(c, L):
    return c is None or (0 <= c[0] and 0 <= c[1] and c[0] + c[1] <= L)


def vstr():
    v = _S.get('variant') or {}
    return '%s:%s:%s' % (b(v.get('basicMatchStart')), b(v.get('mdtLenFixed')), b(v.get('rangeRstrip')))


def probe_variants():
    """which of the three repairs (findings/dtextract/*.diff) the working tree contains — decided on fixed probes
    through the real English sub-extractors, never by reading the source"""
    exs = dict(extractors('en-us'))
    v = {'basicMatchStart': False, 'mdtLenFixed': False, 'rangeRstrip': False}
    try:
        t = exs['date_extractor'].basic_regex_match('15/12 and 5/12')
        v['basicMatchStart'] = any((x.start, x.end) == (10, 14) for x in t)
    except Exception:
        pass
    try:
        exs['date_time_extractor'].merge_date_and_time('3 pm or later on monday', REF)
        v['mdtLenFixed'] = True
    except TypeError:
        v['mdtLenFixed'] = False
    except Exception:
        pass
    try:
        t = exs['date_period_extractor'].merge_two_time_points('   from 4 jan to 5 jan', REF)
        v['rangeRstrip'] = any(x.start == 3 for x in t)
    except Exception:
        pass
    _S['rec'].frames.clear()
    _S['rec'].stack.clear()
    return v


def conv_toks(fr, kind):
    """functions that are `Token(m.start(), m.end())` over every finditer match, in call order"""
    ms = [m for e in fr['log'] if e[0] == 're' and e[2] == 'finditer' for m in e[4]]
    return {'op': 'dx.toks\t' + mts(ms), 'hyp': {'matches_inside': all(mt_in(m, len(fr['args'][1])) for m in ms)}}


def conv_date_basic(fr):
    source = fr['args'][1]
    facts, pending, hyp_ok = [], None, True
    for e in fr['log']:
        if e[0] == 'frame' and e[1]['kind'] == 'validate':
            pending = e[1]['args'][1] if e[1]['out'] else None
        elif e[0] == 'cm' and e[2] == 'strict_relative_regex' and e[1] == 'match_end' and pending is not None:
            idx = len(e[3])
            m = pending
            facts.append('%d:%d:%d:%s' % (idx, m.start(), m.end(), ocm(e[4])))
            hyp_ok = hyp_ok and 0 <= idx <= m.start() and mt_in(m, len(source)) and cm_in(e[4], idx)
            pending = None
    return {'op': 'dx.basic\t%s\t%s' % (vstr(), lst(facts)), 'hyp': {'BasicOK': hyp_ok}}


def year_ok(ex, m):
    from recognizers_date_time.date_time.constants import Constants
    if m is None:
        return False
    try:
        y = ex.get_year_from_text(m)
    except Exception:
        return False
    return Constants.MIN_YEAR_NUM <= y <= Constants.MAX_YEAR_NUM


def ext_facts(ex, fr):
    """ExtFacts of one extend_with_week_day_and_year frame"""
    import calendar
    from recognizers_date_time.date_time.utilities import DateUtils
    from recognizers_text.utilities import RegExpUtility
    from recognizers_date_time.date_time.constants import Constants
    _, si, ei, month, day, text, reference = fr['args'][:7]
    suffix = text[ei:]
    ys = res(fr['log'], 'year_suffix', 'match')

    def yfmt(e):
        if e is None:
            return '0:0:0;0;0;0'
        m = e[4]
        return '%s;%s;%d;%d' % (omt(m), b(year_ok(ex, m)), len(e[3]), len(e[3].strip()))

    y1 = ys[0] if ys else None
    y2 = ys[1] if len(ys) > 1 else y1
    we = first_re(fr['log'], 'week_day_end', 'match')
    ws = first_re(fr['log'], 'week_day_start', 'match')
    mw = (we[4] if we and we[4] is not None else (ws[4] if ws else None))
    agree = False
    if mw is not None:
        date = DateUtils.safe_create_from_value(DateUtils.min_value, reference.year, month, day)
        g = RegExpUtility.get_group(mw, Constants.WEEKDAY_GROUP_NAME)
        n1 = calendar.day_name[date.weekday()].lower()
        w1 = ex.config.day_of_week.get(n1)
        w2 = ex.config.day_of_week.get(g)
        agree = bool(w1 and w2 and not date == DateUtils.min_value and w1 == w2)
    s = ';'.join([yfmt(y1), b(ex.config.check_both_before_after), yfmt(y2), omt(we[4] if we else None),
                  omt(ws[4] if ws else None), b(agree)])
    hyp = (y1 is None or mt_in(y1[4], len(suffix))) and (we is None or mt_in(we[4], si)) and \
        (ws is None or mt_in(ws[4], len(suffix)))
    both = int(bool(y1 and y1[4] is not None and year_ok(ex, y1[4]) and (y1[4].end() - y1[4].start()) > 0 and
                    ws and ws[4] is not None and agree and not (we and we[4] is not None)))
    return s, hyp, both


NO_EXT = '0:0:0;0;0;0;0;0:0:0;0;0;0;0:0:0;0:0:0;0'


def conv_ext(fr):
    ex = fr['args'][0]
    s, hyp, both = ext_facts(ex, fr)
    si, ei = fr['args'][1], fr['args'][2]
    return {'op': 'dx.ext\t%d\t%d\t%s' % (si, ei, s), 'impl': '%d:%d' % tuple(fr['out']),
            'hyp': {'ExtOK': hyp, 'year_and_weekday_suffix_both': both}}


def conv_date_nwm(fr):
    import calendar
    from recognizers_date_time.date_time.utilities import DateUtils
    from recognizers_text.utilities import RegExpUtility
    from recognizers_date_time.date_time.constants import Constants, TimeTypeConstants
    from recognizers_number.number.constants import Constants as NumberConstants
    ex, source, reference = fr['args'][0], fr['args'][1], fr['args'][2]
    log = fr['log']
    subs = [e for e in log if e[0] == 'sub' and e[2] == 'extract']
    results = [r for e in subs[:2] for r in e[4]]
    segs, cur = [], None
    for e in log:
        if e[0] == 'sub' and e[2] == 'parse':
            cur = {'value': e[4], 'log': []}
            segs.append(cur)
        elif cur is not None:
            cur['log'].append(e)
    if len(segs) != len(results) and fr['exc'] is None:
        return {'problem': 'number_with_month: %d parse calls for %d number results' % (len(segs), len(results))}
    its, hyp_ok, both_any = [], True, 0
    n = len(source)
    for (start, length, text, typ, data, _), seg in zip(results, segs):
        sl = seg['log']
        num = int(seg['value'])
        inv = first_re(sl, 'invalid_day_number_prefix', 'search')
        me = first_re(sl, 'month_end', 'search')
        exts = [e[1] for e in sl if e[0] == 'frame' and e[1]['kind'] == 'ext']
        ext1 = ext2 = NO_EXT
        if me is not None and me[4] is not None and exts:
            ext1, h, bo = ext_facts(ex, exts[0])
            hyp_ok, both_any = hyp_ok and h, both_any + bo
        elif exts:
            ext2, h, bo = ext_facts(ex, exts[-1])
            hyp_ok, both_any = hyp_ok and h, both_any + bo
        ft = first_re(sl, 'for_the_regex', 'finditer')
        for_the = []
        for m in (ft[4] if ft else []):
            endg = RegExpUtility.get_group(m, TimeTypeConstants.END)
            for_the.append('%d:%d:%d:%s' % (m.start(), m.end(), len(endg),
                                            b(RegExpUtility.get_group(m, Constants.DAY_OF_MONTH) == text)))
            hyp_ok = hyp_ok and mt_in(m, n) and len(endg) <= m.end() - m.start()
        wd = first_re(sl, 'week_day_and_day_of_month_regex', 'finditer')
        wd_dom = []
        for m in (wd[4] if wd else []):
            ok = False
            if RegExpUtility.get_group(m, Constants.DAY_OF_MONTH) == text:
                date = DateUtils.safe_create_from_min_value(reference.year, reference.month, num)
                nm = calendar.day_name[date.weekday()].lower()
                ok = bool(date != DateUtils.min_value and DateUtils.day_of_week(nm) ==
                          ex.config.day_of_week.get(RegExpUtility.get_group(m, 'weekday').lower()))
            wd_dom.append('%d:%d:%s' % (m.start(), m.end(), b(ok)))
            hyp_ok = hyp_ok and mt_in(m, n)
        wdd = first_re(sl, 'week_day_and_day_regex', 'finditer')
        wd_day = list(wdd[4]) if wdd else []
        hyp_ok = hyp_ok and all(mt_in(m, n) for m in wd_day)
        rm = first_re(sl, 'relative_month_regex', 'match')
        suffix = source[start + length:].lower()
        space_len = len(suffix) - len(suffix.strip())
        pa = first_re(sl, 'prefix_article_regex', 'match')
        wk = first_re(sl, 'week_day_regex', 'match')
        wk_ok = False
        if wk and wk[4] is not None:
            wk_ok = RegExpUtility.get_group(wk[4], Constants.WEEKDAY_GROUP_NAME).lower() in ex.config.day_of_week
        om = first_re(sl, 'of_month', 'match')
        strip_len = len(suffix.strip())
        hyp_ok = hyp_ok and 0 <= start and 0 <= length and start + length <= n and \
            (me is None or mt_in(me[4], start)) and (rm is None or mt_in(rm[4], strip_len)) and \
            (pa is None or mt_in(pa[4], start)) and (wk is None or mt_in(wk[4], strip_len)) and \
            (om is None or mt_in(om[4], n - start - length)) and len(suffix) == n - start - length
        its.append('/'.join([str(num), str(start), str(length), b(typ == NumberConstants.SYS_NUM_ORDINAL),
                             b(inv is not None and inv[4]), omt(me[4] if me else None), ext1, lst(for_the), lst(wd_dom),
                             mts(wd_day), omt(rm[4] if rm else None), str(space_len), omt(pa[4] if pa else None),
                             omt(wk[4] if wk else None), b(wk_ok), omt(om[4] if om else None), ext2]))
    return {'op': 'dx.nwm\t%d\t%s' % (n, '|'.join(its) if its else '-'),
            'hyp': {'NwmOK': hyp_ok, 'year_and_weekday_suffix_both': both_any}}


def ago_facts(fr):
    """AgoFacts of one extractor_duration_with_before_and_after frame; also the hypothesis check"""
    source, cfg = fr['args'][0], fr['args'][3]
    start, length, text = fr['er']
    log = fr['log']
    is_time = first_re(log, 'util.time_unit_regex', 'search')
    out = []
    ok = 0 <= start and 0 <= length and start + length <= len(source)
    for nm in ('util.ago_regex', 'util.later_regex'):
        mi = next((e for e in log if e[0] == 'mi' and e[1] == 'get_ago_later_index' and e[2] == nm and e[4] is True), None)
        day = False
        if mi is not None and mi[5][0]:
            mm = first_re(log, nm, 'match')
            day = bool(mm and mm[4] is not None and (mm[4].groupdict().get('day') or ''))
            ok = ok and 0 <= mi[5][1] <= len(source) - start - length
        out.append('%s:%d:%s' % (b(mi is not None and mi[5][0]), mi[5][1] if mi is not None else -1, b(day)))
    terms = []
    for nm, units in (('util.in_connector_regex', ['util.range_unit_regex']),
                      ('util.within_next_prefix_regex', ['util.date_unit_regex', 'util.time_unit_regex'])):
        ti = next((e for e in log if e[0] == 'mi' and e[1] == 'get_term_index' and e[2] == nm), None)
        unit = any(e[4] is not None for u in units for e in res(log, u, 'match') if e[3] == text)
        terms.append((ti[5][1] if ti is not None else -1, unit))
    s = '/'.join([str(start), str(length), b(is_time is not None and is_time[4] is not None), out[0], out[1],
                  str(terms[0][0]), b(terms[0][1]), str(terms[1][0]), b(terms[1][1])])
    if bool(getattr(cfg, 'check_both_before_after', False)):
        return None, False
    return s, ok


def conv_date_reldur(fr):
    ex, source = fr['args'][0], fr['args'][1]
    log = fr['log']
    sub = next((e for e in log if e[0] == 'sub' and e[1] == 'duration_extractor'), None)
    if sub is None:
        return {'problem': 'relative_duration_date: no duration_extractor call recorded'}
    ers = [x[5] for x in sub[4]]
    rest = [e for e in log if (e[0] == 're' and e[1] == 'date_unit_regex' and e[2] == 'search') or
            (e[0] == 'frame' and e[1]['kind'] == 'ago') or (e[0] == 'cm' and e[2] == 'in_connector_regex') or
            (e[0] == 're' and e[1] in ('range_unit_regex', 'since_year_suffix_regex') and e[2] == 'match')]
    pos = 0
    durs, hyp_ok = [], True
    snaps = sub[4]
    for i, er in enumerate(ers):
        multi = ex.is_multiple_duration(er) and not ex.is_multiple_duration_date(er)
        if multi:
            durs.append('1/0/0/0/0/0:-1:0/0:-1:0/-1/0/-1/0')
            break
        if pos >= len(rest) or rest[pos][0] != 're' or rest[pos][1] != 'date_unit_regex':
            return {'problem': 'relative_duration_date: unexpected call sequence (loop 1)'}
        has = rest[pos][4] is not None
        pos += 1
        if has:
            if pos >= len(rest) or rest[pos][0] != 'frame':
                return {'problem': 'relative_duration_date: missing ago/later frame'}
            s, ok = ago_facts(rest[pos][1])
            pos += 1
            if s is None:
                return {'skipped': 'check_both_before_after is set'}
            hyp_ok = hyp_ok and ok
            durs.append('0/1/' + s)
        else:
            durs.append('0/0/0/0/0/0:-1:0/0:-1:0/-1/0/-1/0')
    inps = []
    for er in ers:
        if pos >= len(rest) or rest[pos][0] != 're' or rest[pos][1] != 'date_unit_regex':
            return {'problem': 'relative_duration_date: unexpected call sequence (in-prefix part)'}
        has = rest[pos][4] is not None
        pos += 1
        if not has:
            continue
        inps.append(er)
    facts = []
    for er in inps:
        start, length = er.start or 0, er.length
        before, after = source[0:start], source[start + length:]
        both_blank = before.isspace() and after.isspace()
        if both_blank:
            facts.append('%d/%d/1/0:0:0:0/0/0' % (start, length))
            continue
        if pos >= len(rest) or rest[pos][0] != 'cm':
            return {'problem': 'relative_duration_date: missing in_connector match_end'}
        cm = rest[pos][4]
        pos += 1
        ru = sy = False
        if cm is not None and cm[2]:
            if pos < len(rest) and rest[pos][0] == 're' and rest[pos][1] == 'range_unit_regex':
                ru = rest[pos][4] is not None
                pos += 1
                if ru and pos < len(rest) and rest[pos][0] == 're' and rest[pos][1] == 'since_year_suffix_regex':
                    sy = rest[pos][4] is not None
                    pos += 1
        hyp_ok = hyp_ok and cm_in(cm, len(after))
        facts.append('%d/%d/0/%s/%s/%s' % (start, length, ocm(cm), b(ru), b(sy)))
    return {'op': 'dx.reldur\t%d\t%s\t%s' % (len(source), '|'.join(durs) if durs else '-', '|'.join(facts) if facts else '-'),
            'hyp': {'AgoOK': hyp_ok, 'in_prefix_token': sum(1 for f in facts if f.split('/')[3].endswith(':1') and f.split('/')[4] == '1')}}


def conv_time_basic(fr):
    ex = fr['args'][0]
    items = ['%d:%d:%s' % (m.start(), m.end(), b(ex.lth_check(m)))
             for e in res(fr['log'], None, 'finditer') for m in e[4]]
    return {'op': 'dx.kept\t' + lst(items), 'hyp': {}}


def conv_time_at(fr):
    source = fr['args'][1]
    items = ['%d:%d:%s' % (m.start(), m.end(), b(m.group() and not (m.end() < len(source) and source[m.end()] == '%')))
             for e in res(fr['log'], None, 'finditer') for m in e[4]]
    return {'op': 'dx.kept\t' + lst(items), 'hyp': {}}


def conv_time_specials(fr):
    items = ['%d:%d:%s' % (m.start(), m.end(), b(m.group())) for e in res(fr['log'], None, 'finditer') for m in e[4]]
    return {'op': 'dx.kept\t' + lst(items), 'hyp': {}}


def conv_dur_nwu(fr):
    source = fr['args'][1]
    log = fr['log']
    sub = next((e for e in log if e[0] == 'sub' and e[1] == 'cardinal_extractor'), None)
    cards = sub[4] if sub else []
    fu = res(log, 'followed_unit', 'match')
    if len(fu) != len(cards):
        return {'problem': 'number_with_unit: %d followed_unit calls for %d cardinals' % (len(fu), len(cards))}
    cs = ['%d:%d:%s' % (c[0], c[1], omt(e[4])) for c, e in zip(cards, fu)]
    hyp = all(0 <= c[0] and 0 <= c[1] and c[0] + c[1] <= len(source) and mt_in(e[4], len(source) - c[0] - c[1])
              for c, e in zip(cards, fu))
    fi = [e for e in res(log, None, 'finditer')]
    names = ['number_combined_with_unit', 'an_unit_regex', 'inexact_number_unit_regex']
    parts = []
    for nm in names:
        e = next((x for x in fi if x[1] == nm), None)
        parts.append(mts(e[4]) if e else '-')
        hyp = hyp and (e is None or all(mt_in(m, len(source)) for m in e[4]))
    return {'op': 'dx.nwu\t%s\t%s' % (lst(cs), '\t'.join(parts)), 'hyp': {'NwuOK': hyp}}


def conv_dur_suffix(fr):
    source = fr['args'][1]
    tk = fr['tokens']
    sa = res(fr['log'], 'suffix_and_regex', 'match')
    if len(sa) != len(tk):
        return {'problem': 'number_with_unit_and_suffix: %d regex calls for %d tokens' % (len(sa), len(tk))}
    items = ['%d:%d:%s' % (t[0], t[1], omt(e[4])) for t, e in zip(tk, sa)]
    hyp = all(0 <= t[0] <= t[1] <= len(source) and mt_in(e[4], len(source) - t[1]) for t, e in zip(tk, sa))
    return {'op': 'dx.suffix\t' + lst(items), 'hyp': {'SuffixOK': hyp}}


def conv_dur_mmd(fr):
    from recognizers_text.utilities import RegExpUtility
    ex, text = fr['args'][0], fr['args'][1]
    ers = fr['ers']
    cfg = ex.config
    vals = sorted(set(cfg.unit_value_map.values()))
    unit_seen = {e[3]: e[4] for e in res(fr['log'], 'duration_unit_regex', 'search')}
    conn_seen = {e[3]: e[4] is not None for e in res(fr['log'], 'duration_connector_regex', 'search')}
    items = []
    for i, (s, l, t) in enumerate(ers):
        u = -1
        m = unit_seen.get(t)
        if m is not None:
            g = str(RegExpUtility.get_group(m, 'unit'))
            if g in cfg.unit_map:
                u = vals.index(cfg.unit_value_map[g])
        conn = False
        if i > 0:
            ps, pl, _ = ers[i - 1]
            mb = ps + pl if pl else 0
            me = s if s else 0
            conn = conn_seen.get(text[mb:me], False)
        items.append('%d:%d:%d:%s' % (s, l, u, b(conn)))
    out = fr['out']
    sorted_in = all(0 <= s and 0 <= l and s + l <= len(text) for s, l, _ in ers) and \
        all(ers[i][0] + ers[i][1] <= ers[i + 1][0] for i in range(len(ers) - 1))
    return {'op': 'dx.mmd\t' + lst(items), 'impl': lst(['%d:%d' % x for x in out]) if out is not None else None,
            'hyp': {'MmdSorted': sorted_in}}


def conv_dur_tag(fr):
    """one op per extraction (the method mutates them in place)"""
    text = fr['args'][1]
    ers = fr['ers']
    log = [e for e in fr['log'] if e[0] == 'cm' and e[1] == 'match_end' and e[2] in ('more_than_regex', 'less_than_regex')]
    out = fr['out'] or []
    ops = []
    pos = 0
    for (s, l, t), o in zip(ers, out):
        more = less = None
        if pos < len(log) and log[pos][2] == 'more_than_regex':
            more = log[pos][4]
            pos += 1
        if not (more is not None and more[2]) and pos < len(log) and log[pos][2] == 'less_than_regex':
            less = log[pos][4]
            pos += 1

        def f(c):
            return '1:%d:%d:%s:%d' % (c[0], c[1], b(c[2]), text.index(c[3])) if c is not None else '0:0:0:0:0'

        hyp = 0 <= s and 0 <= l and s + l <= len(text) and all(
            c is None or (cm_in(c, s) and 0 <= text.index(c[3]) <= c[0]) for c in (more, less))
        ops.append({'op': 'dx.tag\t%d\t%d\t%s\t%s' % (s, l, f(more), f(less)), 'impl': '%d:%d' % o,
                    'hyp': {'TagOK': hyp}, 'n_results': 1 if (s, l) != o else 0})
    return ops


def conv_dt_mdt(fr):
    from recognizers_date_time.date_time.constants import Constants
    ex, source = fr['args'][0], fr['args'][1]
    if ex.config.options:
        return {'skipped': 'options set'}
    log = fr['log']
    d = next((e for e in log if e[0] == 'sub' and e[1] == 'date_point_extractor'), None)
    t = next((e for e in log if e[0] == 'sub' and e[1] == 'time_point_extractor'), None)
    if d is None or not d[4] or t is None:
        return {'op': 'dx.mdt\t%s\t-\t-\t-' % vstr(), 'hyp': {}}
    # the snapshot of the date list was taken before the code extended it with the time results
    ers = sorted(list(d[4][:len(d[4])]) + list(t[4]), key=lambda x: x[0])
    if any(x[3] not in (Constants.SYS_DATETIME_DATE, Constants.SYS_DATETIME_TIME) for x in ers):
        return {'problem': 'merge_date_and_time: unexpected entity type'}
    gates, cur = [], None
    for e in log:
        if e[0] == 're' and e[1] == 'suffix_after_regex' and e[2] == 'search':
            # no connector call behind a suffix-after match = the rest of the middle string was empty
            cur = {'sa': e[4] is not None, 're': e[4] is not None, 'conn': False, 'yext': 0}
            gates.append(cur)
        elif e[0] == 'call' and e[1] == 'is_connector_token' and cur is not None:
            cur['conn'] = bool(e[3])
            cur['re'] = False
        elif e[0] == 'frame' and e[1]['kind'] == 'dt.ext' and cur is not None and e[1]['out'] is not None:
            cur['yext'] = e[1]['out'][0] - e[1]['args'][2]
            cur['yhyp'] = 0 <= cur['yext'] <= len(source) - e[1]['args'][2]
    suf = res(log, 'suffix_regex', 'search')
    pre = res(log, 'util.common_date_prefix_regex', 'search')
    wid = ['%s:%s' % (omt(a[4]), omt(c[4])) for a, c in zip(suf, pre)] if len(suf) == len(pre) else None
    if wid is None and fr['exc'] is None:
        return {'problem': 'merge_date_and_time: %d suffix searches, %d prefix searches' % (len(suf), len(pre))}
    hyp = all(0 <= x[0] and 0 <= x[1] and x[0] + x[1] <= len(source) for x in ers) and \
        all(g.get('yhyp', True) for g in gates)
    return {'op': 'dx.mdt\t%s\t%s\t%s\t%s' % (vstr(), lst(['%d:%d:%s' % (x[0], x[1], b(x[3] == Constants.SYS_DATETIME_DATE)) for x in ers]),
                                              lst(['%s:%s:%s:%d' % (b(g['sa']), b(g['re']), b(g['conn']), g['yext']) for g in gates]),
                                              lst(wid or [])),
            'hyp': {'MdtOK': hyp, 'suffix_after_gate': sum(1 for g in gates if g['sa'])}}


def conv_dt_todb(fr):
    source = fr['args'][1]
    log = [e for e in fr['log'] if e[0] in ('re', 'sub')]
    sub = next((e for e in log if e[0] == 'sub'), None)
    ers = sub[4] if sub else []
    seq = [e for e in log if e[0] == 're' and e[1] in ('night_regex', 'time_of_today_before_regex')]
    pos, items, hyp = 0, [], True
    for er in ers:
        if pos >= len(seq) or seq[pos][1] != 'night_regex':
            return {'problem': 'time_of_today_before: unexpected call sequence'}
        inner = seq[pos][4]
        pos += 1
        m = None
        if pos < len(seq) and seq[pos][1] == 'time_of_today_before_regex':
            m = seq[pos][4]
            hyp = hyp and mt_in(m, len(seq[pos][3]))
            pos += 1
        hyp = hyp and 0 <= er[0] and 0 <= er[1] and er[0] + er[1] <= len(source) and mt_in(inner, er[1])
        items.append('%d:%d:%s:%s' % (er[0], er[1], omt(inner), omt(m)))
    simple = first_re(fr['log'], 'simple_time_of_today_before_regex', 'finditer')
    return {'op': 'dx.todb\t%d\t%s\t%s' % (len(source), lst(items), mts(simple[4]) if simple else '-'),
            'hyp': {'TodOK': hyp}}


def conv_dt_toda(fr):
    source = fr['args'][1]
    sub = next((e for e in fr['log'] if e[0] == 'sub'), None)
    ers = sub[4] if sub else []
    seq = res(fr['log'], 'time_of_today_after_regex', 'search')
    pos, items, hyp = 0, [], True
    for er in ers:
        m = None
        if er[0] + er[1] < len(source):
            if pos >= len(seq):
                return {'problem': 'time_of_today_after: unexpected call sequence'}
            m = seq[pos][4]
            hyp = hyp and mt_in(m, len(source) - er[0] - er[1])
            pos += 1
        hyp = hyp and 0 <= er[0] and 0 <= er[1] and er[0] + er[1] <= len(source)
        items.append('%d:%d:%s' % (er[0], er[1], omt(m)))
    simple = first_re(fr['log'], 'simple_time_of_today_after_regex', 'finditer')
    return {'op': 'dx.toda\t%d\t%s\t%s' % (len(source), lst(items), mts(simple[4]) if simple else '-'),
            'hyp': {'TodOK': hyp}}


def conv_dt_special(fr):
    source = fr['args'][1]
    sub = next((e for e in fr['log'] if e[0] == 'sub'), None)
    ers = sub[4] if sub else []
    seq = [e for e in fr['log'] if e[0] == 'cm' and e[2] == 'specific_end_of_regex']
    pos, items, hyp = 0, [], True
    for er in ers:
        bm = am = None
        if pos < len(seq) and seq[pos][1] == 'match_end':
            bm = seq[pos][4]
            hyp = hyp and cm_in(bm, len(seq[pos][3])) and len(seq[pos][3]) <= er[0]
            pos += 1
        else:
            return {'problem': 'special_time_of_date: unexpected call sequence'}
        if not (bm is not None and bm[2]):
            if pos < len(seq) and seq[pos][1] == 'match_begin':
                am = seq[pos][4]
                hyp = hyp and cm_in(am, len(source) - er[0] - er[1])
                pos += 1
            else:
                return {'problem': 'special_time_of_date: missing match_begin'}
        hyp = hyp and 0 <= er[0] and 0 <= er[1] and er[0] + er[1] <= len(source)
        items.append('%d:%d:%s:%s' % (er[0], er[1], ocm(bm), ocm(am)))
    eod = first_re(fr['log'], 'unspecific_end_of_regex', 'finditer')
    return {'op': 'dx.special\t%s\t%s' % (lst(items), mts(eod[4]) if eod else '-'), 'hyp': {'SpecialOK': hyp}}


def conv_dt_dwba(fr):
    source = fr['args'][1]
    facts, hyp = [], True
    for e in fr['log']:
        if e[0] == 'frame' and e[1]['kind'] == 'ago':
            s, ok = ago_facts(e[1])
            if s is None:
                return {'skipped': 'check_both_before_after is set'}
            facts.append(s)
            hyp = hyp and ok
    return {'op': 'dx.ago\t%d\t%s' % (len(source), '|'.join(facts) if facts else '-'), 'hyp': {'AgoOK': hyp}}


def pair_facts(log, source):
    """from / between look-ups: the index handed back is translated into a SOURCE offset with what the look-up string
    lost on the left (nothing on a repaired tree, the leading blanks on the current one)"""
    src_lead = len(source) - len(source.lstrip())
    facts, cur = [], None

    def pos(arg, index):
        lost = src_lead - (len(arg) - len(arg.lstrip())) if arg else 0
        return index + lost

    for e in log:
        if e[0] == 'call' and e[1] == 'is_exact_match':
            cur = {'till': bool(e[3]), 'conn': False, 'from': (False, -1), 'between': (False, -1), 'blen': None,
                   'lead': src_lead}
            facts.append(cur)
        elif cur is None:
            continue
        elif e[0] == 'call' and e[1] == 'has_connector_token':
            cur['conn'] = bool(e[3])
        elif e[0] == 'call' and e[1] == 'get_from_token_index':
            cur['from'] = (bool(e[3].matched), pos(e[2], e[3].index) if e[3].matched else -1)
            cur['blen'] = pos(e[2], len(e[2]))
        elif e[0] == 'call' and e[1] == 'get_between_token_index':
            cur['between'] = (bool(e[3].matched), pos(e[2], e[3].index) if e[3].matched else -1)
            cur['blen'] = pos(e[2], len(e[2]))
    return facts


def fmt_pairs(facts):
    return lst(['%s:%s:%s:%d:%s:%d:0:-1:%d' % (b(f['till']), b(f['conn']), b(f['from'][0]), f['from'][1],
                                               b(f['between'][0]), f['between'][1], f['lead']) for f in facts])


def pair_hyp(facts):
    return all((not f['from'][0] or f['lead'] <= f['from'][1] <= (f['blen'] or 0)) and
               (not f['between'][0] or f['lead'] <= f['between'][1] <= (f['blen'] or 0)) for f in facts)


def conv_dp_merge(fr):
    ex, source = fr['args'][0], fr['args'][1]
    if ex.config.check_both_before_after:
        return {'skipped': 'check_both_before_after is set'}
    ers = fr['ers']
    facts = pair_facts(fr['log'], source)
    hyp = all(0 <= s and 0 <= l and s + l <= len(source) for s, l in ers) and \
        all(ers[i][0] <= ers[i + 1][0] for i in range(len(ers) - 1)) and pair_hyp(facts)
    return {'op': 'dx.range\t%s\td\t%s\t-\t%s' % (vstr(), lst(['%d:%d' % x for x in ers]), fmt_pairs(facts)),
            'hyp': {'RangeOK': hyp, 'from_between_used': sum(1 for f in facts if (f['till'] and (f['from'][0] or f['between'][0])) or
                                                             (not f['till'] and f['conn'] and f['between'][0]))}}


def conv_dtp_merge(fr):
    """the first token-building loop of BaseDateTimePeriodExtractor.merge_two_time_points: the list of time points
    is rebuilt here exactly as the code builds it (entity bookkeeping, no offset arithmetic)"""
    from recognizers_date_time.date_time.constants import Constants
    ex, source = fr['args'][0], fr['args'][1]
    if ex.config.check_both_before_after:
        return {'skipped': 'check_both_before_after is set'}
    sub = next((e for e in fr['log'] if e[0] == 'sub' and e[1] == 'single_date_time_extractor'), None)
    if sub is None:
        if fr['exc'] is not None:
            return {'skipped': 'the single date-time extractor raised'}
        return {'problem': 'datetimeperiod merge_two_time_points: no single_date_time_extractor call recorded'}
    ers_dt = [x[5] for x in sub[4]]
    time_ers = [x[3] for x in fr['time_ers']]
    tp, j = [], 0
    for er in ers_dt:
        tp.append(er)
        while j < len(time_ers) and time_ers[j].start + time_ers[j].length < er.start:
            tp.append(time_ers[j])
            j += 1
        while j < len(time_ers) and time_ers[j].overlap(er):
            j += 1
    tp.extend(time_ers[j:])
    tp = sorted(tp, key=lambda x: x.start)
    # only the part of the log before the time-period extractor is asked belongs to the first loop
    cut = next((i for i, e in enumerate(fr['log']) if e[0] == 'sub' and e[1] == 'time_period_extractor'), len(fr['log']))
    facts = pair_facts(fr['log'][:cut], source)
    skips = [str(i) for i in range(len(tp) - 1)
             if tp[i].type == Constants.SYS_DATETIME_TIME and tp[i + 1].type == Constants.SYS_DATETIME_TIME]
    return {'op': 'dx.range\t%s\tdt\t%s\t%s\t%s' % (vstr(), lst(['%d:%d' % (e.start, e.length) for e in tp]), lst(skips), fmt_pairs(facts)),
            'first_loop_only': True, 'hyp': {'RangeOK': pair_hyp(facts), 'from_between_used': sum(1 for f in facts if f['from'][0] or f['between'][0])}}


def conv_dp_mdur(fr):
    ex, source = fr['args'][0], fr['args'][1]
    if ex.config.check_both_before_after:
        return {'skipped': 'check_both_before_after is set'}
    log = fr['log']
    sub = next((e for e in log if e[0] == 'sub' and e[1] == 'duration_extractor'), None)
    if sub is None:
        return {'problem': 'match_duration: no duration_extractor call recorded'}
    du = res(log, 'date_unit_regex', 'search')[:len(sub[4])]
    durs = [(x[0], x[1]) for x, e in zip(sub[4], du) if e[4] is not None]
    rest = [e for e in log if (e[0] == 'frame' and e[1]['kind'] == 'dp.within') or
            (e[0] == 'cm' and e[2] in ('past_regex', 'future_regex', 'future_suffix_regex')) or
            (e[0] == 'sub' and e[1] == 'cardinal_extractor')]
    pos, items, hyp = 0, [], True
    for (s, l) in durs:
        before = source[0:s].lower()
        after = source[s:s + l]
        if not before or not after:
            items.append('%d/%d/1/0:0:0:0/0/0:0:0:0/0:0:0:0/-/0/0/0:0:0:0/0:0:0:0' % (s, l))
            continue
        if pos >= len(rest) or rest[pos][0] != 'frame':
            return {'problem': 'match_duration: missing within-next frame'}
        wf = rest[pos][1]
        pos += 1
        wcm = next((e[4] for e in wf['log'] if e[0] == 'cm'), None)
        dm = first_re(wf['log'], 'date_unit_regex', 'match')
        tm = first_re(wf['log'], 'time_unit_regex', 'match')
        wdate = bool(dm and dm[4] is not None and not (tm and tm[4] is not None))
        hyp = hyp and cm_in(wcm, s)
        past = future = ps = fs = None
        nums, plen, nid = [], 0, False
        took = wcm is not None and wcm[2] and wdate
        if not took:
            if pos < len(rest) and rest[pos][0] == 'cm' and rest[pos][1] == 'match_end' and rest[pos][2] == 'past_regex':
                past = rest[pos][4]
                pos += 1
            index = past[0] if past is not None and past[2] else -1
            if index < 0 and pos < len(rest) and rest[pos][0] == 'cm' and rest[pos][1] == 'match_end' and rest[pos][2] == 'future_regex':
                future = rest[pos][4]
                pos += 1
                index = future[0] if future is not None and future[2] else -1
            hyp = hyp and cm_in(past, s) and cm_in(future, s)
            if index >= 0:
                if pos + 1 < len(rest) and rest[pos][0] == 'sub' and rest[pos + 1][0] == 'sub':
                    nums = [(x[0], x[1]) for x in rest[pos][4]]
                    plen = len(rest[pos][3])
                    nid = bool(rest[pos + 1][4])
                    hyp = hyp and all(0 <= a and 0 <= c and a + c <= plen for a, c in nums) and plen <= index
                    pos += 2
                else:
                    return {'problem': 'match_duration: missing cardinal extractions'}
            else:
                if pos < len(rest) and rest[pos][0] == 'cm' and rest[pos][1] == 'match_begin' and rest[pos][2] == 'past_regex':
                    ps = rest[pos][4]
                    pos += 1
                if not (ps is not None and ps[2]) and pos < len(rest) and rest[pos][0] == 'cm' and \
                        rest[pos][1] == 'match_begin' and rest[pos][2] == 'future_suffix_regex':
                    fs = rest[pos][4]
                    pos += 1
        items.append('/'.join([str(s), str(l), '0', ocm(wcm), b(wdate), ocm(past), ocm(future),
                               lst(['%d:%d' % x for x in nums]), str(plen), b(nid), ocm(ps), ocm(fs)]))
    return {'op': 'dx.mdur\t' + ('|'.join(items) if items else '-'),
            'hyp': {'MdurOK': hyp, 'suffix_on_own_text': sum(1 for it in items if it.split('/')[10].endswith(':1') or it.split('/')[11].endswith(':1'))}}


CONV = {
    'date.basic': conv_date_basic, 'date.implicit': lambda f: conv_toks(f, 'date.implicit'), 'date.nwm': conv_date_nwm,
    'date.reldur': conv_date_reldur, 'ext': conv_ext,
    'time.basic': conv_time_basic, 'time.at': conv_time_at, 'time.specials': conv_time_specials,
    'dur.nwu': conv_dur_nwu, 'dur.suffix': conv_dur_suffix, 'dur.implicit': lambda f: conv_toks(f, 'dur.implicit'),
    'dur.mmd': conv_dur_mmd, 'dur.tag': conv_dur_tag,
    'dt.mdt': conv_dt_mdt, 'dt.basic': lambda f: conv_toks(f, 'dt.basic'), 'dt.todb': conv_dt_todb, 'dt.toda': conv_dt_toda,
    'dt.special': conv_dt_special, 'dt.dwba': conv_dt_dwba,
    'dp.merge': conv_dp_merge, 'dp.mdur': conv_dp_mdur, 'dtp.merge': conv_dtp_merge,
}


def frame_ops(fr):
    f = CONV.get(fr['kind'])
    if f is None:
        return []
    try:
        r = f(fr)
    except Exception as e:
        import traceback
        r = {'problem': 'converter raised %s: %s @ %s' % (type(e).__name__, e, traceback.format_exc().splitlines()[-3].strip())}
    out = r if isinstance(r, list) else [r]
    src = fr['args'][1] if len(fr['args']) > 1 and isinstance(fr['args'][1], str) else \
        (fr['args'][0] if fr['args'] and isinstance(fr['args'][0], str) else '')
    for o in out:
        o['kind'] = fr['kind']
        o['src'] = src
        if 'op' in o and 'impl' not in o:
            if fr['exc'] is not None:
                o['impl'] = 'err:' + fr['exc']
            elif o.get('first_loop_only'):
                o['impl'] = None
            else:
                o['impl'] = toks(fr['out']) if isinstance(fr['out'], list) else None
        if o.get('first_loop_only') and fr['exc'] is None:
            # the tokens of the first loop are a prefix of the returned list; their number is the model's answer's length
            o['impl_prefix_of'] = toks(fr['out']) if isinstance(fr['out'], list) else None
        if isinstance(fr['out'], list) and fr['out'] and isinstance(fr['out'][0], tuple) and 'n_results' not in o:
            o['n_results'] = len(fr['out'])
        if fr['kind'] not in ('dur.mmd', 'dur.tag', 'ext') and isinstance(fr['out'], list):
            o['tokens_inside'] = all(isinstance(t, tuple) and 0 <= t[0] <= t[1] <= len(src) for t in fr['out'])
            o['tokens'] = [list(t) for t in fr['out'] if isinstance(t, tuple)][:8]
    return out


# ------------------------------------------------------------------ worker side

class QueryTimeout(Exception):
    pass


def _on_alarm(signum, frame):
    raise QueryTimeout()


def _init_worker():
    try:
        common.setup_repo_imports()
        warnings.filterwarnings('ignore')
        from . import recog
        recog._RECOGNIZERS = None
        rec = instrument()
        recog.recognizers()
        _S['recog'] = recog
        _S['ex'] = {}
        _S['variant'] = probe_variants()
        signal.signal(signal.SIGALRM, _on_alarm)
    except BaseException as e:
        import traceback
        _S['init_error'] = '%s: %s\n%s' % (type(e).__name__, e, traceback.format_exc())


def extractors(culture):
    if culture not in _S['ex']:
        model = _S['recog'].get_model('DateTime', 'DateTimeModel', culture)
        cfg = model.extractor.config
        out = []
        for attr in EXTRACTOR_ATTRS:
            ex = getattr(cfg, attr, None)
            if ex is None or not hasattr(ex, 'config'):
                continue
            instrument_config(ex.config, _S['rec'])
            out.append((attr, ex))
        _S['ex'][culture] = out
    return _S['ex'][culture]


def _chunk(args):
    tasks, timeout = args
    if 'init_error' in _S:
        raise common.InfraError('dtextract worker failed to initialise: ' + _S['init_error'])
    rec = _S['rec']
    out, seen, dropped = [], set(), 0
    for (cul, q, ref) in tasks:
        try:
            exs = extractors(cul)
        except Exception as e:
            out.append({'kind': 'setup', 'problem': 'cannot build extractors for %s: %s: %s' % (cul, type(e).__name__, e),
                        'task': (cul, q)})
            continue
        for attr, ex in exs:
            rec.frames.clear()
            rec.stack.clear()
            signal.setitimer(signal.ITIMER_REAL, timeout, 1.0)
            try:
                try:
                    ex.extract(q, ref)
                except QueryTimeout:
                    raise
                except Exception:
                    pass        # the merged extractor's caller swallows it; the frames recorded so far are still compared
                signal.setitimer(signal.ITIMER_REAL, 0)
            except QueryTimeout:
                signal.setitimer(signal.ITIMER_REAL, 0)
                dropped += 1
                rec.stack.clear()
                continue
            finally:
                signal.setitimer(signal.ITIMER_REAL, 0)
            for fr in list(rec.frames):
                for o in frame_ops(fr):
                    key = (o.get('op'), o.get('impl'), o.get('problem'))
                    if key in seen:
                        continue
                    seen.add(key)
                    o['task'] = (cul, q)
                    o['ext'] = attr
                    out.append(o)
            rec.frames.clear()
    keep = ('kind', 'op', 'impl', 'src', 'hyp', 'problem', 'skipped', 'task', 'ext', 'n_results', 'tokens_inside',
            'tokens', 'impl_prefix_of')
    return [{k: o[k] for k in keep if k in o} for o in out], dropped, dict(_S.get('variant') or {})


# ------------------------------------------------------------------ inputs

BOUNDARY = {
    'en-us': [
        "15/12 and 5/12", "this 5/12", "next friday 5/12", "in 3 weeks", "3 weeks in", "go 3 weeks in",
        "the 20th of next month", "see you on the 20th of next month  ", "20th of next month      and then",
        "second sunday   ", "the second sunday  ok", "I'll go back twenty second of June", "june 2nd 2019",
        "monday june 2nd, 2019", "for the 25th", "Thursday the 21st", "Monday 21", "on the 3rd of june 2016 friday",
        "more than 3 days ago", "less than 2 weeks from now", "2 days before today", "3 hours ago", "in 5 minutes",
        "within 3 days", "within the next 5 days", "next five days", "past 3 weeks", "2 upcoming days", "3 days later",
        "  today from 4 jan to 5 jan", "   from 4 jan to 5 jan", "  x between 4 jan and 5 jan", "from 4 jan to 5 jan",
        "between 4 jan and 5 jan", "4 jan till 5 jan 2019", "at 7 tomorrow", "tomorrow at 7pm in the afternoon",
        "3 pm or later on monday", "monday 3 pm", "this morning at 7am", "seven this afternoon", "tonight at 8",
        "the end of the day tomorrow", "tomorrow eod", "   the end of today", "tomorrow the end of", "on monday  end of the",
        "july 4th   the end of", "june 2nd", "monday june 2nd", "1 year 2 months and 3 days",
        "more than 2 days and more than 3 days", "2 hours and a half", "an hour", "3hrs", "few days", "all day",
        "from tomorrow 3pm to friday 5pm", "  between tomorrow 3pm and friday 5pm", "it was last year", "now",
        "today 3pm until tomorrow 4pm between", "", " ", "1", "may", "12:30", "9:00a.", "I'll be back at 9:00a.",
        "x İ y from 4 jan to 5 jan 2016", "İİ 20th of next month",
    ],
    'es-es': ["del 4 de enero al 5 de enero", "  hoy entre el 4 de enero y el 5 de enero", "hace 3 dias", "en 3 semanas",
              "mañana a las 7", "el 20 del próximo mes", "lunes 21", "1 año 2 meses y 3 dias", ""],
    'fr-fr': ["du 4 janvier au 5 janvier", "  entre le 4 janvier et le 5 janvier", "il y a 3 jours", "dans 3 semaines",
              "demain à 7h", "le 20 du mois prochain", "lundi 21", "1 an 2 mois et 3 jours", ""],
    'de-de': ["vom 4. januar bis 5. januar", "  zwischen 4. januar und 5. januar", "vor 3 tagen", "in 3 wochen",
              "morgen um 7 uhr", "montag 21", "1 jahr 2 monate und 3 tage", ""],
    'pt-br': ["I'll be back at 9:00a.", "de 4 de janeiro a 5 de janeiro", "há 3 dias", "em 3 semanas", ""],
    'it-it': ["dal 4 gennaio al 5 gennaio", "3 giorni fa", "tra 3 settimane", "x İ y dalle 1p.m. alle 4 il 12 Gennaio del 2016", ""],
}


def build_tasks(ctx, tasks):
    """boundary-first hand-made queries, then a seeded sample of the pipeline's date-time tasks (Specs inputs +
    generated expressions) per culture"""
    out = []
    for cul in CULTURES:
        for q in BOUNDARY.get(cul, []):
            out.append((cul, q, REF))
    per = 400 if ctx.thorough else 110
    by_cul = {}
    for t in tasks or []:
        if t[0] == 'DateTime' and t[2] in CULTURES and isinstance(t[3], str) and len(t[3]) <= 160:
            by_cul.setdefault(t[2], []).append(t)
    for cul in CULTURES:
        ts = sorted(set((t[3], t[4]) for t in by_cul.get(cul, [])), key=lambda x: (x[0], str(x[1])))
        r = ctx.rng('dtextract:' + cul)
        if len(ts) > per:
            ts = r.sample(ts, per)
        for q, ref in ts:
            out.append((cul, q, ref if isinstance(ref, datetime.datetime) else REF))
    seen, uniq = set(), []
    for t in out:
        k = (t[0], t[1])
        if k not in seen:
            seen.add(k)
            uniq.append(t)
    return uniq


def unit_ops(tasks, nproc=16, timeout=15.0):
    if not tasks:
        LAST['variants'] = []
        return [], 0
    by_cul = {}
    for t in tasks:
        by_cul.setdefault(t[0], []).append(t)
    # one culture per chunk keeps the number of models a worker has to build small
    chunks = []
    for cul, ts in sorted(by_cul.items()):
        k = max(1, min(len(ts), nproc // max(1, len(by_cul)) + 1))
        for i in range(k):
            part = ts[i::k]
            if part:
                chunks.append((part, timeout))
    mpctx = multiprocessing.get_context('fork')
    pool = mpctx.Pool(min(nproc, len(chunks)), initializer=_init_worker)
    try:
        parts = pool.map_async(_chunk, chunks, chunksize=1).get(3000)
    finally:
        pool.terminate()
        pool.join()
    ops, dropped = [], 0
    variants = []
    for part, d, v in parts:
        ops.extend(part)
        dropped += d
        if v not in variants:
            variants.append(v)
    LAST['variants'] = variants
    return ops, dropped


# ------------------------------------------------------------------ the check

WITNESSES = [
    # (driver line, expected model answer, what it shows)
    ('dx.range\t0:0:0\td\t13:5,22:5\t-\t1:0:1:8:0:-1:0:-1:2', '6:27',
     'PRE-FIX from-index-into-stripped-prefix: "  today from 4 jan to 5 jan" -> the range token starts inside "today"'),
    ('dx.range\t0:0:1\td\t13:5,22:5\t-\t1:0:1:8:0:-1:0:-1:2', '8:27', 'repaired: the range token starts at "from"'),
    ('dx.range\t0:0:0\tt\t0:3,7:3\t-\t1:0:0:-1:0:-1:1:0:0', '0:0',
     'time period: "between" found after the range replaces the end by an index into the suffix'),
    ('dx.reldur\t30\t-\t0/5/0/1:20:2:1/1/0', '20:5', 'in-prefix connector searched in the text AFTER the duration: reversed token'),
    ('dx.basic\t0:0:0\t0:0:5:0:0:0:0,1:10:14:0:0:0:0', '0:5,1:5', 'PRE-FIX "15/12 and 5/12": second token at the first occurrence'),
    ('dx.basic\t1:0:0\t0:0:5:0:0:0:0,1:10:14:0:0:0:0', '0:5,10:14', 'repaired: both dates'),
    ('dx.mdt\t0:0:0\t0:4:0,17:6:1\t1:0:1:0\t0:0:0:0:0:0', 'err:TypeError', 'PRE-FIX "3 pm or later on monday": len(<int>)'),
    ('dx.mdt\t0:1:0\t0:4:0,17:6:1\t1:0:1:0\t0:0:0:0:0:0', '0:23', 'repaired: the date-time token'),
]


def pipeline_spans(culture, q, ref):
    from . import recog
    rs = recog.parse('DateTime', 'DateTimeModel', culture, q, ref)
    return [(r.start, r.end, r.text, r.type_name) for r in rs]


def replay_witnesses(ctx):
    """the witnesses of the negative theorems, replayed through the compiled model"""
    ans = common.driver([w[0] for w in WITNESSES])
    for (line, exp, what), a in zip(WITNESSES, ans):
        ctx.count('dtextract:witness')
        if a != exp:
            ctx.report('correspondence', 'dtextract-witness', 'witness %r: model answers %s, expected %s (%s)' % (line, a, exp, what),
                       failing_input={'op': line}, property_fails=False)


def run_light(ctx, prop):
    """C12: the witnesses and the pipeline follow-up of the leading-blank range defect (the recorded-call
    correspondence itself runs in C01)"""
    replay_witnesses(ctx)
    leading_blank_followup(ctx, prop)


def run(ctx, prop, tasks=None):
    """unit correspondence of the sub-extractor token arithmetic + follow-up of out-of-text tokens at pipeline level"""
    import time
    t0 = time.time()
    replay_witnesses(ctx)
    my = build_tasks(ctx, tasks)
    ops, dropped = unit_ops(my)
    ctx.extra['dtextract'] = {'queries': len(my), 'dropped_timeouts': dropped, 'cultures': CULTURES,
                              'tree_variant': LAST.get('variants')}
    if len(LAST.get('variants') or []) > 1:
        ctx.report('correspondence', 'dtextract-variant-probe', 'workers disagree on the variant of the tree: %r' % LAST['variants'],
                   failing_input={'variants': LAST['variants']}, property_fails=False)
    lines, live = [], []
    for o in ops:
        if o.get('skipped'):
            ctx.count('dtextract-skipped:' + o['kind'])
            continue
        if 'op' not in o:
            ctx.report('correspondence', 'dtextract-instrumentation:' + o.get('kind', '?'), o.get('problem', '?'),
                       failing_input={'task': o.get('task')}, property_fails=False)
            continue
        lines.append(o['op'])
        live.append(o)
    ans = common.driver(lines) if lines else []
    hyp = {}
    outside = []
    for o, a in zip(live, ans):
        k = o['kind']
        ctx.count('dtextract:' + k)
        if o.get('n_results'):
            ctx.nontriv(('dx', k, o['op'][:200]))
        for h, v in (o.get('hyp') or {}).items():
            d = hyp.setdefault(k + '.' + h, {'true': 0, 'false': 0, 'n': 0})
            if isinstance(v, bool):
                d['true' if v else 'false'] += 1
            else:
                d['n'] += v
        impl = o.get('impl')
        if impl is None and o.get('impl_prefix_of') is not None:
            full = o['impl_prefix_of']
            ok = a == '-' or full == a or full.startswith(a + ',')
            impl = full + ' (prefix)'
        elif impl is None:
            continue
        else:
            ok = a == impl
        if not ok:
            ctx.report('correspondence', 'dtextract-' + k,
                       '%s (%s, %s) on %r: implementation %s, model %s' % (k, o.get('ext'), o['task'][0], o.get('src'), impl, a),
                       failing_input={'task': list(o['task']), 'op': o['op'], 'implementation': impl, 'model': a},
                       property_fails=False)
        # theorem consequence on the implementation's own tokens: hypotheses true -> tokens inside the text
        hyps = [v for v in (o.get('hyp') or {}).values() if isinstance(v, bool)]
        if o.get('tokens_inside') is False:
            outside.append(o)
            d = hyp.setdefault(k + '.tokens_outside_text', {'true': 0, 'false': 0, 'n': 0})
            d['n'] += 1
    ctx.extra['dtextract']['monitored_hypotheses'] = hyp
    ctx.extra['dtextract']['ops'] = len(lines)
    # follow-up: a sub-extractor handed out a token that is not inside the text -> does the property fail on the
    # recogniser's output for that query?
    seen = set()
    samples = []
    for o in outside:
        cul, q = o['task']
        if (cul, q) in seen:
            continue
        seen.add((cul, q))
        if len(samples) < 12:
            samples.append({'culture': cul, 'query': q, 'function': o['kind'], 'tokens': o.get('tokens')})
    ctx.extra['dtextract']['outside_token_samples'] = samples
    if samples:
        from . import spanpipe
        common.setup_repo_imports()
        for smp in samples[:10]:
            try:
                spans = pipeline_spans(smp['culture'], smp['query'], REF)
            except Exception:
                continue
            ctx.count('dtextract:outside-token-pipeline')
            bad = [(sp, why) for sp in spans for why in [spanpipe.span_ok(smp['query'], sp[0], sp[1], sp[2])] if why] \
                if prop == 'C01' else [(spans[i], spans[j]) for i, j in spanpipe.overlaps(spans)]
            if bad:
                ctx.report('property', 'subextractor-token-outside-text:%s:%s' % (smp['function'], smp['culture']),
                           '%s %r: %s handed out tokens %r that are not inside the text; recogniser output %r: %r' % (
                               smp['culture'], smp['query'], smp['function'], smp['tokens'], spans, bad),
                           failing_input={'culture': smp['culture'], 'query': smp['query'], 'reference': REF.isoformat(),
                                          'entities': spans}, property_fails=True)
    leading_blank_followup(ctx, prop)
    if lines:
        ctx.sample({'op': lines[len(lines) // 2][:300], 'model': ans[len(ans) // 2][:200]})
    ctx.extra['dtextract']['wall_s'] = round(time.time() - t0, 1)


LEADING_BLANK_PROBES = [
    # (signature, culture, query)
    ('range-prefix-index-leading-blank', 'en-us', '  today from 4 jan to 5 jan'),
    ('range-prefix-index-leading-blank', 'en-us', '  now between 4 jan and 5 jan'),
    ('range-prefix-index-leading-blank', 'en-us', '  tomorrow from 3pm to friday 5pm'),
    # BaseDateTimePeriodExtractor.match_simple_cases matches on `source.strip().lower()` and uses the match offsets as
    # source offsets (findings/dtextract/simple-cases-leading-blank.diff)
    ('simple-cases-leading-blank', 'en-us', '  today from 3pm to 4pm'),
]


def leading_blank_followup(ctx, prop):
    """indices taken in a left-stripped string and used as source offsets (witness theorem `range_from_leading_blank`):
    with leading blanks the range token starts too early and cuts into the entity before it"""
    from . import spanpipe
    common.setup_repo_imports()
    done = set()
    for sig, cul, q in LEADING_BLANK_PROBES:
        if sig in done:
            continue
        try:
            spans = pipeline_spans(cul, q, REF)
        except Exception:
            continue
        ctx.count('dtextract:leading-blank-pipeline')
        if prop == 'C12':
            bad = spanpipe.overlaps(spans)
            detail = 'entities %r overlap' % (spans,)
        else:
            bad = [(sp, why) for sp in spans for why in [spanpipe.span_ok(q, sp[0], sp[1], sp[2])] if why]
            detail = 'entities %r: %r' % (spans, bad)
        if bad:
            done.add(sig)
            ctx.report('property', sig, '%s %r: %s (an index into a left-stripped string used as a source offset)' % (cul, q, detail),
                       failing_input={'culture': cul, 'query': q, 'reference': REF.isoformat(), 'entities': spans},
                       property_fails=True)


if __name__ == '__main__':
    # developer mode: python -m lib.dtextractcorr [culture] < queries
    class _Ctx:
        thorough = False

        def rng(self, tag):
            return common.rng_for(1, tag)

    cul = sys.argv[1] if len(sys.argv) > 1 else None
    tasks = [(c, q, REF) for c in CULTURES for q in BOUNDARY.get(c, []) if cul in (None, c)]
    ops, dropped = unit_ops(tasks, nproc=8)
    lines = [o['op'] for o in ops if 'op' in o]
    ans = common.driver(lines)
    it = iter(ans)
    nbad = 0
    for o in ops:
        if 'op' not in o:
            print('PROBLEM', o)
            continue
        a = next(it)
        impl = o.get('impl')
        if impl is None and o.get('impl_prefix_of') is not None:
            full = o['impl_prefix_of']
            ok = a == '-' or full == a or full.startswith(a + ',')
        else:
            ok = impl is None or a == impl
        if not ok:
            nbad += 1
            print('DIFF', o['kind'], o['task'], '\n   op  ', o['op'], '\n   impl', impl, o.get('impl_prefix_of'), '\n   lean', a)
        if o.get('tokens_inside') is False:
            print('OUTSIDE', o['kind'], o['task'], o.get('tokens'))
        for h, v in (o.get('hyp') or {}).items():
            if v is False:
                print('HYP-FALSE', o['kind'], h, o['task'])
    print('ops', len(lines), 'bad', nbad, 'dropped', dropped)
