"""Unit correspondence and pipeline oracles for the fraction / point / power / suffix paths of BaseNumberParser
(RTV.Model.NumFrac, Lean driver ops `nf.*`; theorems in RTV/Props/C03Frac.lean).  Called from corr/c03.py: `run(ctx)`.

unit      binary64 mul / add / int->float / Decimal(float) vs CPython floats; `Context.power` (integral exponent) vs
          CPython decimal; the model tokenizer vs `parser.text_number_regex.finditer`; `normalize_token_set` (en, es,
          fr); `__get_point_value`; `_digit_number_parse`, `_text_number_parse`, `_power_number_parse`,
          `_frac_like_number_parse` and `parse` of the parsers `AgnosticNumberParserFactory.get_parser(NUMBER / FRACTION /
          DOUBLE / INTEGER / CARDINAL / PERCENTAGE, cfg)` for the English, Spanish, French (and, for the non-fraction
          paths, German) configurations, on ExtractResults built the way the extractors build them (the extractor's
          own results for generated phrases, and constructed text + tag pairs).
          The regex outcomes the model takes as inputs (sign prefix, digital_number_regex matches, half-a-dozen
          substitution, round_multiplier_regex match) are obtained by calling the same configuration regexes on the
          same text, never from the method's result.
pipeline  recognize_number on generated suffix / numeric-fraction / spelled-fraction / point / power expressions,
          judged by an exact-rational oracle (value to 15 significant digits, whole-expression span, one entity)."""
import math
import unicodedata
from decimal import Decimal, Context, ROUND_HALF_EVEN, localcontext, InvalidOperation, DivisionByZero, Overflow
from fractions import Fraction

from . import common
from .common import cps, uncps

UNIT_CULTURES = ['en-us', 'es-es', 'fr-fr']          # every path
EXTRA_CULTURES = ['de-de']                           # tokenizer (boundary-free alternative), digit / power / text paths
_state = {}


def setup():
    if _state:
        return _state
    common.setup_repo_imports()
    import regex
    import recognizers_text
    import recognizers_number
    from recognizers_text.extractor import ExtractResult
    from recognizers_number.number.number_recognizer import NumberRecognizer
    from recognizers_number.number.parser_factory import AgnosticNumberParserFactory, ParserType
    from recognizers_number.number.english.parsers import EnglishNumberParserConfiguration
    from recognizers_number.number.spanish.parsers import SpanishNumberParserConfiguration
    from recognizers_number.number.french.parsers import FrenchNumberParserConfiguration
    from recognizers_number.number.german.parsers import GermanNumberParserConfiguration
    common.assert_tree_modules(recognizers_text, recognizers_number)
    cfgs = {'en-us': EnglishNumberParserConfiguration, 'es-es': SpanishNumberParserConfiguration,
            'fr-fr': FrenchNumberParserConfiguration, 'de-de': GermanNumberParserConfiguration}
    parsers = {}
    for cu, cls in cfgs.items():
        parsers[cu] = {pt.name: AgnosticNumberParserFactory.get_parser(pt, cls()) for pt in ParserType}
    recs = {}
    for cu in cfgs:
        rec = NumberRecognizer(cu)
        recs[cu] = {'number': rec.get_number_model(cu, False), 'percentage': rec.get_percentage_model(cu, False)}
    _state.update(regex=regex, ER=ExtractResult, parsers=parsers, models=recs, rn=recognizers_number)
    return _state


# ------------------------------------------------------------------------------------------------ canonical forms

def dec_triple(d):
    t = d.as_tuple()
    coeff = int(''.join(map(str, t.digits))) if t.digits else 0
    return '%d %d %d' % (t.sign, coeff, t.exponent)


def err_kind(e):
    if isinstance(e, Overflow):
        return 'err:Overflow'
    if isinstance(e, IndexError):
        return 'err:IndexError'
    if isinstance(e, KeyError):
        return 'err:KeyError'
    if isinstance(e, (DivisionByZero, InvalidOperation, ZeroDivisionError, ValueError)):
        return 'err:Arith'
    if isinstance(e, (TypeError, AttributeError)):
        return 'err:TypeError'
    return 'err:Other:' + type(e).__name__


def canon_model(s):
    for a in ('err:ZeroDivisionError', 'err:ValueError'):
        if s.startswith(a):
            return 'err:Arith'
    return s


def show_value(v):
    if isinstance(v, Decimal):
        return 'D ' + dec_triple(v) if v.is_finite() else 'err:Special'
    if isinstance(v, float):
        return 'F ' + cps(repr(v))
    return 'other:%r' % (v,)


def show_dec(v):
    if isinstance(v, Decimal):
        return dec_triple(v) if v.is_finite() else 'err:Special'
    return 'other:%r' % (v,)


def f_canon(x):
    """python float -> 'neg m e' with odd m"""
    neg = 1 if math.copysign(1.0, x) < 0 else 0
    if x == 0:
        return '%d 0 0' % neg
    n, d = abs(x).as_integer_ratio()
    e = 0
    while n % 2 == 0:
        n //= 2
        e += 1
    e -= d.bit_length() - 1
    return '%d %d %d' % (neg, n, e)


def f_of(neg, m, e):
    return math.ldexp(float(m), e) * (-1.0 if neg else 1.0)


def lst(items):
    return ';'.join(cps(x) for x in items)


# ------------------------------------------------------------------------------------------------ regex outcomes

def aux_of(parser, text):
    """what `parse` and the branch functions get from the configuration's regexes for this text"""
    rx = setup()['regex']
    cfg = parser.config
    m = rx.search(cfg.negative_number_sign_regex, text)
    neglen = None
    body = text
    if m:
        prefix = next((g for g in m.groups() if g), '')
        neglen = len(prefix)
        body = text[neglen:]
    low = body.lower()
    half = rx.sub(cfg.half_a_dozen_regex, cfg.half_a_dozen_text, low)
    ms = [mm.group() for mm in rx.finditer(cfg.digital_number_regex, low)]
    rm = 'none'
    if cfg.round_multiplier_regex is not None:
        r = cfg.round_multiplier_regex.search(low)
        if r is not None:
            rm = '%s|%s|%d' % (cps(r.group(0)), cps(r.group('multiplier') or ''), 1 if r.group('fracMultiplier') is not None else 0)
    return {'neglen': neglen, 'body': body, 'low': low, 'half': half, 'matches': ms, 'rm': rm}


def variant_of_tree():
    """Which variant of _power_number_parse the working tree follows (findings/numfrac/pow-x10.diff), probed on the real
    method with the fixed input `1.5x10^3`: 1 = `X10^` is rewritten to `E` (1500), 0 = the code as first found (1.51 ** 3)."""
    st = setup()
    if 'fx' not in st:
        v = under15(lambda: st['parsers']['en-us']['NUMBER']._power_number_parse(mk_er('1.5x10^3', 'DoublePow')).value)
        st['fx'] = 1 if (isinstance(v, Decimal) and v == Decimal(1500)) else 0
    return st['fx']


def mk_er(text, data, typ='builtin.num'):
    er = setup()['ER']()
    er.start, er.length, er.text, er.type, er.data = 0, len(text), text, typ, data
    return er


def under15(fn):
    with localcontext() as c:
        c.prec = 15
        try:
            return fn()
        except Exception as e:          # the parser's exceptions are part of its behaviour
            return e


# ------------------------------------------------------------------------------------------------ generators

ONES = ['zero', 'one', 'two', 'three', 'four', 'five', 'six', 'seven', 'eight', 'nine', 'ten', 'eleven', 'twelve', 'thirteen',
        'fourteen', 'fifteen', 'sixteen', 'seventeen', 'eighteen', 'nineteen']
TENS = ['', '', 'twenty', 'thirty', 'forty', 'fifty', 'sixty', 'seventy', 'eighty', 'ninety']
ORD1 = {1: 'first', 2: 'second', 3: 'third', 4: 'fourth', 5: 'fifth', 6: 'sixth', 7: 'seventh', 8: 'eighth', 9: 'ninth',
        10: 'tenth', 11: 'eleventh', 12: 'twelfth', 13: 'thirteenth', 14: 'fourteenth', 15: 'fifteenth', 16: 'sixteenth',
        17: 'seventeenth', 18: 'eighteenth', 19: 'nineteenth', 20: 'twentieth', 30: 'thirtieth', 40: 'fortieth',
        50: 'fiftieth', 60: 'sixtieth', 70: 'seventieth', 80: 'eightieth', 90: 'ninetieth'}


def en_card(n, hyphen=False):
    if n < 20:
        return ONES[n]
    if n < 100:
        t, u = divmod(n, 10)
        return TENS[t] + (('-' if hyphen else ' ') + ONES[u] if u else '')
    if n < 1000:
        h, r = divmod(n, 100)
        return ONES[h] + ' hundred' + (' and ' + en_card(r, hyphen) if r else '')
    for scale, word in ((10 ** 12, 'trillion'), (10 ** 9, 'billion'), (10 ** 6, 'million'), (1000, 'thousand')):
        if n >= scale:
            h, r = divmod(n, scale)
            return en_card(h, hyphen) + ' ' + word + (' ' + en_card(r, hyphen) if r else '')


def en_ord(n, hyphen=False):
    """ordinal word for a denominator (singular)"""
    if n in ORD1:
        return ORD1[n]
    if n < 100:
        t, u = divmod(n, 10)
        return TENS[t] + ('-' if hyphen else ' ') + ORD1[u]
    if n == 100:
        return 'hundredth'
    if n == 1000:
        return 'thousandth'
    if n == 10 ** 6:
        return 'millionth'
    if n < 1000:
        h, r = divmod(n, 100)
        return ONES[h] + ' hundred ' + ('and ' if False else '') + en_ord(r, hyphen) if r else ONES[h] + ' hundredth'
    return None


def en_denominator(d, plural, hyphen=False):
    if d == 2:
        return 'halves' if plural else 'half'
    if d == 4 and plural is not None:
        w = en_ord(4)
        return (w + 's') if plural else w
    w = en_ord(d, hyphen)
    if w is None:
        return None
    return w + 's' if plural else w


SUFFIXES_EN = [('k', 3), ('K', 3), (' k', 3), ('m', 6), ('M', 6), (' mil', 6), ('mm', 6), ('b', 9), ('B', 9), ('g', 9), ('G', 9),
               ('t', 12), ('T', 12), (' hundred', 2), (' thousand', 3), (' million', 6), (' billion', 9), (' trillion', 12),
               (' lakh', 5), (' crore', 7), (' mln', 6), (' bln', 9), (' tln', 12)]
SUFFIXES = {
    'en-us': SUFFIXES_EN,
    'es-es': [('k', 3), (' k', 3), ('M', 6), ('b', 9), ('t', 12), (' mil', 3), (' millones', 6), (' millón', 6), (' billones', 12)],
    'fr-fr': [('k', 3), ('M', 6), ('G', 9), ('t', 12), (' cent', 2), (' mille', 3), (' millions', 6), (' milliards', 9),
              (' million', 6), (' milliard', 9)],
    'de-de': [('k', 3), ('M', 6), (' tausend', 3), (' millionen', 6), (' milliarden', 9), (' hundert', 2), (' mio', 6), (' mrd', 9)],
}
MARKS = {'en-us': (',', '.'), 'es-es': ('.', ','), 'fr-fr': ('.', ','), 'de-de': ('.', ',')}

LITS = [('2', None), ('5', None), ('12', None), ('100', None), ('999', None), ('1000', None), ('0', None), ('1', '5'), ('0', '5'),
        ('2', '75'), ('12', '345'), ('3', '2'), ('1', '05'), ('123456789', None), ('999999999999999', None),
        ('1234567890123456', None), ('99999', '9999999999'), ('1', '000000000000001'), ('7', '5000')]


def lit_text(cu, ip, fp, grouped=False):
    g, d = MARKS[cu]
    s = ip
    if grouped and len(ip) > 3:
        parts = []
        while len(s) > 3:
            parts.insert(0, s[-3:])
            s = s[:-3]
        parts.insert(0, s)
        s = g.join(parts)
    return s + (d + fp if fp is not None else '')


def lit_value(ip, fp):
    return Fraction(int(ip + (fp or '')), 10 ** len(fp or ''))


def gen_digit_cases(ctx, cu):
    """(text, tag) for the digit branch"""
    r = ctx.rng('nf-digit', cu)
    out = []
    lits = list(LITS)
    for _ in range(40 if ctx.thorough else 12):
        ip = str(r.randint(0, 10 ** r.randint(1, 13)))
        fp = None if r.random() < 0.5 else str(r.randint(0, 10 ** r.randint(1, 6))).zfill(r.randint(1, 6))
        lits.append((ip, fp))
    for ip, fp in lits:
        for grouped in (False, True):
            if grouped and len(ip) <= 3:
                continue
            t = lit_text(cu, ip, fp, grouped)
            for j, (suf, _k) in enumerate(SUFFIXES[cu]):
                for sign in ('', '-', '- '):
                    tag = 'DoubleNum' if fp is not None else 'IntegerNum'
                    if ctx.thorough or sign == '' or (j + len(t)) % 3 == 0:
                        out.append((sign + t + suf, tag))
    extra = ['2 hundred thousand', '3 thousand million', '2 k k', '5 million million', '1.5 hundred hundred', '2 dozen',
             '3 dozens', '12 dz', '2 dozen thousand', 'k', '2 k 3 k', '2 hundred 3', '2 thousand 5 hundred', '7 mil mil',
             '2k5', '2 kk', 'hundred', '1,5 k', '1.234,5 k', '1 234 k', '12  thousand', '4 t', '9 b', '2 ', ' 2k', '2k ',
             '２k', '٣ k', '2 hundredth']
    for t in extra:
        out.append((t, 'IntegerNum'))
    # numeric fractions go through the same branch (tag FracNum)
    nums = [0, 1, 2, 3, 5, 7, 9, 10, 12, 99, 100, 101, 355, 1000, 12345, 999999999999999, 1234567890123456]
    dens = [0, 1, 2, 3, 4, 7, 8, 9, 10, 16, 113, 1000, 99999, 10 ** 15]
    for _ in range(60 if ctx.thorough else 15):
        nums.append(r.randint(0, 10 ** r.randint(1, 16)))
        dens.append(r.randint(0, 10 ** r.randint(1, 16)))
    pairs = [(a, b) for a in nums[:17] for b in dens[:14]] + list(zip(nums[17:], dens[14:]))
    for a, b in pairs:
        out.append(('%d/%d' % (a, b), 'FracNum'))
    for a, b in pairs[::7]:
        for w in (0, 1, 3, 12, 999, 10 ** 14):
            out.append(('%d %d/%d' % (w, a, b), 'FracNum'))
            out.append(('-%d %d/%d' % (w, a, b), 'FracNum'))
        out.append(('-%d/%d' % (a, b), 'FracNum'))
        out.append(('- %d/%d' % (a, b), 'FracNum'))
    out += [('1/2/3', 'FracNum'), ('/', 'FracNum'), ('1/', 'FracNum'), ('1 /2', 'FracNum'), ('1/ 2', 'FracNum'), ('1 2 3/4', 'FracNum'),
            ('1.5/2', 'FracNum'), ('1,5/2', 'FracNum'), ('3/4k', 'FracNum'), ('1 1/2 k', 'FracNum')]
    return list(dict.fromkeys(out))


def gen_pow_cases(ctx, cu):
    r = ctx.rng('nf-pow', cu)
    g, d = MARKS[cu]
    mants = ['1', '2', '5', '10', '12', '100', '999', '0', '1' + d + '5', '1' + d + '2', '1' + d + '1', '2' + d + '5', '0' + d + '5',
             '0' + d + '1', '3' + d + '14159', '1' + d + '0', '12' + d + '345', '123456789', '9999999999999999', '1' + g + '5',
             '0' + d + '000001', '1' + d + '23456789012345678', '7' + d + '7', '33' + d + '3']
    exps = ['0', '1', '2', '3', '5', '10', '15', '16', '20', '23', '-1', '-2', '-3', '-7', '-10', '-23', '+2', '+-2', '--2', '-+3',
            '30', '64', '100', '-100', '308']
    for _ in range(40 if ctx.thorough else 10):
        mants.append(str(r.randint(0, 10 ** r.randint(1, 12))) + (d + str(r.randint(0, 10 ** 6)) if r.random() < 0.6 else ''))
        exps.append(str(r.randint(-40, 40)))
    out = []
    k = 0
    for m in mants:
        for e in exps:
            for op in ('e', 'E', '^', 'x10^'):
                for sign in ('', '-', '- '):
                    k += 1
                    if ctx.thorough or cu == 'en-us' and k % 3 == 0 or k % 11 == 0:
                        out.append((sign + m + op + e, 'DoublePow'))
    out += [(t, 'DoublePow') for t in ['1' + d + '5x10^3', '1' + d + '5e3', '1' + d + '2e-3', '2^10', '10^-2', '2' + d + '5^2', '1e16', '5', 'e5', '1e', '1^', '^', '1e2e3', '1^2^3', '1e+', '1e2+', '2^1' + d + '5', '1e1' + d + '0',
                                       '2^0' + d + '5', '1' + d + d + '5e2', '1' + d + '5' + d + '5e2', '１e２', '2²^2', '1e٣', 'Ⅻe2',
                                       '1 e 5', '1e 5', ' 1e5 ', '1é5', '1ﬁe2', '0e5', '-0' + d + '0e5', '0^-2', '0^0', '0^2']]
    return list(dict.fromkeys(out))


POINT_TAILS_EN = ['one four', 'zero five', 'five', 'zero zero one', 'twenty five', 'twenty', 'ten', 'nineteen', 'ninety nine',
                  'one two three four five six seven eight nine', 'nine nine nine nine nine nine nine nine nine nine nine nine nine nine nine',
                  'one one one one one one one one one one one one one one one one', 'five hundred', 'one hundred', 'twelve hundred',
                  'zero', 'zero zero', 'a', 'one and two', 'five-six', 'twenty-five', 'five 6', '5', 'fifth', 'one fifth', 'nought five',
                  'twenty five thousand', 'seventy', 'eleven', 'one zero', 'ten five']
INT_HEADS_EN = ['zero', 'one', 'three', 'twelve', 'twenty', 'forty two', 'one hundred', 'one hundred and one', 'two thousand and five',
                'nine hundred ninety nine thousand nine hundred ninety nine', 'one million', 'a hundred', '', 'minus three', '3', '12']
TEXT_ES = ['tres coma uno cuatro', 'cero coma cero cinco', 'dos coma veinticinco', 'dos con cinco', 'uno coma cinco', 'cien coma cinco',
           'tres', 'ciento veinte', 'dos mil', 'tres coma', 'coma cinco', 'tres coma cinco coma dos', 'tres con cinco coma dos',
           'uno coma diez', 'uno coma doce', 'cuatro coma cero cero uno', 'media docena', 'veintiuno coma tres']
TEXT_FR = ['trois virgule un quatre', 'zéro virgule zéro cinq', 'deux virgule vingt-cinq', 'un virgule cinq', 'cent virgule cinq',
           'trois', 'cent vingt', 'deux mille', 'trois virgule', 'virgule cinq', 'un virgule dix', 'deux virgule cinq virgule un',
           'quatre-vingt virgule cinq', 'demi douzaine', 'vingt et un virgule trois']
TEXT_DE = ['drei komma eins vier', 'null komma null fünf', 'zwei komma fünfundzwanzig', 'eins komma fünf', 'drei', 'einhundert',
           'zweitausend', 'drei komma', 'komma fünf', 'einskommafünf', 'dreikommaeinsvier']


def gen_text_cases(ctx, cu):
    if cu == 'en-us':
        out = []
        for h in INT_HEADS_EN:
            for t in POINT_TAILS_EN:
                out.append(((h + ' point ' + t).strip(), 'DoubleEng'))
        out += [(t, 'IntegerEng') for t in INT_HEADS_EN if t] + [('half a dozen', 'IntegerEng'), ('half  a dozen point five', 'DoubleEng'),
                                                                   ('three point one point four', 'DoubleEng'), ('point', 'DoubleEng'),
                                                                   ('three point', 'DoubleEng'), ('threepointfive', 'DoubleEng'),
                                                                   ('three pointless five', 'DoubleEng'), ('', 'DoubleEng')]
        r = ctx.rng('nf-text')
        for _ in range(300 if ctx.thorough else 60):
            n = r.randint(0, 10 ** r.randint(1, 9))
            digs = [r.randint(0, 9) for _ in range(r.randint(1, 16))]
            out.append((en_card(n, r.random() < 0.5) + ' point ' + ' '.join(ONES[x] for x in digs), 'DoubleEng'))
        return list(dict.fromkeys(out))
    return [(t, 'Double' + {'es-es': 'Spa', 'fr-fr': 'Fre', 'de-de': 'Ger'}[cu]) for t in {'es-es': TEXT_ES, 'fr-fr': TEXT_FR, 'de-de': TEXT_DE}[cu]]


# the first three are the inputs of the witness theorems of Props/C03Frac (mixed_roundth_witness, thirty_seconds_witness)
FRAC_EN_FIXED = ['two and three hundredths', 'three thirty-seconds', 'one thirty-second', 'three fifths', 'one and a half', 'one half', 'half', 'a half', 'a quarter', 'three quarters', 'one quarter', 'a third',
                 'two thirds', 'one third', 'two and three fifths', 'one hundred and three and two thirds', 'twenty one thirds',
                 'one twenty first', 'three twenty-firsts', 'one hundred twenty firsts', 'one hundred thousand and a half',
                 'two and a half million', 'three fifths of a million', 'half a million', 'a quarter of a million', 'half a hundred',
                 'one in three', 'two out of five', 'three over four', '3 over 4', 'three over 4', '3 over four', 'one over zero',
                 'zero over five', 'twelve over one hundred and five', 'five and three quarters', 'five and a quarter',
                 'one and one half', 'thirty and three fifths', 'one hundred and five sixths', 'two thousand three hundredths',
                 'three hundredths', 'one thousandth', 'seven thousandths', 'five millionths', 'two hundred thousandths',
                 'one hundred and twenty fifths', 'one hundred twenty-fifths', 'three one hundredths', 'an eighth', 'one eighth',
                 'eleven and nine sixteenths', 'twenty-two sevenths', 'twenty two sevenths', 'two halves', 'three halves',
                 'one and two halves', 'nine tenths', 'zero thirds', 'one zeroth', 'a half million', 'two and a quarter billion',
                 'three and a half thousand', 'a hundredth', 'one and a half hundred', 'five sixths of a thousand',
                 'two and two thirds million', 'two thirds of a billion', 'one and a third', 'sixty-five hundredths', 'over', 'over three',
                 'three over', 'overover', '', ' ', 'and', 'and a half', 'half and', 'one and', 'three-fifths', 'three - fifths',
                 'two and three-fifths', 'one  half', 'forty-one fiftieths', 'minus three fifths', 'ninety nine one hundredths',
                 'one and ninety nine hundredths', 'one hundred and ninety nine two hundredths', 'five twentieths', 'five twenty firsts',
                 'thirty one thirty seconds', 'six tenths of a million', 'two and a half dozen', 'half a dozen', 'a third of a trillion',
                 'twenty and a half', 'three fourths', 'one fourth', 'a fourth', 'seven and one fourth']
FRAC_ES = ['tres quintos', 'dos tercios', 'un medio', 'una mitad', 'medio', 'un tercio', 'tres cuartos', 'cinco y medio', 'dos con tres quintos',
           'tres sobre cuatro', '3 sobre 4', 'un quinto', 'siete octavos', 'uno sobre cero', 'veinte onceavos', 'tres doceavos', 'un veinteavo',
           'cinco y tres cuartos', 'cien y medio', 'dos y medio', 'tres centésimos', 'un milésimo', 'medio millón', 'dos tercios de millón',
           'veintiún treintaavos', 'un décimo', 'nueve décimos', '', 'sobre', 'y medio', 'tres con medio']
FRAC_FR = ['trois cinquièmes', 'deux tiers', 'un demi', 'demi', 'un tiers', 'trois quarts', 'deux et demi', 'un sur trois', '3 sur 4',
           'trois sur quatre', 'un cinquième', 'sept huitièmes', 'un sur zéro', 'deux et trois quarts', 'cent et demi', 'un centième',
           'trois centièmes', 'un millième', 'vingt et un trentièmes', 'un dixième', 'neuf dixièmes', 'un demi million', 'un quart de million',
           '', 'sur', 'et demi', 'deux et un demi', 'cinq et deux tiers', 'vingt-deux septièmes']


def gen_frac_cases(ctx, cu):
    tag = 'Frac' + {'en-us': 'Eng', 'es-es': 'Spa', 'fr-fr': 'Fre'}[cu]
    if cu != 'en-us':
        return [(t, tag) for t in (FRAC_ES if cu == 'es-es' else FRAC_FR)]
    r = ctx.rng('nf-frac')
    out = [(t, tag) for t in FRAC_EN_FIXED]
    nums = [1, 2, 3, 5, 7, 11, 12, 19, 20, 21, 99, 100, 101, 120, 1000, 2005]
    dens = [2, 3, 4, 5, 8, 9, 10, 11, 12, 16, 19, 20, 21, 25, 32, 50, 64, 99, 100, 1000, 10 ** 6, 120, 125, 365]
    for _ in range(50 if ctx.thorough else 10):
        nums.append(r.randint(1, 5000))
        dens.append(r.choice([r.randint(2, 99), r.randint(101, 999)]))
    for n in nums:
        for d in dens:
            for hy in (False, True):
                w = en_denominator(d, n != 1, hy)
                if w is None:
                    continue
                out.append((en_card(n, hy) + ' ' + w, tag))
                if n == 1:
                    out.append(('a ' + w, tag))
                out.append((en_card(n, hy) + ' over ' + en_card(d, hy), tag))
                out.append(('%d over %d' % (n, d), tag))
    wholes = [1, 2, 12, 20, 21, 100, 103, 1000, 99999]
    for w in wholes:
        for n, d in [(1, 2), (1, 4), (3, 4), (2, 3), (3, 5), (7, 8), (5, 16), (11, 12), (1, 100), (21, 100), (5, 3), (3, 21), (3, 3), (10, 10)] + [
                (r.randint(1, 30), r.randint(2, 99)) for _ in range(6)]:
            dw = en_denominator(d, n != 1)
            out.append((en_card(w) + ' and ' + en_card(n) + ' ' + dw, tag))
            if n == 1:
                out.append((en_card(w) + ' and a ' + dw, tag))
                out.append((en_card(w) + ' and an ' + dw, tag))
            for mult in ('million', 'billion', 'thousand', 'hundred'):
                out.append((en_card(w) + ' and ' + ('a' if n == 1 else en_card(n)) + ' ' + dw + ' ' + mult, tag))
                out.append((en_card(n) + ' ' + dw + ' of a ' + mult, tag))
                out.append((en_card(n) + ' ' + dw + ' ' + mult, tag))
                out.append((en_card(w) + ' ' + mult + ' and ' + ('a' if n == 1 else en_card(n)) + ' ' + dw, tag))
    return list(dict.fromkeys(out))


# every caller lower-cases first; IGNORECASE's full case folding of exotic letters (ſ, K) is outside the model
TOK_JUNK = ['', ' ', '-', ' -', '- ', 'and', 'andy', 'sand', 'and-', 'twenty-five', 'twenty -five', 'twenty - five', 'twentyfive', 'one1',
            '1one', '12', '12 13', '12a', 'a12', '１２', '٣', 'one_two', 'one.two', 'fifths', 'fifth', 'three fifths', 'a', 'an', 'a a',
            'hundredth', 'one hundredth', 'sixty-fifth', 'twenty-firsts', 'éone', 'oneé', 'one é', 'zero point five']


def gen_tok_cases(ctx, cu, parser, phrases):
    r = ctx.rng('nf-tok', cu)
    keys = list(parser.config.cardinal_number_map) + list(parser.config.ordinal_number_map)
    out = list(TOK_JUNK) + [p for p in phrases]
    pieces = keys + [' ', ' ', ' ', '-', ' - ', ' -', parser.config.word_separator_token, '7', '42', 'x', 's', 'é', '_', '.', ',']
    for _ in range(1500 if ctx.thorough else 300):
        out.append(''.join(r.choice(pieces) for _ in range(r.randint(1, 6))))
    return list(dict.fromkeys(out))


# ------------------------------------------------------------------------------------------------ unit level

def compare(ctx, family, lines, impl, descs, sig=None, nontriv=True):
    model = [canon_model(m) for m in common.driver(lines)]
    ctx.count('numfrac:' + family, len(lines))
    shown = 0
    for l, a, b, d in zip(lines, impl, model, descs):
        if b == 'err:Unsupported' and family != 'decimal-power':
            ctx.count('numfrac:outside-model(non-integral exponent)')     # Context.power with a non-integral exponent
            continue
        if nontriv and not a.startswith('err'):
            ctx.nontriv(('nf', family, d))
        if a != b:
            shown += 1
            if shown <= 5:
                ctx.report('correspondence', sig or ('numfrac-' + family), '%s: implementation %s, model %s' % (d, a, b),
                           failing_input={'op': l, 'call': d, 'implementation': a, 'model': b})
    return model


def unit_float(ctx):
    r = ctx.rng('nf-f64')
    xs = [0.0, 1.0, 0.1, 0.5, 0.2, 0.3, 0.01, 0.001, 1e-5, 10.0, 100.0, 9.0, 7.0, 1.5, 1.2, 1.1, 2.5, 3.14159, 1e22, 1e23, 2.0 ** 53, 2.0 ** 53 + 2,
          123456789.0, 0.30000000000000004, 5e-324 * 2 ** 600, 1e-300 * 1e100]
    s = 0.1
    for _ in range(40):
        xs.append(s)
        s *= 0.1
    for _ in range(3000 if ctx.thorough else 600):
        xs.append(math.ldexp(r.random(), r.randint(-120, 120)))
        xs.append(float(r.randint(0, 10 ** r.randint(1, 20))))
    xs = [x for x in xs if x == 0 or 1e-250 < abs(x) < 1e250]
    lines, impl, descs = [], [], []
    for i in range(len(xs)):
        a, b = xs[i], xs[(i * 7 + 3) % len(xs)]
        for sa, sb in ((1, 1), (1, -1), (-1, 1)) if i % 5 == 0 else ((1, 1),):
            a2, b2 = a * sa, b * sb
            for op, v in (('mul', a2 * b2), ('add', a2 + b2)):
                if v != 0 and not (1e-290 < abs(v) < 1e290):
                    continue
                lines.append('nf.f64\t%s\t%s\t%s' % (op, f_canon(a2).replace(' ', '\t'), f_canon(b2).replace(' ', '\t')))
                impl.append(f_canon(v))
                descs.append('%r %s %r' % (a2, op, b2))
        lines.append('nf.f64\ttodec\t%s' % f_canon(a).replace(' ', '\t'))
        impl.append(dec_triple(Decimal(a)))
        descs.append('Decimal(%r)' % a)
    ints = [0, 1, -1, 9, 10, 2 ** 53, 2 ** 53 + 1, 2 ** 53 + 2, 2 ** 53 + 3, 2 ** 54 + 2, 2 ** 54 + 6, 10 ** 16 + 1, 10 ** 22, 10 ** 23, -10 ** 23,
            9007199254740993, 18014398509481985, 123456789012345678901234567890]
    for _ in range(300):
        ints.append(r.randint(-10 ** r.randint(1, 40), 10 ** r.randint(1, 40)))
    for i in ints:
        lines.append('nf.f64\tofint\t%d' % i)
        impl.append(f_canon(float(i)) if i != 0 else '0 0 0')
        descs.append('float(%d)' % i)
    compare(ctx, 'binary64', lines, impl, descs, nontriv=False)
    # the model upper-cases ASCII only: no other code point may upper-case to something the power loop looks at
    bad = []
    for c in range(128, 0x110000):
        if 0xD800 <= c <= 0xDFFF:
            continue
        ch = chr(c)
        u = ch.upper()
        if u != ch and any(x in 'EX^-+.,' or x.isdigit() for x in u):
            bad.append('U+%04X' % c)
        elif u == ch and False:
            pass
    ctx.count('numfrac:upper-scan(all code points)', 1)
    if bad:
        ctx.report('correspondence', 'numfrac-upper', 'str.upper() maps %s onto characters _power_number_parse reads; upperAscii is not faithful there' % bad[:5],
                   failing_input={'code_points': bad[:20]})


def unit_decpow(ctx):
    r = ctx.rng('nf-decpow')
    bases = [Decimal(x) for x in (0, 1, -1, 2, -2, 3, 5, 7, 9, 10, -10, 11, 12, 99, 100, 101, 999, 1000, 123456789, 10 ** 15 - 1, 10 ** 15, 10 ** 16 + 1)]
    bases += [Decimal(x) for x in (0.1, 0.5, 1.5, 1.1, 1.2, 2.5, 0.01, 3.14159, 1.0, 100.0, 0.999, 1.0000001, -1.1, -0.5, 1e-5, 12.345, -0.0)]
    bases += [Decimal(s) for s in ('1.0', '1.00', '1.000', '-1.0', '10.0', '0.10', '1E+1', '1E+2', '1E-2', '2E+3', '0E+3', '0E-3', '1.5', '0.333333333333333')]
    exps = [0, 1, 2, 3, 4, 5, 7, 8, 10, 15, 16, 17, 20, 23, 31, 32, 33, 63, 64, 100, 255, 256, 300, -1, -2, -3, -5, -8, -10, -16, -23, -64, -100, -300]
    for _ in range(200 if ctx.thorough else 40):
        bases.append(Decimal(r.randint(-10 ** 6, 10 ** 6)) / Decimal(10 ** r.randint(0, 6)))
        bases.append(Decimal(math.ldexp(r.random(), r.randint(-10, 10))))
        exps.append(r.randint(-200, 200))
    lines, impl, descs = [], [], []
    eforms = [Decimal(e) for e in exps] + [Decimal('2.0'), Decimal('30E-1'), Decimal('1E+1'), Decimal('-2.00'), Decimal('0.5'), Decimal('1.5'), Decimal('0E+2')]
    for a in bases:
        for b in eforms:
            if abs(b) > 64 and r.random() < 0.6:
                continue
            for p in (15, 28):
                lines.append('nf.decpow\t%d\t%s\t%s' % (p, dec_triple(a).replace(' ', '\t'), dec_triple(b).replace(' ', '\t')))
                descs.append('Context(prec=%d).power(%r, %r)' % (p, a, b))
                if b != b.to_integral_value():
                    impl.append('err:Unsupported')
                    continue
                try:
                    impl.append(show_dec(Context(prec=p, rounding=ROUND_HALF_EVEN).power(a, b)))
                except Exception as e:
                    impl.append(err_kind(e))
    compare(ctx, 'decimal-power', lines, impl, descs)


def unit_tokens(ctx, phrases):
    st = setup()
    for cu in UNIT_CULTURES + EXTRA_CULTURES:
        parser = st['parsers'][cu]['NUMBER']
        cases = gen_tok_cases(ctx, cu, parser, phrases.get(cu, []))
        lines = ['nf.tok\t%s\t%s' % (cps(cu), cps(s)) for s in cases]
        impl = [lst([m.group().lower() for m in st['regex'].finditer(parser.text_number_regex, s)]) for s in cases]
        compare(ctx, 'tokens', lines, impl, ['text_number_regex[%s].finditer(%r)' % (cu, s) for s in cases], nontriv=False)


def unit_normalize(ctx, frac_cases):
    st = setup()
    for cu in UNIT_CULTURES:
        cfg = st['parsers'][cu]['NUMBER'].config
        r = ctx.rng('nf-norm', cu)
        tl = [t.lower().split() for t, _ in frac_cases[cu]]
        keys = list(cfg.ordinal_number_map)[:40] + list(cfg.cardinal_number_map)[:40]
        for _ in range(400 if ctx.thorough else 100):
            tl.append([r.choice(keys + ['-', cfg.word_separator_token, 'x-y', 'a-b-c', '-', 's', 'ss', 'avos', 'onceavos', 'doceava',
                                        'medio', 'demi', 'un', 'y', 'et', keys[0] + '-' + keys[1], keys[41] + '-' + keys[2]])
                       for _ in range(r.randint(0, 6))])
        tl = [list(x) for x in dict.fromkeys(tuple(t) for t in tl)]
        lines = ['nf.norm\t%s\t%s' % (cps(cu), lst(t)) for t in tl]
        impl = []
        for t in tl:
            try:
                impl.append(lst(cfg.normalize_token_set(list(t), None)))
            except Exception as e:
                impl.append(err_kind(e))
        compare(ctx, 'normalize', lines, impl, ['normalize_token_set[%s](%r)' % (cu, t) for t in tl], nontriv=False)


def unit_point(ctx):
    st = setup()
    for cu in UNIT_CULTURES:
        parser = st['parsers'][cu]['NUMBER']
        cfg = parser.config
        r = ctx.rng('nf-pv', cu)
        digits = [k for k, v in cfg.cardinal_number_map.items() if v < 10]
        # (values stay below 10^15: __get_int_value's int x Decimal products are modelled as naturals, see corr/c04.py)
        others = [k for k, v in cfg.cardinal_number_map.items() if 10 <= v <= 1000][:30] + \
            [k for k, v in cfg.round_number_map.items() if v <= 1000][:4] + ['x', '-', '5', cfg.word_separator_token] + \
            list(cfg.ordinal_number_map)[:5]
        tl = [[], [digits[0]], [others[0]], [others[0], digits[2]], [digits[1]] * 15, [digits[3]] * 16, [digits[2]] * 17, [digits[-1]] * 15, [digits[-1]] * 16]
        for _ in range(400 if ctx.thorough else 120):
            n = r.randint(1, 17)
            if r.random() < 0.7:
                tl.append([r.choice(digits) for _ in range(n)])
            else:
                tl.append([r.choice(digits + others) for _ in range(min(n, 5))])
        lines = ['nf.pv\t%s\t15\t%s' % (cps(cu), lst(t)) for t in tl]
        f = getattr(parser, '_BaseNumberParser__get_point_value')
        impl = []
        for t in tl:
            v = under15(lambda: f(list(t)))
            impl.append(err_kind(v) if isinstance(v, Exception) else show_dec(v))
        compare(ctx, 'point-value', lines, impl, ['__get_point_value[%s](%r)' % (cu, t) for t in tl])


def unit_branches(ctx, cases):
    """the four branch functions called directly"""
    st = setup()
    for cu in UNIT_CULTURES + EXTRA_CULTURES:
        parser = st['parsers'][cu]['NUMBER']
        for family, meth, op in (('digit', '_digit_number_parse', 'nf.digit'), ('text', '_text_number_parse', 'nf.text'),
                                 ('pow', '_power_number_parse', 'nf.pow'), ('frac', '_frac_like_number_parse', 'nf.frac')):
            if family == 'frac' and cu in EXTRA_CULTURES:
                continue
            lines, impl, descs = [], [], []
            for text, tag in cases[family].get(cu, []):
                a = aux_of(parser, text)
                if a['neglen'] is not None:
                    continue        # the sign prefix belongs to `parse`
                if family == 'digit':
                    lines.append('%s\t%s\t15\t%s\t%s' % (op, cps(cu), cps(a['low']), lst(a['matches'])))
                elif family == 'text':
                    lines.append('%s\t%s\t15\t%s' % (op, cps(cu), cps(a['half'])))
                elif family == 'pow':
                    lines.append('%s\t%s\t%d\t15\t%s' % (op, cps(cu), variant_of_tree(), cps(text)))
                else:
                    lines.append('%s\t%s\t15\t%s\t%s' % (op, cps(cu), cps(a['low']), a['rm']))
                v = under15(lambda: getattr(parser, meth)(mk_er(text, tag)).value)
                if isinstance(v, Exception):
                    impl.append(err_kind(v))
                else:
                    impl.append(show_value(v) if family == 'frac' else show_dec(v))
                descs.append('%s[%s](%r)' % (meth, cu, text))
            if lines:
                compare(ctx, family, lines, impl, descs)


PARSER_FOR_TAG = [('IntegerNum', 'builtin.num.integer', ['NUMBER', 'INTEGER', 'CARDINAL', 'DOUBLE']),
                  ('DoubleNum', 'builtin.num.double', ['NUMBER', 'DOUBLE', 'CARDINAL', 'FRACTION']),
                  ('FracNum', 'builtin.num.fraction', ['NUMBER', 'FRACTION', 'INTEGER']),
                  ('Frac', 'builtin.num.fraction', ['NUMBER', 'FRACTION', 'ORDINAL']),
                  ('DoublePow', 'builtin.num.double', ['NUMBER', 'DOUBLE', 'CARDINAL']),
                  ('Double', 'builtin.num.double', ['NUMBER', 'DOUBLE', 'INTEGER']),
                  ('Integer', 'builtin.num.integer', ['NUMBER', 'INTEGER', 'CARDINAL'])]


def parse_line(cu, kind, parser, typ, data, text):
    a = aux_of(parser, text)
    return 'nf.parse\t%s\t%d\t15\t%s\t%s\t%s\t%s\t%s\t%s\t%s\t%s\t%s\t%s' % (
        cps(cu), variant_of_tree(), kind, lst(parser.supported_types), cps(typ), 'none' if data is None else cps(data), cps(text),
        'none' if a['neglen'] is None else str(a['neglen']), cps(a['low']), cps(a['half']), lst(a['matches']), a['rm'])


def show_parse(res):
    if isinstance(res, Exception):
        return err_kind(res)
    if res is None:
        return 'none'
    v = show_value(res.value)
    if v.startswith('err'):
        return v
    return v + '|' + cps(res.resolution_str or '')


def unit_parse(ctx, cases, extracted):
    st = setup()
    neg_prefix = {'en-us': ['minus ', 'negative ', 'Minus  '], 'es-es': ['menos '], 'fr-fr': ['moins ', '. '], 'de-de': ['minus ']}
    for cu in UNIT_CULTURES + EXTRA_CULTURES:
        lines, impl, descs = [], [], []
        r = ctx.rng('nf-parse', cu)
        todo = []       # (parser type, er type, data, text)
        for family in ('digit', 'text', 'pow', 'frac'):
            if family == 'frac' and cu in EXTRA_CULTURES:
                continue
            cs = cases[family].get(cu, [])
            step = 1 if ctx.thorough else max(1, len(cs) // 500)
            for i, (text, tag) in enumerate(cs):
                if i % step:
                    continue
                row = next(x for x in PARSER_FOR_TAG if tag.startswith(x[0]))
                pts = row[2] if i % 9 == 0 else row[2][:1]
                for pt in pts:
                    todo.append((pt, row[1], tag, text))
                if i % 11 == 0:
                    todo.append(('NUMBER', row[1], tag, r.choice(neg_prefix[cu]) + text))
                if i % 17 == 0:
                    todo.append(('NUMBER', row[1], None, text))        # no tag: 'Num' if a digit occurs, else the language
                    todo.append(('NUMBER', row[1], '', text))
                if i % 13 == 0:
                    todo.append(('PERCENTAGE', 'builtin.num.percentage', ('pct', tag), text))
        for (typ, tag, text) in extracted.get(cu, []):
            todo.append(('NUMBER', typ, tag, text))
        todo.append(('NUMBER', 'builtin.num', 'Ordinal', 'third'))
        todo.append(('NUMBER', 'builtin.num', 'xyz', 'third'))
        for pt, typ, data, text in todo:
            parser = st['parsers'][cu][pt]
            if isinstance(data, tuple):
                tag = data[1]
                inner = mk_er(text, tag, 'builtin.num')
                er = mk_er(text + ' %', [text, inner], typ)
                lines.append(parse_line(cu, 'pct', parser, typ, tag, text))
                descs.append('BasePercentageParser[%s].parse(text=%r, data=[%r, <%s>])' % (cu, text + ' %', text, tag))
            else:
                er = mk_er(text, data, typ)
                lines.append(parse_line(cu, 'num', parser, typ, data, text))
                descs.append('get_parser(%s)[%s].parse(text=%r, data=%r, type=%r)' % (pt, cu, text, data, typ))
            res = under15(lambda: parser.parse(er))
            impl.append(show_parse(res))
        compare(ctx, 'parse', lines, impl, descs)


def extractor_results(ctx, phrases):
    """ExtractResults as the culture's extractor builds them for the generated phrases: (type, data tag, text)"""
    st = setup()
    out = {}
    for cu in UNIT_CULTURES:
        ex = st['models'][cu]['number'].extractor
        rows = []
        for q in phrases[cu]:
            try:
                ers = ex.extract(q)
            except Exception:
                continue
            for er in ers:
                if isinstance(er.data, str):
                    rows.append((er.type, er.data, er.text))
        out[cu] = list(dict.fromkeys(rows))
        ctx.count('numfrac:extractor-results', len(out[cu]))
    return out


def unit(ctx):
    setup()
    ctx.extra['numfrac_power_variant'] = 'X10^ -> E (repaired)' if variant_of_tree() else 'as first found (x10^ under the caret rule)'
    cases = {'digit': {}, 'text': {}, 'pow': {}, 'frac': {}}
    for cu in UNIT_CULTURES + EXTRA_CULTURES:
        cases['digit'][cu] = gen_digit_cases(ctx, cu)
        cases['pow'][cu] = gen_pow_cases(ctx, cu)
        cases['text'][cu] = gen_text_cases(ctx, cu)
        if cu in UNIT_CULTURES:
            cases['frac'][cu] = gen_frac_cases(ctx, cu)
    phrases = {cu: [t for fam in cases for (t, _) in cases[fam].get(cu, [])] for cu in UNIT_CULTURES + EXTRA_CULTURES}
    unit_float(ctx)
    unit_decpow(ctx)
    unit_tokens(ctx, {cu: [t for fam in ('text', 'frac') for (t, _) in cases[fam].get(cu, [])] for cu in phrases})
    unit_normalize(ctx, cases['frac'])
    unit_point(ctx)
    unit_branches(ctx, cases)
    sel = {cu: (ps if ctx.thorough else ps[::5]) for cu, ps in phrases.items() if cu in UNIT_CULTURES}
    unit_parse(ctx, cases, extractor_results(ctx, sel))
    return cases


# ------------------------------------------------------------------------------------------------ pipeline

CARRIER = {'en-us': 'the ratio was %s overall', 'es-es': 'el total fue %s ayer', 'fr-fr': 'le total était %s hier'}

# Surface forms demanded (a committed contract, never read from the tree at run time): the multiplier letters of
# BaseNumbers.NumberMultiplierRegex and the round words of each culture's RoundNumberIntegerRegex; `e` / `^` / `x10^`
# (English) exponent notations; `a/b` and `w a/b`; English spelled fractions and "point" decimals.
PIPE_SUFFIX = {
    'en-us': [('k', 3), ('K', 3), ('M', 6), ('MM', 6), ('mil', 6), ('G', 9), ('B', 9), ('b', 9), (' k', 3), (' hundred', 2),
              (' thousand', 3), (' million', 6), (' billion', 9), (' trillion', 12), (' lakh', 5), (' crore', 7)],
    'es-es': [('k', 3), ('M', 6), ('G', 9), (' mil', 3), (' millones', 6)],
    'fr-fr': [('k', 3), ('M', 6), ('G', 9), (' mille', 3), (' millions', 6), (' milliards', 9)],
}
# not demanded: `T` (in NumberMultiplierRegex, but the query is lower-cased except for BaseNumbers.CaseSensitiveTerms, which
# does not list it, and `t` is not a multiplier outside currency mode)


def sig_digits_fraction(fr):
    """number of significant digits of a terminating decimal, or None"""
    d = fr.denominator
    k = 0
    while d % 10 == 0:
        d //= 10
        k += 1
    a = b = 0
    while d % 2 == 0:
        d //= 2
        a += 1
    while d % 5 == 0:
        d //= 5
        b += 1
    if d != 1:
        return None
    n = abs(fr.numerator) * (5 ** a) * (2 ** b)
    return len(str(n).rstrip('0')) if n else 1


def read_value(cu, s):
    g, d = MARKS[cu]
    if s is None:
        return None, 'no value'
    body = s
    if d != '.':
        if '.' in body.split('E')[0] and not body.split('E')[0].endswith('.'):
            return None, "decimal mark '.' instead of %r" % d
        body = body.replace(d, '.')
    elif ',' in body:
        return None, 'grouping mark in the value'
    try:
        v = Decimal(body)
    except InvalidOperation:
        return None, 'value %r is not a number' % s
    if not v.is_finite():
        return None, 'value %r is not finite' % s
    return Fraction(v), None


def value_close(got, want):
    sd = sig_digits_fraction(want)
    if sd is not None and sd <= 15:
        return got == want
    if want == 0:
        return got == 0
    return abs(got - want) <= abs(want) * Fraction(1, 10 ** 14)


def pipe_cases(ctx):
    """(culture, family, expression, exact value)"""
    r = ctx.rng('nf-pipe')
    out = []
    lits = [('2', None), ('5', None), ('12', None), ('100', None), ('999', None), ('1', '5'), ('0', '5'), ('2', '75'), ('12', '345'), ('3', '2'),
            ('1', '05'), ('123', None), ('7', '25')]
    for _ in range(30 if ctx.thorough else 6):
        lits.append((str(r.randint(1, 10 ** r.randint(1, 6))), None if r.random() < 0.5 else str(r.randint(1, 999))))
    for cu in UNIT_CULTURES:
        for ip, fp in lits:
            for suf, k in PIPE_SUFFIX[cu]:
                if suf.startswith(' ') and cu != 'en-us' and fp is not None:
                    continue
                for neg in (False, True):
                    v = lit_value(ip, fp) * 10 ** k
                    # an integer followed by a round *word* has no signed form in any culture's definitions
                    # (RoundNumberIntegerRegexWithLocks has no sign alternative): not demanded
                    fam = 'suffix-undemanded' if (neg and suf.startswith(' ') and suf != ' k' and fp is None) else 'suffix'
                    out.append((cu, fam, ('-' if neg else '') + lit_text(cu, ip, fp) + suf, -v if neg else v))
        # numeric fractions
        pairs = [(1, 2), (2, 3), (3, 4), (1, 3), (5, 8), (7, 9), (22, 7), (355, 113), (1, 1000), (99, 100), (1, 7), (123, 456), (10, 4), (9, 3)]
        for _ in range(40 if ctx.thorough else 8):
            pairs.append((r.randint(1, 10 ** r.randint(1, 5)), r.randint(1, 10 ** r.randint(1, 5))))
        for a, b in pairs:
            out.append((cu, 'fraction', '%d/%d' % (a, b), Fraction(a, b)))
            out.append((cu, 'fraction', '-%d/%d' % (a, b), -Fraction(a, b)))
            if a < b:
                w = r.choice([1, 2, 3, 12, 100, 999])
                out.append((cu, 'mixed', '%d %d/%d' % (w, a, b), w + Fraction(a, b)))
        # powers
        d = MARKS[cu][1]
        for m_ip, m_fp in [('1', None), ('2', None), ('5', None), ('12', None), ('1', '5'), ('1', '2'), ('2', '5'), ('3', '14'), ('9', '99'), ('1', '1'),
                           ('6', '02'), ('1', '25')]:
            mt = m_ip + (d + m_fp if m_fp is not None else '')
            mv = lit_value(m_ip, m_fp)
            for e in [1, 2, 3, 5, 8, 10, 12, -1, -2, -3, -5]:
                out.append((cu, 'pow-e', '%se%d' % (mt, e), mv * Fraction(10) ** e))
                out.append((cu, 'pow-e', '%sE%d' % (mt, e), mv * Fraction(10) ** e))
                if e > 0:
                    out.append((cu, 'pow-e', '%se+%d' % (mt, e), mv * Fraction(10) ** e))
                if abs(e) <= 5:
                    out.append((cu, 'pow-caret', '%s^%d' % (mt, e), mv ** e))
                if cu == 'en-us':
                    out.append((cu, 'pow-x10', '%sx10^%d' % (mt, e), mv * Fraction(10) ** e))
    # English words
    cu = 'en-us'
    for n in [0, 1, 3, 12, 20, 42, 100, 101, 2005, 999999, 10 ** 6] + [r.randint(0, 10 ** 6) for _ in range(20 if ctx.thorough else 5)]:
        for digs in [[1, 4], [0, 5], [5], [0, 0, 1], [9, 9, 9], [1, 2, 3, 4, 5, 6, 7, 8, 9], [2, 5], [5, 0]] + [
                [r.randint(0, 9) for _ in range(r.randint(1, 8))] for _ in range(4)]:
            if len(str(n)) + len(digs) > 15:
                continue
            out.append((cu, 'point', en_card(n) + ' point ' + ' '.join(ONES[x] for x in digs),
                        n + Fraction(int(''.join(map(str, digs))), 10 ** len(digs))))
        for tail, num in (('twenty five', 25), ('ten', 10), ('twelve', 12), ('twenty', 20), ('ninety nine', 99), ('nineteen', 19)):
            out.append((cu, 'point-tens', en_card(n) + ' point ' + tail, n + Fraction(num, 100)))
    for n in [1, 2, 3, 5, 7, 11, 12, 20, 21, 99, 100]:
        for dn in [2, 3, 4, 5, 8, 9, 10, 11, 12, 16, 20, 21, 32, 100, 1000]:
            w = en_denominator(dn, n != 1, hyphen=(dn == 32))
            out.append((cu, 'spelled-seconds' if dn == 32 and n != 1 else 'spelled', en_card(n) + ' ' + w, Fraction(n, dn)))
            if n == 1 and dn not in (8, 11):
                out.append((cu, 'spelled-article', 'a ' + w, Fraction(1, dn)))
            out.append((cu, 'spelled-over', en_card(n) + ' over ' + en_card(dn), Fraction(n, dn)))
            if n < dn:
                for whole in (1, 2, 12, 100, 103):
                    fam = 'spelled-mixed-roundth' if dn in (100, 1000) else 'spelled-seconds' if dn == 32 else 'spelled-mixed'
                    out.append((cu, fam, en_card(whole) + ' and ' + en_card(n) + ' ' + w, whole + Fraction(n, dn)))
    for whole in (1, 2, 5, 12, 20):
        out.append((cu, 'spelled-mixed', en_card(whole) + ' and a half', whole + Fraction(1, 2)))
        out.append((cu, 'spelled-mixed', en_card(whole) + ' and a quarter', whole + Fraction(1, 4)))
        for mult, k in (('million', 6), ('billion', 9)):
            out.append((cu, 'spelled-multiplier', en_card(whole) + ' and a half ' + mult, (whole + Fraction(1, 2)) * 10 ** k))
    for mult, k in (('million', 6), ('billion', 9)):
        out.append((cu, 'spelled-multiplier', 'half a ' + mult, Fraction(1, 2) * 10 ** k))
    for n, dn in [(1, 2), (3, 5), (2, 3), (3, 4)]:
        for mult, k in (('million', 6), ('billion', 9), ('thousand', 3)):
            out.append((cu, 'spelled-multiplier', en_card(n) + ' ' + en_denominator(dn, n != 1) + ' of a ' + mult, Fraction(n, dn) * 10 ** k))
    return list(dict.fromkeys(out))


def _recognize(job):
    cu, q = job
    st = setup()
    try:
        res = st['rn'].recognize_number(q, cu)
        return [(x.start, x.end, x.text, (x.resolution or {}).get('value')) for x in res]
    except Exception as e:
        return 'raise:%s' % type(e).__name__


def run_jobs(jobs):
    import multiprocessing
    import os
    if len(jobs) < 300:
        return [_recognize(j) for j in jobs]
    setup()
    with multiprocessing.get_context('fork').Pool(min(16, os.cpu_count() or 4)) as pool:
        return pool.map(_recognize, jobs, chunksize=64)


def pipeline(ctx):
    cases = pipe_cases(ctx)
    jobs, meta = [], []
    for cu, fam, expr, want in cases:
        for carrier in (False, True):
            q = CARRIER[cu] % expr if carrier else expr
            jobs.append((cu, q))
            meta.append((cu, fam, expr, want, q, q.index(expr)))
    results = run_jobs(jobs)
    undemanded = {}
    per_sig = {}
    for (cu, fam, expr, want, q, off), res in zip(meta, results):
        ctx.count('numfrac:pipeline-' + fam)
        bad = detail = None
        if isinstance(res, str):
            bad, detail = 'raises', res
        elif len(res) == 0:
            bad, detail = 'no-entity', 'nothing recognised'
        elif len(res) > 1:
            bad, detail = 'split', 'recognised as %d entities: %r' % (len(res), [(t, v) for _, _, t, v in res])
        else:
            stt, en, t, v = res[0]
            ctx.nontriv(('nf-pipe', cu, q))
            if stt != off or en != off + len(expr) - 1:
                bad, detail = 'span', 'span [%d,%d] text %r, expression at [%d,%d]' % (stt, en, t, off, off + len(expr) - 1)
            else:
                got, prob = read_value(cu, v)
                if prob:
                    bad, detail = 'value', prob
                elif not value_close(got, want):
                    bad, detail = 'value', 'value %r denotes %s, the expression denotes %s' % (v, float(got), float(want))
        if fam.endswith('-undemanded'):
            k = '%s:%s:%s' % (cu, fam, bad or 'ok')
            undemanded[k] = undemanded.get(k, 0) + 1
            continue
        if not bad:
            ctx.passed('%s|%s' % (cu, q))          # stale when a committed failing set lists it
        if bad:
            sig = 'numfrac:%s:%s:%s' % (cu, fam, bad)
            per_sig[sig] = per_sig.get(sig, 0) + 1
            # a frequent failure must not crowd out the other signatures (vcheck caps the list); recorded ones never capped
            if per_sig[sig] > 4 and not ctx.is_known(sig, '%s|%s' % (cu, q)):
                continue
            ctx.report('property', sig, 'recognize_number(%r, %s): %s' % (q, cu, detail),
                       failing_input={'culture': cu, 'query': q, 'expression': expr, 'family': fam, 'result': res,
                                      'expected_value': str(want)}, property_fails=True)
    ctx.sample({'query': meta[0][4], 'culture': meta[0][0], 'result': results[0]})
    ctx.extra['numfrac_not_demanded_forms'] = undemanded
    ctx.extra['numfrac_failures_by_signature'] = per_sig


def run(ctx):
    unit(ctx)
    pipeline(ctx)
