"""Worker of the C02 check: evaluates a pool of (function, query, culture, options, reference) tuples through the
public `recognize_*` functions of the working tree and prints the canonical JSON of every answer.

Run as a fresh process (`python -m lib.c02worker`, job on stdin as JSON) or imported (`run_job`).
job = {'pool': [[fn, query, culture, options, reference_iso|None], ...],
       'mode': 'seq' | 'threads' | 'fresh_thread' | 'prec_thread',
       'order': [indices] (seq / fresh_thread),  'threads': N, 'seed': s, 'copies': k (threads), 'prec': p}
result = {'answers': {index: [[where, canonical], ...]}, 'importing_thread_prec': .., 'worker_thread_prec': ..}"""
import datetime
import decimal
import json
import random
import sys
import threading
import time

FUNCS = {}


def load_funcs():
    if FUNCS:
        return FUNCS
    import recognizers_number as rn
    import recognizers_number_with_unit as ru
    import recognizers_date_time as rd
    import recognizers_sequence as rs
    import recognizers_choice as rc
    from recognizers_date_time import DateTimeOptions
    from lib import common
    common.assert_tree_modules(rn, ru, rd, rs, rc)
    for m in (rn, ru, rd, rs, rc):
        for name in dir(m):
            if name.startswith('recognize_'):
                FUNCS[name] = getattr(m, name)
    FUNCS['__DateTimeOptions'] = DateTimeOptions
    return FUNCS


def canonical(results):
    out = []
    for r in results:
        out.append({'text': r.text, 'start': r.start, 'end': r.end, 'type_name': r.type_name,
                    'resolution': r.resolution})
    return json.dumps(out, sort_keys=True, ensure_ascii=False, default=str)


def evaluate(t):
    fn, query, culture, options, ref = t
    F = load_funcs()
    try:
        if fn == 'recognize_datetime':
            reference = datetime.datetime.fromisoformat(ref) if ref else None
            if reference is None:
                raise RuntimeError('date-time tuple without reference')
            return canonical(F[fn](query, culture, F['__DateTimeOptions'](options), reference))
        if options:
            raise RuntimeError('options only for date-time')
        return canonical(F[fn](query, culture))
    except Exception as e:  # noqa
        return 'EXC:%s:%s' % (type(e).__name__, e)


def run_job(job):
    pool = job['pool']
    mode = job['mode']
    answers = {}
    t_start = time.time()
    info = {'importing_thread_prec': decimal.getcontext().prec}

    def put(i, where, val):
        answers.setdefault(str(i), []).append([where, val])

    if mode == 'seq':
        load_funcs()
        info['importing_thread_prec'] = decimal.getcontext().prec
        for i in job.get('order') or range(len(pool)):
            put(i, 'main', evaluate(pool[i]))
    elif mode in ('fresh_thread', 'prec_thread'):
        load_funcs()
        info['importing_thread_prec'] = decimal.getcontext().prec

        def body():
            if mode == 'prec_thread':
                decimal.getcontext().prec = job['prec']
            info['worker_thread_prec'] = decimal.getcontext().prec
            for i in job.get('order') or range(len(pool)):
                put(i, 'thread', evaluate(pool[i]))
        th = threading.Thread(target=body)
        th.start()
        th.join()
    elif mode == 'threads':
        # cold cache, N threads started together; every tuple is evaluated on `copies` different threads
        n = job['threads']
        r = random.Random(job['seed'])
        assign = [[] for _ in range(n)]
        for i in range(len(pool)):
            for k in r.sample(range(n), min(job.get('copies', 2), n)):
                assign[k].append(i)
        for a in assign:
            r.shuffle(a)
        if job.get('import_first', True):
            load_funcs()        # packages imported on the main thread (the usual server start-up)
        info['importing_thread_prec'] = decimal.getcontext().prec
        sys.setswitchinterval(1e-3)
        lock = threading.Lock()
        barrier = threading.Barrier(n)
        precs = []

        def body(k):
            barrier.wait()
            precs.append(decimal.getcontext().prec)
            for i in assign[k]:
                v = evaluate(pool[i])
                with lock:
                    put(i, 't%d' % k, v)
        ths = [threading.Thread(target=body, args=(k,)) for k in range(n)]
        for t in ths:
            t.start()
        for t in ths:
            t.join()
        info['worker_thread_prec'] = sorted(set(precs))
    else:
        raise RuntimeError('unknown mode ' + mode)
    info['answers'] = answers
    info['wall_s'] = round(time.time() - t_start, 1)
    return info


if __name__ == '__main__':
    import warnings
    warnings.simplefilter('ignore')
    job = json.load(sys.stdin)
    res = run_job(job)
    sys.stdout.write(json.dumps(res, ensure_ascii=False))
