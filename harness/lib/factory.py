"""Shared pieces of the L9 Factory checks (C17, C02): instrumented recogniser classes (every constructor a
recogniser registers is wrapped so that the model it builds carries (kind, type, culture, options) and a global
allocation serial — the code under test, Recognizer.__init__/get_model and ModelFactory.*, is the working
tree's), the wire encoding of operations for the Lean driver, and the property's own reading of a culture
string (independent of both the implementation and the Lean model)."""
import importlib
import itertools

from . import common
from .common import cps

KINDS = [('Number', 'recognizers_number', 'NumberRecognizer'),
         ('NumberWithUnit', 'recognizers_number_with_unit', 'NumberWithUnitRecognizer'),
         ('DateTime', 'recognizers_date_time', 'DateTimeRecognizer'),
         ('Sequence', 'recognizers_sequence', 'SequenceRecognizer'),
         ('Choice', 'recognizers_choice', 'ChoiceRecognizer')]
KIND_NAMES = [k[0] for k in KINDS]

_STATE = {}


def load():
    """Import the working tree's packages once; returns the shared state dict."""
    if _STATE:
        return _STATE
    common.setup_repo_imports()
    import recognizers_text
    common.assert_tree_modules(recognizers_text)
    from recognizers_text import Culture
    from recognizers_text.model import ModelFactory
    real = []
    for name, mod, cls in KINDS:
        m = importlib.import_module(mod)
        common.assert_tree_modules(m)
        real.append(getattr(m, cls))
    counter = itertools.count()
    tagged = []
    for idx, C in enumerate(real):
        def make(idx, C):
            class Tagged(C):
                def register_model(self, t, c, ctor):
                    def wrapped(options, _t=t, _c=c, _ctor=ctor):
                        m = _ctor(options)
                        m._verif_tag = (idx, _t, _c, int(options))
                        m._verif_serial = next(counter)
                        return m
                    super().register_model(t, c, wrapped)
            Tagged.__name__ = 'Tagged' + C.__name__
            return Tagged
        tagged.append(make(idx, C))
    probe = [C(lazy_initialization=False) for C in real]
    regs = [[(k.model_type, k.culture) for k in p.model_factory.model_factories] for p in probe]
    wrappers = []
    for idx, C in enumerate(real):
        for m in sorted(dir(C)):
            if m.startswith('get_') and m.endswith('_model') and m != 'get_model':
                wrappers.append((idx, m))
    _STATE.update(Culture=Culture, ModelFactory=ModelFactory, real=real, tagged=tagged, regs=regs,
                  supported=list(Culture._get_supported_culture_codes()), counter=counter, wrappers=wrappers,
                  culture_objects={getattr(Culture, a): getattr(Culture, a) for a in dir(Culture)
                                   if not a.startswith('_') and isinstance(getattr(Culture, a), str)})
    return _STATE


def cache_dict():
    return load()['ModelFactory']._ModelFactory__cache


def copy_of(s):
    """an equal string that is a different object (so that `is` is False)"""
    return ''.join(list(s))


# ---------------------------------------------------------------- wire encoding

def enc_opt(s):
    return 'none' if s is None else cps(s)


def enc_bool(b):
    return '1' if b else '0'


def op_field(op):
    """op: tuple. Instances are (kind, target, options)."""
    k = op[0]
    if k == 'C':
        _, (kind, target, options), lazy, identical = op
        return 'C|%d|%s|%d|%s|%s' % (kind, enc_opt(target), options, enc_bool(lazy), enc_bool(identical))
    if k == 'G':
        _, (kind, target, options), t, c, fb = op
        return 'G|%d|%s|%d|%s|%s|%s' % (kind, enc_opt(target), options, cps(t), enc_opt(c), enc_bool(fb is True))
    if k == 'W':
        _, (kind, target, options), t, cjk, c, fb = op
        return 'W|%d|%s|%d|%s|%s|%s|%s' % (kind, enc_opt(target), options, cps(t), enc_bool(cjk), enc_opt(c),
                                           enc_bool(fb is True))
    if k == 'F':
        _, kind, t, c, fb, options = op
        return 'F|%d|%s|%s|%s|%d' % (kind, cps(t), enc_opt(c), enc_bool(fb is True), options)
    if k == 'T':
        _, kind, t, c, options = op
        return 'T|%d|%s|%s|%d' % (kind, cps(t), enc_opt(c), options)
    if k == 'I':
        _, (kind, target, options), identical = op
        return 'I|%d|%s|%d|%s' % (kind, enc_opt(target), options, enc_bool(identical))
    raise ValueError(op)


def hist_line(repaired, ops):
    return '\t'.join(['fhist', enc_bool(repaired)] + [op_field(o) for o in ops])


def show_out(x):
    """observed result of one operation -> the driver's output syntax"""
    if isinstance(x, Exception):
        return 'err:ValueError' if type(x) is ValueError else 'err:Other(%s)' % type(x).__name__
    if x is None:
        return 'none'
    if x == 'ok':
        return 'ok'
    tag = getattr(x, '_verif_tag', None)
    if tag is None:
        return 'm:untagged:%s' % type(x).__name__
    return 'm:%d:%s:%s:%d:%d' % (tag[0], cps(tag[1]), cps(tag[2]), tag[3], x._verif_serial)


def parse_out(s):
    """driver syntax -> ('m', kind, type, culture, options, serial) | ('none',) | ('err', kind) | ('ok',)"""
    if s.startswith('m:'):
        p = s.split(':')
        if p[1] == 'untagged':
            return ('m', None, p[2], None, None, None)
        return ('m', int(p[1]), common.uncps(p[2]), common.uncps(p[3]), int(p[4]), int(p[5]))
    if s.startswith('err:'):
        return ('err', s[4:])
    return (s,)


# ---------------------------------------------------------------- the property's reading (independent oracle)

def spec_culture(c, supported):
    """The supported culture a culture string denotes, or None = "any other code": a supported code in any
    letter case; else the only supported culture of the string's language tag."""
    if not c:
        return None
    lc = c.lower()
    if lc in supported:
        return lc
    tag = lc.split('-')[0].strip()
    cands = [s for s in supported if s.split('-')[0] == tag]
    return cands[0] if len(cands) == 1 else None


def spec_answer(regs_of_kind, kind, t, culture_string, fb, options, fallback='en-us'):
    """What the property demands: ('m', kind, type, culture, options) or ('err', 'ValueError')."""
    st = load()
    s = spec_culture(culture_string, st['supported'])
    if s is not None and (t, s) in regs_of_kind:
        return ('m', kind, t, s, options)
    if fb is True and (t, fallback) in regs_of_kind:
        return ('m', kind, t, fallback, options)
    return ('err', 'ValueError')


def current_map(c, supported):
    """what the code as shipped computes (used only to classify a finding, never as an oracle)"""
    if not c:
        return None
    lc = c.lower()
    if lc in supported:
        return lc
    p = lc.split('-')[0].strip()
    cands = [s for s in supported if s.startswith(p)]
    if len(cands) == 1:
        return cands[0]
    for s in cands:
        if '*' in s:
            lc = s
    return lc


# ---------------------------------------------------------------- report ordering

class BalancedReports:
    """Buffers ctx.report calls of a check and forwards them in a deterministic, class-balanced order: first one
    report per distinct (kind, signature) in order of first appearance, then all the others in their original
    order -- so that a report cap downstream can never hide a whole signature class."""

    def __init__(self, ctx):
        self.ctx = ctx
        self.real = ctx.report
        self.items = []

    def __enter__(self):
        self.ctx.report = self.report
        return self

    def report(self, kind, signature, detail, failing_input=None, property_fails=None):
        if not signature:
            raise common.InfraError('report without a signature: %r' % (detail,))
        self.items.append((kind, signature, detail, failing_input, property_fails))

    def __exit__(self, *exc):
        self.ctx.report = self.real
        seen, first, rest = set(), [], []
        for it in self.items:
            key = (it[0], it[1])
            if key in seen:
                rest.append(it)
            else:
                seen.add(key)
                first.append(it)
        for kind, signature, detail, fi, pf in first + rest:
            self.real(kind, signature, detail, failing_input=fi, property_fails=pf)
        return False
