"""The explicit URL grammar of C13 (one source for the pipeline generator, the Lean family and the theorem):

    url     ::= scheme hostpre dom '.' tld tail
    scheme  ::= 'http://' | 'https://' | 'ftp://'
    hostpre ::= '' | 'www.' | 'api.'
    dom     ::= 'example' | 'my-site' | 'a1' | 'sub.example'
    tld     ::= 'com' | 'org' | 'net' | 'cloud' | 'app'            (all in BaseURL.TldList)
    tail    ::= '' | '/' | '/index.html' | '/a/b?c=d&e=1' | ':8080/p' | '#frag'

`product()` is the whole language (1080 strings; the pipeline runs all of it through recognize_url);
`family()` is the covering sub-family the kernel evaluates in RTV/Props/C13.lean (`url_grammar_recognised`): every
(scheme, hostpre, tail) combination, every (dom, tld) combination, every (tld, tail) combination, alone and in carriers."""
import itertools

SCHEMES = ['http://', 'https://', 'ftp://']
HOSTPRE = ['', 'www.', 'api.']
DOMS = ['example', 'my-site', 'a1', 'sub.example']
TLDS = ['com', 'org', 'net', 'cloud', 'app']
TAILS = ['', '/', '/index.html', '/a/b?c=d&e=1', ':8080/p', '#frag']
CARRIERS = ['{}', 'contact {} today', 'see {} , ok', '( {} )', 'a\t{}\nb']


def make(s, h, d, t, tail):
    return s + h + d + '.' + t + tail


def product():
    return [make(*p) for p in itertools.product(SCHEMES, HOSTPRE, DOMS, TLDS, TAILS)]


def family():
    """-> [(query, start, url)] without duplicates, in a fixed order"""
    urls = []
    for s, h, tail in itertools.product(SCHEMES, HOSTPRE, TAILS):
        urls.append(make(s, h, 'example', 'com', tail))
    for d, t in itertools.product(DOMS, TLDS):
        urls.append(make('https://', 'www.', d, t, '/index.html'))
    for t, tail in itertools.product(TLDS, TAILS):
        urls.append(make('http://', '', 'a1', t, tail))
    out, seen = [], set()
    for k, u in enumerate(urls):
        for car in (CARRIERS[0], CARRIERS[1 + k % (len(CARRIERS) - 1)]) if k % 4 == 0 else (CARRIERS[k % len(CARRIERS)],):
            q = car.format(u)
            if q not in seen:
                seen.add(q)
                out.append((q, q.index(u), u))
    return out
