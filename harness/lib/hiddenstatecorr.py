"""C02 hidden-state inventory: run-time cross-check of the static inventory, and the search for a failing history.

The static inventory (harness/translate/hiddenstate.py -> RTV/Gen/HiddenState.lean) and its allow-list
(RTV/Props/C02State.lean, kernel-checked containment) say where state can outlive a recognise call.  This module
  (i)  cross-checks it at run time.  Class- and module-level: every container / number bound in `vars()` of every class
       and module of the seven packages, every `functools` cache wrapper, every default-argument and closure-cell
       container, snapshotted (type, len, hash of an address-free repr) in a FRESH process right after import and in the
       checking process after the five execution disciplines of the C02 pool have run; anything that differs and is not
       a `.modelled` class-level entry of the allow-list (the model cache) is reported.  Instance level: the object graph
       below every cached model (`ModelFactory.__cache` -> model -> extractor / parser / configuration -> ...) is
       snapshotted, a batch of inputs the process has not seen is recognised, and the graph is snapshotted again: a
       container or scalar attribute that changed is state kept across calls.
  (ii) SEARCHES for a concrete failing history when a site is new (static: not on the allow-list; run-time: changed and
       not allowed).  The recognise functions that reach the site are derived from its module; targeted histories (same
       call twice / same text under two cultures of different conventions / same text under two references of one year /
       the same text at another offset of the query /
       another query of the same family first / main thread then worker thread / thread A paused at the k-th traced line of the site's file while thread B
       completes a call / fallback-enabled then fallback-disabled request) over boundary inputs (ambiguous separators
       '1,234' '1.234', numeric dates a/b/y with a, b <= 12, month-day texts on both sides of the stated day, negative
       words, fractions) plus a sample of the C02 pool, each history in its own forked child of a server process that
       has imported the tree and built the models but recognised nothing; every answer is compared with the answer of
       the same call ALONE (its own forked child).  The first histories that differ are reported with
       `property_fails=True`; otherwise the new site is reported without a failing input.
Runs as `python -m lib.hiddenstatecorr snapshot | server` for the two kinds of child."""
import hashlib
import json
import os
import re
import subprocess
import sys
import time

from lib import common

PKGS = ('recognizers_text', 'recognizers_number', 'recognizers_number_with_unit', 'recognizers_date_time',
        'recognizers_sequence', 'recognizers_choice', 'datatypes_timex_expression')
PROPS_FILE = os.path.join(common.LEAN, 'RTV', 'Props', 'C02State.lean')
ALLOW_TABLES = {'allowClass': ('classState', 'classWrites'), 'allowModule': ('moduleState',), 'allowMemo': ('memo',),
                'allowMutation': ('selfMut', 'argMut'), 'allowSettings': ('settings',)}
_SEARCHED = {}


# ------------------------------------------------------------------ the allow-list, as the Props file states it

def load_allow():
    """-> ({list name: [(row, cover)]}, [problems]) parsed from RTV/Props/C02State.lean; every entry's comment text
    must decode from its code points (the kernel sees only the code points)"""
    src = open(PROPS_FILE, encoding='utf-8').read()
    out, problems = {}, []
    for m in re.finditer(r'^def (allow\w+) : List Entry := \[(.*?)\]\n(?=\n|/--|theorem|def )', src, flags=re.S | re.M):
        name, body = m.group(1), m.group(2)
        ents = []
        for e in re.finditer(r'-- (?P<row>[^\n]*)\n\s*--   why: (?P<why>[^\n]*)\n\s*⟨\[(?P<cps>[0-9, ]*)\], \.(?P<cover>\w+)⟩', body):
            decoded = ''.join(chr(int(x)) for x in e.group('cps').split(',') if x.strip())
            if decoded != e.group('row'):
                problems.append('%s: comment %r but code points say %r' % (name, e.group('row'), decoded))
            ents.append((decoded, e.group('cover')))
        n_entries = body.count('⟨')
        if n_entries != len(ents):
            problems.append('%s: %d entries in the file, %d parsed' % (name, n_entries, len(ents)))
        out[name] = ents
    for name in ALLOW_TABLES:
        if name not in out:
            problems.append('allow-list %s not found in %s' % (name, PROPS_FILE))
            out[name] = []
    return out, problems


def static_new_sites(allow):
    """rows of the regenerated inventory that are not on the allow-list -> [(table, row)]"""
    from translate import hiddenstate
    inv = hiddenstate.inventory()
    new = []
    for name, tables in ALLOW_TABLES.items():
        ok = {r for r, _ in allow[name]}
        for t in tables:
            new += [(t, r) for r in inv[t] if r not in ok]
    return new, inv


# ------------------------------------------------------------------ snapshots

_ADDR = re.compile(r' at 0x[0-9a-fA-F]+')


def _digest(v):
    try:
        s = _ADDR.sub('', repr(v))
    except Exception as e:  # noqa
        s = 'unreprable:%s' % type(e).__name__
    return hashlib.sha1(s.encode('utf-8', 'replace')).hexdigest()[:16]


def _is_container(v):
    import collections
    return isinstance(v, (dict, list, set, bytearray, collections.deque))


def _entry(v):
    if _is_container(v):
        return [type(v).__name__, len(v), _digest(v)]
    if isinstance(v, (int, float)) and not isinstance(v, bool):
        return ['number', 0, repr(v)]
    return None


def _demangle(cls, attr):
    p = '_' + cls.lstrip('_') + '__'
    return '__' + attr[len(p):] if attr.startswith(p) else attr


def _function_state(site, f, out):
    import functools
    if isinstance(f, (staticmethod, classmethod)):
        f = f.__func__
    if isinstance(f, property):
        for g in (f.fget, f.fset):
            if g is not None:
                _function_state(site, g, out)
        return
    if isinstance(f, functools._lru_cache_wrapper):
        info = f.cache_info()
        out[site + '<lru_cache>'] = ['lru_cache', info.currsize, '%d/%d' % (info.hits, info.misses)]
        f = getattr(f, '__wrapped__', None)
    if not hasattr(f, '__code__'):
        return
    for i, d in enumerate(getattr(f, '__defaults__', None) or ()):
        if _is_container(d):
            out['%s<default %d>' % (site, i)] = _entry(d)
    for k, d in (getattr(f, '__kwdefaults__', None) or {}).items():
        if _is_container(d):
            out['%s<default %s>' % (site, k)] = _entry(d)
    for i, c in enumerate(getattr(f, '__closure__', None) or ()):
        try:
            v = c.cell_contents
        except ValueError:
            continue
        if _is_container(v):
            out['%s<closure %s>' % (site, f.__code__.co_freevars[i])] = _entry(v)
        elif hasattr(v, '__code__') and v is not f:
            pass
    for k, v in (getattr(f, '__dict__', None) or {}).items():
        if _is_container(v):
            out['%s<attribute %s>' % (site, k)] = _entry(v)


def class_module_snapshot():
    """{site: [type, len, digest]} over vars() of every module and class of the seven packages"""
    out = {}
    mods = [(n, m) for n, m in sorted(sys.modules.items())
            if m is not None and n.split('.')[0] in PKGS and hasattr(m, '__dict__')]
    for n, m in mods:
        for name, v in list(vars(m).items()):
            if name.startswith('__') and name.endswith('__'):
                continue
            e = _entry(v)
            if e is not None:
                out['%s:%s' % (n, name)] = e
            elif isinstance(v, type) and getattr(v, '__module__', None) == n:
                _class_snapshot(n, v, v.__qualname__, out)
            elif callable(v) and getattr(v, '__module__', None) == n:
                _function_state('%s:%s' % (n, name), v, out)
    return out


def _class_snapshot(modname, cls, qual, out):
    for attr, v in list(vars(cls).items()):
        if attr.startswith('_verif') or attr.startswith('_abc_') or attr in ('__dict__', '__weakref__', '__doc__', '__module__',
                                                                              '__annotations__', '__slots__', '__parameters__',
                                                                              '__orig_bases__', '__abstractmethods__'):
            continue
        if attr.startswith('__') and attr.endswith('__') and not (callable(v) or isinstance(v, (staticmethod, classmethod))):
            continue
        site = '%s:%s.%s' % (modname, qual, _demangle(cls.__name__, attr))
        e = _entry(v)
        if e is not None:
            if e[0] == 'number' and isinstance(v, int) and hasattr(cls, '__members__'):
                continue
            out[site] = e
        elif isinstance(v, type) and getattr(v, '__module__', None) == modname:
            _class_snapshot(modname, v, qual + '.' + v.__name__, out)
        elif callable(v) or isinstance(v, (staticmethod, classmethod, property)):
            _function_state(site, v, out)


def graph_snapshot(limit=600000):
    """{path: digest} of every container / scalar attribute of every object of the tree reachable from the cached models"""
    from recognizers_text.model import ModelFactory
    cache = ModelFactory._ModelFactory__cache
    out, seen = {}, set()
    stack = []
    for k, model in list(cache.items()):
        label = '%s(%s,%s)' % (getattr(k, 'model_type', type(model).__name__), getattr(k, 'culture', '?'),
                                int(getattr(k, 'options', 0) or 0))
        stack.append((label, model))
    n = 0
    while stack and n < limit:
        path, obj = stack.pop()
        if id(obj) in seen:
            continue
        seen.add(id(obj))
        n += 1
        d = getattr(obj, '__dict__', None)
        if not isinstance(d, dict):
            continue
        for a, v in list(d.items()):
            if a.startswith('_verif'):
                continue
            p = path + '.' + _demangle(type(obj).__name__, a)
            _visit(p, v, out, stack, seen)
    return out, n


def _tree_instance(v):
    t = type(v)
    return (getattr(t, '__module__', '') or '').split('.')[0] in PKGS and not isinstance(v, type) and hasattr(v, '__dict__')


def _visit(p, v, out, stack, seen):
    if _tree_instance(v):
        stack.append((p, v))
    elif _is_container(v):
        out[p] = '%s/%d/%s' % (type(v).__name__, len(v), _digest(v))
        if id(v) in seen:
            return
        seen.add(id(v))
        items = v.items() if isinstance(v, dict) else enumerate(v) if isinstance(v, (list, tuple)) else ()
        for k, x in items:
            if _tree_instance(x):
                stack.append(('%s[%s]' % (p, repr(k)[:24]), x))
            elif _is_container(x) or isinstance(x, tuple):
                _visit('%s[%s]' % (p, repr(k)[:24]), x, out, stack, seen)
    elif isinstance(v, tuple):
        for k, x in enumerate(v):
            if _tree_instance(x):
                stack.append(('%s[%d]' % (p, k), x))
            elif _is_container(x):
                _visit('%s[%d]' % (p, k), x, out, stack, seen)
    elif v is None or isinstance(v, (int, float, str, bool)):
        out[p] = 'scalar/' + _digest(v)


# ------------------------------------------------------------------ inputs of the targeted histories

REF = '2016-11-07T00:00:00'
SEP_TEXTS = ['1,234', '1.234', '12,345', '999.999', '-1,234', '1,234.5', '1.234,5', '3,5', '3.5']
NUM_CULTURES = ['en-us', 'es-es', 'fr-fr', 'pt-br', 'de-de', 'it-it', 'nl-nl', 'es-mx', 'zh-cn', 'ja-jp']
NEG_WORDS = [('minus five', 'en-us'), ('negative two point five', 'en-us'), ('minus three hundred and twenty', 'en-us'),
             ('min vijf', 'nl-nl'), ('meno cinque', 'it-it'), ('menos cinco', 'es-es'), ('moins cinq', 'fr-fr'), ('负五', 'zh-cn')]
FRACTIONS = [('one third', 'en-us'), ('三分之一', 'zh-cn'), ('2/3', 'en-us'), ('one point five', 'en-us'), ('1/7', 'en-us'),
             ('un tercio', 'es-es')]
NUMERIC_DATES = ['5/12/2010', '12/5/2010', '3-4-2015', '1/2/2003', '07/08/2019']
DT_CULTURES = ['en-us', 'es-es', 'fr-fr', 'pt-br', 'de-de', 'it-it']
MONTH_DAY = [('March 5', 'en-us'), ('5 March', 'en-us'), ('3/5', 'en-us'), ('feb 29', 'en-us'), ('5th of March', 'en-us'),
             ('5 de marzo', 'es-es'), ('5 mars', 'fr-fr'), ('5. März', 'de-de'), ('3月5日', 'zh-cn'), ('monday', 'en-us'),
             ('next friday', 'en-us'), ('tomorrow', 'en-us')]
REF_PAIRS = [('2021-01-02T00:00:00', '2021-12-30T00:00:00'), ('2021-03-04T00:00:00', '2021-03-05T00:00:00'),
             ('2020-01-15T00:00:00', '2020-03-15T00:00:00'), ('2021-03-05T00:00:00', '2021-03-06T00:00:00')]
UNIT_TEXTS = [('recognize_currency', '1,234 dollars'), ('recognize_currency', '1.234 euros'),
              ('recognize_dimension', '1,234 km'), ('recognize_dimension', '1.234 km'),
              ('recognize_temperature', '1,5 degrees celsius'), ('recognize_age', '1,5 years old'),
              ('recognize_currency', '1 dollar and 14 cents')]
UNIT_CULTURES = ['en-us', 'es-es', 'fr-fr', 'pt-br', 'de-de']
SEQ_CALLS = [('recognize_phone_number', 'call 1 (877) 609-2233 now', 'en-us'), ('recognize_ip_address', '8.8.8.8 and ::1', 'en-us'),
             ('recognize_url', 'see https://example.com/a?b=1', 'en-us'), ('recognize_email', 'mail a.b@example.org', 'en-us'),
             ('recognize_mention', '@alice hi', 'en-us'), ('recognize_hashtag', '#tag yes', 'en-us'),
             ('recognize_guid', '123e4567-e89b-12d3-a456-426614174000', 'en-us'),
             ('recognize_phone_number', '电话 13012345678', 'zh-cn')]
CHOICE_CALLS = [('recognize_boolean', 'yes', 'en-us'), ('recognize_boolean', 'no way', 'en-us'), ('recognize_boolean', '好的', 'zh-cn'),
                ('recognize_boolean', 'nobody said no', 'en-us'), ('recognize_boolean', 'yes or no', 'en-us'),
                ('recognize_boolean', 'not ok not sure', 'en-us'), ('recognize_boolean', '👍 ok', 'en-us')]
FAMILIES = {'number': ('recognize_number', 'recognize_ordinal', 'recognize_percentage'),
            'unit': ('recognize_age', 'recognize_currency', 'recognize_dimension', 'recognize_temperature'),
            'datetime': ('recognize_datetime',),
            'sequence': ('recognize_phone_number', 'recognize_ip_address', 'recognize_mention', 'recognize_hashtag',
                         'recognize_email', 'recognize_url', 'recognize_guid'),
            'choice': ('recognize_boolean',)}
REACH = {'recognizers_text': ['number', 'datetime', 'unit', 'sequence', 'choice'],
         'recognizers_number': ['number', 'unit', 'datetime'],
         'recognizers_number_with_unit': ['unit', 'datetime'],
         'recognizers_date_time': ['datetime'],
         'recognizers_sequence': ['sequence'],
         'recognizers_choice': ['choice'],
         'datatypes_timex_expression': []}


def call(fn, q, c, ref=None, options=0, fallback=None):
    return [fn, q, c, options, ref, fallback]


def family_calls(fam, pool):
    """boundary calls of one family + a sample of the C02 pool -> (calls, {text-key: [calls of the same text]})"""
    calls = []
    if fam == 'number':
        for c in NUM_CULTURES:
            for t in SEP_TEXTS:
                calls.append(call('recognize_number', t, c))
                calls.append(call('recognize_percentage', t + '%', c))
        for t, c in NEG_WORDS + FRACTIONS:
            calls.append(call('recognize_number', t, c))
        calls += [call('recognize_ordinal', 'the third and 21st', 'en-us'), call('recognize_percentage', '百分之三十三', 'zh-cn')]
    elif fam == 'unit':
        for c in UNIT_CULTURES:
            for fn, t in UNIT_TEXTS:
                calls.append(call(fn, t, c))
        calls += [call('recognize_currency', 'two point five dollars', 'en-us'), call('recognize_dimension', 'minus five miles', 'en-us')]
    elif fam == 'datetime':
        for c in DT_CULTURES:
            for t in NUMERIC_DATES:
                calls.append(call('recognize_datetime', t, c, REF))
        for t, c in MONTH_DAY:
            for r1, r2 in REF_PAIRS:
                calls.append(call('recognize_datetime', t, c, r1))
                calls.append(call('recognize_datetime', t, c, r2))
        calls += [call('recognize_datetime', 'in one point five hours', 'en-us', REF),
                  call('recognize_datetime', 'minus five days ago', 'en-us', REF), call('recognize_datetime', '1,234 days', 'en-us', REF),
                  call('recognize_datetime', '1.234 días', 'es-es', REF)]
    elif fam == 'sequence':
        calls += [call(*t) for t in SEQ_CALLS]
    elif fam == 'choice':
        calls += [call(*t) for t in CHOICE_CALLS]
    # sample of the C02 pool (cultures of the quick tier only: model construction dominates)
    quick = ('en-us', 'zh-cn', 'es-es', 'fr-fr', 'de-de', 'pt-br')
    n = 0
    for t in pool or []:
        if t[0] in FAMILIES[fam] and t[2].lower() in quick and (t[0] != 'recognize_datetime' or t[2].lower() in ('en-us', 'zh-cn')):
            calls.append(call(t[0], t[1], t[2].lower(), t[4], t[3]))
            n += 1
            if n >= 30:
                break
    seen, out = set(), []
    for c in calls:
        k = json.dumps(c, ensure_ascii=False)
        if k not in seen:
            seen.add(k)
            out.append(c)
    return out


GROUP_B = ['es-es', 'fr-fr', 'pt-br', 'de-de', 'it-it', 'nl-nl']     # '.' groups thousands, ',' is the decimal mark
CULTURE_PAIRS = [('en-us', c) for c in GROUP_B] + [('es-mx', 'es-es'), ('en-us', 'zh-cn'), ('en-us', 'ja-jp')]


def build_histories(fam, phase, pool, site_files):
    """histories of one family and one phase ('sequential' | 'threads');
    history = {'kind', 'calls': [call], 'where': ['main' | 'worker', ...], 'k': int}"""
    hs = []
    calls = family_calls(fam, pool)
    by_text = {}
    for c in calls:
        by_text.setdefault((c[0], c[1], c[4]), {}).setdefault(c[2], c)
    sens = [c for c in calls if (c[1], c[2]) in set(FRACTIONS + NEG_WORDS) or
            (c[1] in ('1,234', '1.234', '5/12/2010', 'March 5', '1,234 dollars') and c[2] in ('en-us', 'es-es'))][:14]
    if phase == 'sequential':
        # H1 same call twice
        seen = set()
        for c in calls:
            k = (c[0], c[1], c[2])
            if k not in seen:       # one reference per text is enough here; H3 varies the reference
                seen.add(k)
                hs.append({'kind': 'same-call-twice', 'calls': [c, c]})
        # H2 the same text under two cultures of different conventions, both orders
        for (fn, text, ref), per in by_text.items():
            if fn == 'recognize_percentage' and text not in ('1,234%', '1.234%', '3,5%'):
                continue
            for c1, c2 in CULTURE_PAIRS:
                if c1 in per and c2 in per:
                    hs.append({'kind': 'same-text-two-cultures', 'calls': [per[c1], per[c2]]})
                    hs.append({'kind': 'same-text-two-cultures', 'calls': [per[c2], per[c1]]})
        # H3 the same text under two references of one year, on both sides of / on the stated day, both orders
        if fam == 'datetime':
            for t, c in MONTH_DAY:
                for r1, r2 in REF_PAIRS:
                    a, b = call('recognize_datetime', t, c, r1), call('recognize_datetime', t, c, r2)
                    hs.append({'kind': 'same-text-two-references', 'calls': [a, b]})
                    hs.append({'kind': 'same-text-two-references', 'calls': [b, a]})
        # H7 the same text at another offset of the query (a memo keyed by the extracted text forgets the position)
        for c in (sens + [x for x in calls if x not in sens])[:40]:
            shifted = call(c[0], 'so ' + c[1], c[2], c[4], c[3], c[5])
            hs.append({'kind': 'same-text-shifted', 'calls': [c, shifted]})
            hs.append({'kind': 'same-text-shifted', 'calls': [shifted, c]})
        # H8 a different query of the same family first (state that is not keyed by the input at all)
        targets = (sens + [x for x in calls if x not in sens])[:25]
        disturbers = calls if len(calls) <= 8 else (sens[:2] + [x for x in calls if len(x[1]) > 12][:2] + calls[:1])
        for d in disturbers:
            for c in targets:
                if d != c:
                    hs.append({'kind': 'other-query-first', 'calls': [d, c]})
        # H6 fallback-enabled request for a culture without a model, then the same with the fallback disabled
        for c in calls[:1] + sens[:2]:
            for cu in ('sv-se', 'xx-yy'):
                hs.append({'kind': 'fallback-then-no-fallback', 'calls': [call(c[0], c[1], cu, c[4], c[3], True),
                                                                        call(c[0], c[1], cu, c[4], c[3], False)]})
    else:
        # H4 main thread, then a worker thread; and the worker thread alone
        for c in sens:
            hs.append({'kind': 'worker-thread-alone', 'calls': [c], 'where': ['worker']})
            hs.append({'kind': 'main-then-worker-thread', 'calls': [c, c], 'where': ['main', 'worker']})
        # H5 thread A paused inside its call at the k-th traced line of a new site's file, thread B completes a call
        if site_files:
            for a in (sens[:3] or calls[:3]):
                for b in (sens[:6] or calls[:6]):
                    for k in (2, 4, 7, 12, 25):
                        hs.append({'kind': 'paused-interleaving', 'calls': [a, b], 'k': k})
    return hs


# ------------------------------------------------------------------ the history server (child process)

def _evaluate(c):
    import datetime
    from lib import c02worker
    fn, query, culture, options, ref, fallback = c
    F = c02worker.load_funcs()
    try:
        kw = {}
        if fallback is not None:
            kw['fallback_to_default_culture'] = bool(fallback)
        if fn == 'recognize_datetime':
            if not ref:
                raise RuntimeError('date-time call without reference')
            return c02worker.canonical(F[fn](query, culture, F['__DateTimeOptions'](options or 0),
                                             datetime.datetime.fromisoformat(ref), **kw))
        return c02worker.canonical(F[fn](query, culture, **kw))
    except Exception as e:  # noqa
        return 'EXC:%s:%s' % (type(e).__name__, str(e)[:200])


def _run_history(h, site_files):
    import threading
    calls = h['calls']
    where = h.get('where') or ['main'] * len(calls)
    answers = [None] * len(calls)
    if h['kind'] == 'paused-interleaving':
        paused, resume = threading.Event(), threading.Event()
        state = {'n': 0, 'hit': False}
        files = set(site_files)

        def local(frame, event, arg):
            if event == 'line' and not state['hit']:
                state['n'] += 1
                if state['n'] == h['k']:
                    state['hit'] = True
                    state['at'] = '%s:%d (%s)' % (os.path.basename(frame.f_code.co_filename), frame.f_lineno, frame.f_code.co_name)
                    paused.set()
                    resume.wait(20)
            return local

        def tracer(frame, event, arg):
            if event == 'call' and not state['hit'] and frame.f_code.co_filename in files:
                return local
            return None

        def body_a():
            sys.settrace(tracer)
            try:
                answers[0] = _evaluate(calls[0])
            finally:
                sys.settrace(None)
                paused.set()

        def body_b():
            answers[1] = _evaluate(calls[1])
        ta = threading.Thread(target=body_a)
        ta.start()
        paused.wait(30)
        tb = threading.Thread(target=body_b)
        tb.start()
        tb.join(40)
        resume.set()
        ta.join(40)
        return {'answers': answers, 'paused_at': state.get('at'), 'paused': state['hit']}
    for i, c in enumerate(calls):
        if where[i] == 'main':
            answers[i] = _evaluate(c)
        else:
            def body(i=i, c=c):
                answers[i] = _evaluate(c)
            t = threading.Thread(target=body)
            t.start()
            t.join(60)
    return {'answers': answers}


def _prebuild(keys):
    """construct the models (through the recognisers' own getters) without recognising anything"""
    import importlib
    rec = {'number': ('recognizers_number', 'NumberRecognizer'), 'unit': ('recognizers_number_with_unit', 'NumberWithUnitRecognizer'),
           'datetime': ('recognizers_date_time', 'DateTimeRecognizer'), 'sequence': ('recognizers_sequence', 'SequenceRecognizer'),
           'choice': ('recognizers_choice', 'ChoiceRecognizer')}
    for fn, culture, options in keys:
        fam = next(f for f, fns in FAMILIES.items() if fn in fns)
        mod, cls = rec[fam]
        try:
            C = getattr(importlib.import_module(mod), cls)
            r = C(culture, options) if options else C(culture)
            getattr(r, 'get_' + fn[len('recognize_'):] + '_model')(culture, False)
        except Exception:  # noqa  (an unsupported culture: the history itself will show what happens)
            pass


def server_main():
    import signal
    import warnings
    warnings.simplefilter('ignore')
    job = json.load(sys.stdin)
    common.setup_repo_imports()
    from lib import c02worker
    c02worker.load_funcs()
    _prebuild(job.get('prebuild', []))
    import gc
    gc.collect()
    gc.freeze()          # the forked children do not touch (copy) the pages of the models
    site_files = job.get('site_files', [])
    results = {}
    hs = job['histories']
    width = job.get('width', 8)
    i = 0
    while i < len(hs):
        batch = []
        for j in range(i, min(i + width, len(hs))):
            r, w = os.pipe()
            pid = os.fork()
            if pid == 0:
                os.close(r)
                try:
                    signal.alarm(120)
                    res = _run_history(hs[j], site_files)
                except BaseException as e:  # noqa
                    res = {'answers': None, 'error': '%s: %s' % (type(e).__name__, e)}
                with os.fdopen(w, 'w', encoding='utf-8') as f:
                    f.write(json.dumps(res, ensure_ascii=False))
                os._exit(0)
            os.close(w)
            batch.append((j, pid, r))
        for j, pid, r in batch:
            with os.fdopen(r, encoding='utf-8') as f:
                data = f.read()
            os.waitpid(pid, 0)
            try:
                results[str(j)] = json.loads(data)
            except ValueError:
                results[str(j)] = {'answers': None, 'error': 'child died'}
        i += width
    sys.stdout.write(json.dumps(results, ensure_ascii=False))


def snapshot_main():
    import warnings
    warnings.simplefilter('ignore')
    common.setup_repo_imports()
    from lib import c02worker
    c02worker.load_funcs()
    import datatypes_timex_expression  # noqa
    sys.stdout.write(json.dumps(class_module_snapshot()))


def _child(mode, job=None, timeout=1500):
    p = subprocess.run([sys.executable, '-W', 'ignore', '-m', 'lib.hiddenstatecorr', mode], env=common.child_env(),
                       input=json.dumps(job or {}, ensure_ascii=False), stdout=subprocess.PIPE, stderr=subprocess.PIPE,
                       text=True, timeout=timeout, cwd=os.path.join(common.VERIF, 'harness'))
    if p.returncode != 0:
        raise common.InfraError('hidden-state %s child failed: %s' % (mode, p.stderr[-1500:]))
    return json.loads(p.stdout)


# ------------------------------------------------------------------ the search

def site_module(row_or_site):
    return row_or_site.split(':')[0].split(' ')[0]


def module_file(modname):
    for lib in common.LIBS:
        base = os.path.join(common.REPO, 'Python', 'libraries', lib, *modname.split('.'))
        for p in (base + '.py', os.path.join(base, '__init__.py')):
            if os.path.exists(p):
                return p
    return None


def run_search(ctx, sites, pool, why, validate=None):
    """sites: [(origin, text)] -> True when a failing history was reported.
    validate = [(family, phase), ...]: no site is new; the histories of these stages are run on the tree as it is, every
    stage to the end, and a history that differs from the single-call answers is a failure of the property all the same
    (thread A is paused inside the files of the `.modelled` sites: the precision decorator, the model cache)."""
    key = tuple(sorted(t for _, t in sites)) + (('validate',) if validate else ())
    if key in _SEARCHED:
        return _SEARCHED[key]
    mods = sorted({site_module(t) for _, t in sites})
    fams = []
    for m in mods:
        for f in REACH.get(m.split('.')[0], []):
            if f not in fams:
                fams.append(f)
    if validate:
        mods = ['recognizers_number.number.utilities', 'recognizers_text.model']
    files = [os.path.realpath(f) for f in (module_file(m) for m in mods) if f]
    ctx.extra['hidden_state_validation' if validate else 'hidden_state_search'] = {
        'sites': [t for _, t in sites][:20], 'modules': mods, 'families': fams, 'why': why}
    found = False
    log = []
    t0 = time.time()
    order = ['same-call-twice', 'same-text-two-cultures', 'same-text-two-references', 'same-text-shifted', 'other-query-first',
             'fallback-then-no-fallback',
             'worker-thread-alone', 'main-then-worker-thread', 'paused-interleaving']
    for fam, phase in validate or [(f, ph) for f in fams for ph in ('sequential', 'threads')]:
        hs = build_histories(fam, phase, pool, files)
        if not hs:
            continue
        singles = {}
        for h in hs:
            for c in h['calls']:
                singles.setdefault(json.dumps(c, ensure_ascii=False), c)
        single_hs = [{'kind': 'single', 'calls': [c]} for c in singles.values()]
        prebuild = sorted({(c[0], c[2], c[3] or 0) for c in singles.values()})
        t1 = time.time()
        res = _child('server', {'histories': single_hs + hs, 'prebuild': prebuild, 'site_files': files, 'width': 12})
        alone = {}
        for j, c in enumerate(singles.values()):
            a = res[str(j)].get('answers')
            alone[json.dumps(c, ensure_ascii=False)] = a[0] if a else None
        ctx.count('hidden_state_histories', len(hs))
        ctx.count('hidden_state_single_calls', len(single_hs))
        failing = {}
        for j, h in enumerate(hs):
            r = res[str(len(single_hs) + j)]
            ans = r.get('answers')
            if not ans or (h['kind'] == 'paused-interleaving' and not r.get('paused')):
                continue
            for i, c in enumerate(h['calls']):
                want = alone.get(json.dumps(c, ensure_ascii=False))
                if want is None or ans[i] is None or ans[i] == want:
                    continue
                failing.setdefault(h['kind'], []).append((h, i, ans, want, r.get('paused_at')))
                break
        paused_hit = sum(1 for j, h in enumerate(hs) if h['kind'] == 'paused-interleaving' and res[str(len(single_hs) + j)].get('paused'))
        log.append({'family': fam, 'phase': phase, 'histories': len(hs), 'single_calls': len(single_hs),
                    'paused_interleavings_that_reached_their_pause': paused_hit,
                    'wall_s': round(time.time() - t1, 1), 'failing_by_kind': {k: len(v) for k, v in failing.items()}})
        for kind in order:
            if kind not in failing:
                continue
            # the shortest failing history of the kind
            h, i, ans, want, at = sorted(failing[kind], key=lambda x: (len(json.dumps(x[0]['calls'])), json.dumps(x[0]['calls'])))[0]
            found = True
            steps = []
            for n, c in enumerate(h['calls']):
                th = (h.get('where') or ['main'] * len(h['calls']))[n] + ' thread'
                if kind == 'paused-interleaving':
                    th = 'thread A, paused at its traced line %d = %s' % (h['k'], at) if n == 0 else 'thread B, runs to completion while A is paused'
                steps.append('%d. %s(%r, %r%s%s%s) [%s]' % (n + 1, c[0], c[1], c[2], ', options=%s' % c[3] if c[3] else '',
                                                          ', reference=%s' % c[4] if c[4] else '',
                                                          ', fallback_to_default_culture=%s' % c[5] if c[5] is not None else '', th))
            ctx.report('property', 'state-dependent-result:' + kind,
                       '%s %s; history in a process that has imported the packages and built the models '
                       'but recognised nothing: %s; call %d answers %s, the same call alone answers %s' % (
                           'new hidden-state site(s)' if sites else 'no new site in the inventory',
                           '; '.join(t for _, t in sites[:4]), ' '.join(steps), i + 1, (ans[i] or '')[:300], (want or '')[:300]),
                       failing_input={'history': h, 'answers': ans, 'answer_of_call_%d_alone' % (i + 1): want,
                                      'differing_call': i + 1, 'new_sites': [t for _, t in sites][:20], 'paused_at': at,
                                      'histories_failing_by_kind': {k: len(v) for k, v in failing.items()}},
                       property_fails=True)
            ctx.nontriv(('hidden-state-history', kind))
        if found and not validate:
            break       # the first stage with a failing history ends the search
    slot = ctx.extra['hidden_state_validation' if validate else 'hidden_state_search']
    slot['stages'] = log
    slot['wall_s'] = round(time.time() - t0, 1)
    if not found and not validate:
        ctx.report('proof', 'hidden-state-site-without-failing-history',
                   'site(s) not on the allow-list of RTV.Props.C02State: %s (%s); %s' % (
                       '; '.join(t for _, t in sites[:8]), why,
                       'no targeted history over %s differed from the single-call answers' % (fams,) if fams else
                       'no recognise function reaches the module'), failing_input=None)
    _SEARCHED[key] = found
    return found


# ------------------------------------------------------------------ entry points

def fresh_inputs():
    """calls the checking process has (mostly) not evaluated yet: they move an input-keyed memo"""
    calls = []
    for fam in ('number', 'unit', 'datetime', 'sequence', 'choice'):
        calls += family_calls(fam, None)
    keep = []
    for c in calls:
        if c[0] == 'recognize_datetime' and c[2] not in ('en-us', 'zh-cn'):
            continue
        if c[2] not in ('en-us', 'zh-cn', 'es-es', 'de-de', 'ja-jp', 'pt-br'):
            continue
        keep.append(c)
    return keep


def correspond(ctx, pool=None):
    t0 = time.time()
    allow, problems = load_allow()
    for p in problems:
        ctx.report('correspondence', 'allow-list-text', 'RTV/Props/C02State.lean: ' + p, failing_input=None)
    new, inv = static_new_sites(allow)
    ctx.count('hidden_state_inventory_rows', sum(len(v) for v in inv.values()))
    ctx.extra['hidden_state_inventory'] = {t: len(v) for t, v in inv.items()}
    ctx.extra['hidden_state_allow_list'] = {n: len(v) for n, v in allow.items()}
    stale = []
    for name, tables in ALLOW_TABLES.items():
        have = {r for t in tables for r in inv[t]}
        stale += [r for r, _ in allow[name] if r not in have]
    if stale:
        ctx.notes.append('allow-list entries no longer in the inventory (stale, harmless): ' + '; '.join(stale[:6]))

    # (i) run-time cross-check: class / module level against a fresh import, instance level across unseen inputs
    import subprocess as sp
    p = sp.Popen([sys.executable, '-W', 'ignore', '-m', 'lib.hiddenstatecorr', 'snapshot'], env=common.child_env(),
                 stdin=sp.PIPE, stdout=sp.PIPE, stderr=sp.PIPE, text=True, cwd=os.path.join(common.VERIF, 'harness'))
    common.setup_repo_imports()
    from lib import c02worker
    c02worker.load_funcs()
    import datatypes_timex_expression  # noqa
    g1, n1 = graph_snapshot()
    fresh = fresh_inputs()
    for c in fresh:
        _evaluate(c)
    g2, n2 = graph_snapshot()
    after = class_module_snapshot()
    out, err = p.communicate('{}', timeout=600)
    if p.returncode != 0:
        raise common.InfraError('hidden-state snapshot child failed: ' + err[-1500:])
    before = json.loads(out)
    allowed_runtime = set()
    for row, cover in allow['allowClass']:
        m = re.match(r'(\S+):(\S+) (dict|list|set|counter|call:\S+) (\S+)$', row)
        if m and cover == 'modelled':
            allowed_runtime.add('%s:%s.%s' % (m.group(1), m.group(2), m.group(4)))
    changed = []
    for site in sorted(set(before) | set(after)):
        if site_module(site) not in {site_module(s) for s in before} or site_module(site) not in {site_module(s) for s in after}:
            continue
        a, b = before.get(site), after.get(site)
        if a != b and site not in allowed_runtime:
            changed.append((site, a, b))
    moved = sorted(k for k in g1 if k in g2 and g1[k] != g2[k])
    ctx.count('class_and_module_level_sites_snapshotted', len(after))
    ctx.count('instance_attributes_snapshotted', len(g1))
    ctx.extra['hidden_state_runtime'] = {'class_module_sites': len(after), 'changed_since_fresh_import': [c[0] for c in changed][:10],
                                         'allowed_to_change': sorted(allowed_runtime), 'objects_below_cached_models': n1,
                                         'instance_attributes': len(g1), 'instance_attributes_moved': moved[:10],
                                         'unseen_inputs_between_graph_snapshots': len(fresh),
                                         'cache_seen_changing': any(before.get(s) != after.get(s) for s in allowed_runtime)}
    if after:
        ctx.nontriv(('hidden-state-runtime', len(after) > 100, len(g1) > 100))
    runtime_sites = []
    for site, a, b in changed[:8]:
        ctx.report('correspondence', 'runtime-state-changed:' + site,
                   'class- / module-level state %s: %r right after import, %r after the C02 pool ran; not an allow-listed '
                   '.modelled site' % (site, a, b), failing_input={'site': site, 'fresh_import': a, 'after_pool': b})
        runtime_sites.append(('runtime', site))
    for k in moved[:8]:
        ctx.report('correspondence', 'runtime-instance-state-moved:' + re.sub(r'\[[^\]]*\]', '[]', k),
                   'attribute %s below a cached model changed while %d unseen inputs were recognised: %s -> %s' % (
                       k, len(fresh), g1[k], g2[k]), failing_input={'path': k, 'before': g1[k], 'after': g2[k]})
    if moved:
        # the module of the class that owns the attribute: ask the static inventory which new site has that attribute name
        attr = moved[0].rsplit('.', 1)[-1].split('[')[0]
        for t, r in new:
            if attr in r:
                runtime_sites.append(('runtime', r))
        if not any(o == 'runtime' and attr in s for o, s in runtime_sites):
            fam_mod = {'NumberModel': 'recognizers_number', 'OrdinalModel': 'recognizers_number', 'PercentModel': 'recognizers_number',
                       'DateTimeModel': 'recognizers_date_time'}.get(moved[0].split('(')[0], 'recognizers_text')
            runtime_sites.append(('runtime', '%s: instance attribute %s' % (fam_mod, moved[0])))
    ctx.extra['hidden_state_runtime']['wall_s'] = round(time.time() - t0, 1)
    sites = [('static', r) for _, r in new] + [s for s in runtime_sites if s[1] not in {r for _, r in new}]
    if sites:
        run_search(ctx, sites, pool, 'static inventory: %d new row(s); run-time walk: %d changed site(s), %d moved attribute(s)' % (
            len(new), len(changed), len(moved)))
    else:
        # nothing new: the targeted histories are still evaluated on the tree as it is (they must all agree with the
        # single calls) -- a slice in the quick tier, every family and phase in the thorough tier
        stages = [(f, ph) for f in ('number', 'unit', 'datetime', 'sequence', 'choice') for ph in ('sequential', 'threads')] \
            if ctx.thorough else [('unit', 'threads'), ('choice', 'sequential'), ('sequence', 'sequential')]
        run_search(ctx, [], pool, 'validation of the history search on the tree as it is', validate=stages)


def search(ctx, proof_problems, pool=None):
    """delegate of corr.c02.search: the inventory obligations broke -> look for a failing history (once)"""
    allow, _ = load_allow()
    new, _inv = static_new_sites(allow)
    if new:
        run_search(ctx, [('static', r) for _, r in new], pool, 'inventory obligation broken')


if __name__ == '__main__':
    if sys.argv[1:] == ['snapshot']:
        snapshot_main()
    elif sys.argv[1:] == ['server']:
        server_main()
