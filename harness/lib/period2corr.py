"""Unit correspondence of RTV.Model.Periods2 (Lean driver ops `p2.*`) against the real code: the `DateContext` class and
`TimexUtil.set_timex_with_context` / `generate_date_period_timex` (utilities.py), and the methods of BaseDatePeriodParser
that Periods.lean left out: `_merge_two_times_points` with a year context / the Feb-29 year sync / "now",
`__parse_single_time_point` + `_parse_complex_date_period`, the ORDER of the sixteen sub-parsers of
`_parse_base_date_period` (each real sub-parser is run on the text by itself, the model picks; the real chain must agree),
`parse` (assembly), `__parse_decade`, `__parse_week_of_date` / `__parse_month_of_date`, and the
`inclusive_end_period=True` variants. English, Spanish and French configurations for the text-driven parts.

The model takes regex / sub-parser outcomes as inputs: they are computed here with the very configuration calls the
method makes (`year_regex.finditer` + `get_year_from_text`, `date_extractor.extract`, `date_parser.parse`,
`future_regex.match`, `complex_dateperiod_regex.match` …), never read off the method's own result.

Pipeline oracles (property level, C10 / C11): an ordered pair of month-days followed by ONE year ("from May 2 to June 7
2020", es, fr too) resolves to exactly those two dates of that year with a consistent (start,end,PnD) triple; the
month-to-month form ("from May to July 2020") to the two firsts with PnM; a 29 February under a non-leap context year
yields 'not resolved' (C11), never a date.   `run(ctx)`."""
import datetime as dt

from . import common, calcorr, dtpipe, dtcorpus
from .calcorr import fmt_dt, ref_fields, at

P = '_BaseDatePeriodParser'
INVALID = -2147483648
SUBS = [P + '__parse_month_with_year', '_parse_simple_case', '_parse_one_word_period', '_merge_two_times_points',
        '_parse_year', '_parse_week_of_month', '_parse_week_of_year', '_parse_half_year', P + '__parse_quarter',
        P + '__parse_season', P + '__parse_which_week', P + '__parse_week_of_date', P + '__parse_month_of_date',
        P + '__parse_decade', P + '__parse_date_point_with_ago_and_later', '_parse_duration']
MONTHS = {
    'en-us': ['january', 'february', 'march', 'april', 'may', 'june', 'july', 'august', 'september', 'october', 'november',
              'december'],
    'es-es': ['enero', 'febrero', 'marzo', 'abril', 'mayo', 'junio', 'julio', 'agosto', 'septiembre', 'octubre', 'noviembre',
              'diciembre'],
    'fr-fr': ['janvier', 'février', 'mars', 'avril', 'mai', 'juin', 'juillet', 'août', 'septembre', 'octobre', 'novembre',
              'décembre'],
}


def md(cul, m, d):
    return {'en-us': '%s %d', 'es-es': '%d de %s', 'fr-fr': '%d %s'}[cul] % ((MONTHS[cul][m - 1], d) if cul == 'en-us' else (d, MONTHS[cul][m - 1]))


def range_text(cul, a, b, year=None, form=0):
    """an explicit range of two month-days, the year (if any) stated once at the end"""
    A, B = md(cul, *a), md(cul, *b)
    if cul == 'en-us':
        s = ['from %s to %s', 'between %s and %s'][form % 2] % (A, B)
        return s + (' %d' % year if year else '')
    if cul == 'es-es':
        s = ['entre el %s y el %s', 'del %s al %s'][form % 2] % (A, B)
        return s + (' de %d' % year if year else '')
    s = ['du %s au %s', 'entre le %s et le %s'][form % 2] % (A, B)
    return s + (' %d' % year if year else '')


def tx(s):
    return s if s else '-'


def G(fn):
    """the implementation's answer, any exception of the parser code = `err:Other` (the model's `.raises`)"""
    try:
        return fn()
    except Exception:      # AttributeError / TypeError of the port's slips are behaviour too
        return 'err:Other'


def vals_of(r):
    fv, pv = r.future_value, r.past_value
    if isinstance(fv, dict):
        return [fv['startDate'], fv['endDate'], pv['startDate'], pv['endDate']], True
    return [fv[0], fv[1], pv[0], pv[1]], False


def show_res(r):
    """= PeriodsH.showRes"""
    if not r.success:
        return 'none'
    v, _ = vals_of(r)
    return '\t'.join([r.timex] + [fmt_dt(x) for x in v])


def show_out(r, with_dict=False):
    """= Periods2H.showOut (+ dict flag)"""
    if not r.success:
        s, d = 'none', False
    elif r.future_value is None:
        s, d = '%s\t-\t%s' % (tx(r.timex), tx(r.mod or '')), False
    else:
        v, d = vals_of(r)
        s = '\t'.join([tx(r.timex)] + [fmt_dt(x) for x in v] + [tx(r.mod or '')])
    return s + ('\t%d' % (1 if d else 0) if with_dict else '')


def enc_out(fn):
    """an `Out` argument for the driver from a real sub-parser call"""
    try:
        r = fn()
    except Exception:
        return 'R'
    if not r.success:
        return 'N'
    if r.future_value is None:
        return 'O~%s~-~%s' % (tx(r.timex), tx(r.mod or ''))
    v, _ = vals_of(r)
    return '~'.join(['O', tx(r.timex)] + [fmt_dt(x) for x in v] + [tx(r.mod or '')])


def years_of(cfg, text):
    return [cfg.date_extractor.get_year_from_text(m) for m in cfg.year_regex.finditer(text)]


def fold_years(ys):
    c = INVALID
    for y in ys:
        if y != INVALID:
            c = y if c == INVALID else (INVALID if c != y else c)
    return c


class Cases:
    def __init__(self, ctx):
        self.ctx = ctx
        self.rows = []        # (op line, implementation answer, description)

    def add(self, line, impl, desc):
        self.rows.append((line, impl, desc))

    def finish(self):
        ctx = self.ctx
        model = common.driver([r[0] for r in self.rows]) if self.rows else []
        hist, shown = {}, {}
        for (line, a, desc), b in zip(self.rows, model):
            op = line.split('\t')[0]
            hist[op] = hist.get(op, 0) + 1
            if a not in ('none', 'err:Other'):
                ctx.nontriv(('periods2', desc))
            if op == 'p2.chain':
                b = b.split('\t', 1)[1] if '\t' in b else b      # the leading field is the answering index (check_order)
            if a != b:
                shown[op] = shown.get(op, 0) + 1
                if shown[op] <= 3:
                    ctx.report('correspondence', 'periods2-' + op[3:], '%s: implementation %s, model %s' % (desc, a, b),
                               failing_input={'op': line, 'call': desc, 'implementation': a, 'model': b})
        for op, n in hist.items():
            ctx.count('Periods2:' + op, n)
        if self.rows:
            ctx.sample({'op': self.rows[0][0], 'call': self.rows[0][2], 'implementation': self.rows[0][1]})
        return model


# ------------------------------------------------------------------ DateContext, TimexUtil

def context_cases(ctx, C, pp):
    cfg = pp.config
    from recognizers_date_time.date_time.utilities import (DateContext, TimexUtil, DateTimeResolutionResult, DateUtils,
                                                           DateTimeParseResult)
    r = ctx.rng('periods2-context')
    mn = DateUtils.min_value
    years = [INVALID, 2019, 2020, 2000, 1900, 1, 9999, 2024, 2021]
    days = [mn, dt.datetime(2020, 2, 29), dt.datetime(2016, 2, 29), dt.datetime(2019, 2, 28), dt.datetime(2019, 3, 1),
            dt.datetime(2020, 12, 31), dt.datetime(2021, 1, 1), dt.datetime(1, 1, 2), dt.datetime(1, 3, 1), dt.datetime(9999, 12, 31),
            dt.datetime(2019, 7, 5, 10, 30), dt.datetime(2020, 6, 2), dt.datetime(1, 1, 1, 0, 0, 1)]
    days += [at(d, calcorr.TIMES[i % 3]) for i, d in enumerate(calcorr.seeded_days(r, 60 if ctx.thorough else 14))]

    def mkctx(y):
        c = DateContext()
        c.year = y
        return c

    def res(timex, f, p):
        x = DateTimeResolutionResult()
        x.timex, x.future_value, x.past_value, x.success = timex, f, p, True
        return x
    timexes = ['XXXX-05-02', '2020-05-02', '(XXXX-05-02,XXXX-05-07,P5D)', 'XXXX-WXX-1', 'XXXXXXXX-02', 'XXX-XXXX', '', 'XXXX-02-29']
    for i, y in enumerate(years):
        c = mkctx(y)
        for t in timexes:
            C.add('p2.settimex\t%s\t%d' % (tx(t), y), tx(TimexUtil.set_timex_with_context(t, c)), 'set_timex_with_context(%r, %d)' % (t, y))
        for j, d in enumerate(days):
            for yy in (-1, 2019, 2020):
                C.add('p2.setdate\t%d\t%s\t%d' % (y, fmt_dt(d), yy),
                      G(lambda: fmt_dt(c._DateContext__set_date_with_context(d, yy))), '__set_date_with_context(ctx %d, %s, %d)' % (y, d, yy))
            d2 = days[(j * 7 + i) % len(days)]
            d3 = days[(j * 3 + i + 1) % len(days)]
            d4 = days[(j * 5 + i + 2) % len(days)]
            t = timexes[(i + j) % len(timexes)]

            def pd():
                x = c.process_date_entity_resolution(res(t, d, d2))
                return '%s\t%s\t%s' % (tx(x.timex), fmt_dt(x.future_value), fmt_dt(x.past_value))
            C.add('p2.procdate\t%d\t%s\t%s\t%s' % (y, tx(t), fmt_dt(d), fmt_dt(d2)), G(pd), 'process_date_entity_resolution(ctx %d, %r, %s, %s)' % (y, t, d, d2))
            src = res(t, [d, d2], [d3, d4])
            C.add('p2.procperiod\t%d\t%s' % (y, enc_out(lambda: src)),
                  G(lambda: show_out(c.process_date_period_entity_resolution(res(t, [d, d2], [d3, d4])), True)),
                  'process_date_period_entity_resolution(ctx %d, %r, [%s, %s], [%s, %s])' % (y, t, d, d2, d3, d4))
            if j == 0:
                nv = res(t, None, None)
                C.add('p2.procperiod\t%d\t%s' % (y, enc_out(lambda: nv)),
                      G(lambda: show_out(c.process_date_period_entity_resolution(res(t, None, None)), True)),
                      'process_date_period_entity_resolution(ctx %d, %r, no values)' % (y, t))

            def sy():
                a, b = DateTimeParseResult(), DateTimeParseResult()
                a.value, b.value = res('XXXX-01-01', d, d2), res('XXXX-01-02', d3, d4)
                a, b = c.sync_year(a, b)
                return '\t'.join(fmt_dt(x) for x in (a.value.future_value, a.value.past_value, b.value.future_value, b.value.past_value))
            C.add('p2.sync\t%d\tXXXX-01-01\t%s\t%s\tXXXX-01-02\t%s\t%s' % (y, fmt_dt(d), fmt_dt(d2), fmt_dt(d3), fmt_dt(d4)), G(sy),
                  'sync_year(ctx %d, (%s, %s), (%s, %s))' % (y, d, d2, d3, d4))
    for j, d in enumerate(days):
        for k in (0, 1, 5, 9):      # k = 0: begin == end (the strict comparison of swift_date_object)
            e = days[(j + k) % len(days)]
            C.add('p2.swift\t%s\t%s' % (fmt_dt(d), fmt_dt(e)), G(lambda: fmt_dt(DateContext.swift_date_object(d, e))), 'swift_date_object(%s, %s)' % (d, e))
            for ty in (0, 1, 2):
                ab = days[(j + 2 * k) % len(days)]
                ae = days[(j + 3 * k) % len(days)]
                if (j + k) % 2 == 0 and 1 < ab.toordinal() + (e - d).days < 3652058:
                    ae = ab + (e - d)
                C.add('p2.gentimex\t%s\t%s\t%d\t%s\t%s' % (fmt_dt(d), fmt_dt(e), ty, fmt_dt(ab), fmt_dt(ae)),
                      G(lambda: TimexUtil.generate_date_period_timex(d, e, ty, ab, ae)), 'generate_date_period_timex(%s, %s, %d, %s, %s)' % (d, e, ty, ab, ae))
    for n in range(1, 80 if ctx.thorough else 30):     # the float week count n / 7
        b = dt.datetime(2020, 1, 6)
        e = b + dt.timedelta(days=n * (1 if n % 5 else 37))
        C.add('p2.gentimex\t%s\t%s\t1\t%s\t%s' % (fmt_dt(b), fmt_dt(e), fmt_dt(b), fmt_dt(e)),
              G(lambda: TimexUtil.generate_date_period_timex(b, e, 1, b, e)), 'generate_date_period_timex(%s, %s, 1)' % (b, e))
    # the year scan of get_year_context on texts of year tokens
    pool = ['2019', '2020', '1999', '19', '2019', '0', '3000', '96']
    for _ in range(60 if ctx.thorough else 25):
        toks = [r.choice(pool) for _ in range(r.randint(0, 4))]
        text = 'from may 2 ' + ' and '.join(toks) + ' to june'
        ys = years_of(cfg, text)
        C.add('p2.fold\t%s' % (','.join(str(y) for y in ys) or '-'), G(lambda: str(pp.get_year_context(cfg, 'may 2', 'june', text).year)),
              'get_year_context(%r)' % text)
    # the two early-outs are dead in the port: a pure-year end and relative words on both sides still scan the text
    for s, e, text in (('may 2', '2020', 'from may 2 to 2020'), ('next monday', 'next friday 2020', 'next monday to next friday 2020'),
                       ('this may 2', 'this june 2019', 'this may 2 to this june 2019')):
        C.add('p2.fold\t%s' % (','.join(str(y) for y in years_of(cfg, text)) or '-'), G(lambda: str(pp.get_year_context(cfg, s, e, text).year)),
              'get_year_context(%r, %r, %r)' % (s, e, text))


# ------------------------------------------------------------------ _merge_two_times_points

def merge_cases(ctx, C, cul, pp, refs):
    cfg = pp.config
    r = ctx.rng('periods2-merge-' + cul)
    pairs = [((2, 28), (3, 1)), ((2, 29), (3, 3)), ((2, 20), (2, 29)), ((2, 29), (2, 29)), ((12, 28), (1, 3)), ((5, 2), (5, 7)),
             ((7, 5), (6, 2)), ((1, 31), (2, 1)), ((2, 27), (3, 1))]
    for i, R in enumerate(refs):
        sel = pairs if i % 6 == 0 else [pairs[i % len(pairs)], ((r.randint(1, 12), r.randint(1, 28)), (r.randint(1, 12), r.randint(1, 28)))]
        for k, (a, b) in enumerate(sel):
            for year in (None, [2019, 2020, 2021, 2024, 2000, 1900][(i + k) % 6]):
                text = range_text(cul, a, b, year, i + k)
                ers = cfg.date_extractor.extract(text.strip(), R)
                if len(ers) != 2 or cfg.week_with_week_day_range_regex.search(text):
                    continue
                p1, p2 = cfg.date_parser.parse(ers[0], R), cfg.date_parser.parse(ers[1], R)
                if not p1.value or not p2.value:
                    continue
                fm = 1 if cfg.future_regex.match(ers[0].text) else 0
                cy = fold_years(years_of(cfg, text))
                line = 'p2.merge\t%d\t%d\t%s\t%s\t%s\t%s\t%s\t%s' % (
                    fm, cy, p1.timex_str, fmt_dt(p1.value.future_value), fmt_dt(p1.value.past_value),
                    p2.timex_str, fmt_dt(p2.value.future_value), fmt_dt(p2.value.past_value))
                C.add(line, G(lambda: show_res(pp._merge_two_times_points(text, R))), '%s _merge_two_times_points(%r, %s)' % (cul, text, R))
    if cul == 'en-us':
        for i, R in enumerate(refs[:: 4]):
            m, d = (i % 12) + 1, (i * 7) % 28 + 1
            for text in ('between now and %s' % md(cul, m, d), 'from %s to now' % md(cul, m, d), 'from next monday to next friday'):
                src = text.strip()
                ers = cfg.date_extractor.extract(src, R)
                if len(ers) >= 2:
                    fm = 1 if cfg.future_regex.match(ers[0].text) else 0
                    if not fm:
                        continue
                    p1, p2 = cfg.date_parser.parse(ers[0], R), cfg.date_parser.parse(ers[1], R)
                    line = 'p2.merge\t1\t%d\t%s\t%s\t%s\t%s\t%s\t%s' % (
                        INVALID, p1.timex_str, fmt_dt(p1.value.future_value), fmt_dt(p1.value.past_value),
                        p2.timex_str, fmt_dt(p2.value.future_value), fmt_dt(p2.value.past_value))
                else:
                    ers = cfg.date_extractor.extract(cfg.token_before_date + src, R)
                    nm = cfg.now_regex.search(text)
                    if len(ers) != 1 or nm is None:
                        continue
                    pr = cfg.date_parser.parse(ers[0], R)
                    line = 'p2.mergenow\t%s\t%d\t%s\t%s\t%s' % (ref_fields(R), 1 if pr.start < nm.start() else 0, pr.timex_str,
                                                          fmt_dt(pr.value.future_value), fmt_dt(pr.value.past_value))
                C.add(line, G(lambda: show_res(pp._merge_two_times_points(text, R))), '%s _merge_two_times_points(%r, %s)' % (cul, text, R))


# ------------------------------------------------------------------ _parse_complex_date_period

COMPLEX = ['from may to july 2020', 'between may and july 2020', 'from january 5 to march 2020', 'from march to january 2020',
           'from first week of may to second week of june 2020', 'from first week of may to july 2020', 'from this week to july 2020',
           'from may to july', 'from may 2019 to july 2020', 'from 2019 to 2020', 'from february 29 to april 2019', 'from march to february 29 2019',
           'from july 5 to june 2020', 'from this summer to july 2020', 'from may to july 2019', 'from december to february 2021',
           'from may 2020 to july 2020', 'may to july 2020', 'from q1 to q3 2020', 'from monday to friday 2020', 'from december 31 to january 2020']


def complex_cases(ctx, C, pp, refs):
    cfg = pp.config

    def single_in(t, R):
        er = next(iter(cfg.date_extractor.extract(t, R)), None)
        if not er:
            return 'n\t-\t1-1-1@0\t1-1-1@0'
        if cfg.week_with_week_day_range_regex.match(t):
            return 'w\t-\t1-1-1@0\t1-1-1@0'
        pr = cfg.date_parser.parse(er, R)
        if pr.value is None:
            return 'v\t-\t1-1-1@0\t1-1-1@0'
        return 'd\t%s\t%s\t%s' % (tx(pr.timex_str), fmt_dt(pr.value.future_value), fmt_dt(pr.value.past_value))
    for i, R in enumerate(refs):
        for text in (COMPLEX if i % 3 == 0 else COMPLEX[i % 5:: 5]):
            m = cfg.complex_dateperiod_regex.match(text)
            if not m:
                line = 'p2.complex\t0\t%d\tn\t-\t1-1-1@0\t1-1-1@0\tN\tn\t-\t1-1-1@0\t1-1-1@0\tN' % INVALID
            else:
                s, e = m.group('start').strip(), m.group('end').strip()
                cy = fold_years(years_of(cfg, text))
                line = 'p2.complex\t1\t%d\t%s\t%s\t%s\t%s' % (cy, single_in(s, R), enc_out(lambda: pp._parse_base_date_period(s, R)),
                                                         single_in(e, R), enc_out(lambda: pp._parse_base_date_period(e, R)))
            C.add(line, G(lambda: show_res(pp._parse_complex_date_period(text, R))), '_parse_complex_date_period(%r, %s)' % (text, R))


# ------------------------------------------------------------------ order of the sub-parsers, parse

# family -> index in SUBS of the sub-parser that answers it (English)
FAMILIES = [('may 2020', 0), ('may of next year', 0), ('12/2020', 0), ('from 4 to 22 january', 1), ('this week', 2), ('next month', 2),
            ('last year', 2), ('next year', 2), ('early next week', 2), ('this weekend', 2), ('year to date', 2), ('mid may', 2),
            ('from may 2 to may 7', 3), ('from may 2 to may 7 2020', 3), ('between now and may 5', 3), ('2016', 4),
            ('first week of may', 5), ('last week of this month', 5), ('first week of 2020', 6), ('first half of 2020', 7), ('h2 2019', 7),
            ('q1 2020', 8), ('third quarter', 8), ('this summer', 9), ('summer 2019', 9), ('week 12', 10), ('week 12 of 2020', 10),
            ('from week 12 to week 14', 10), ('week of december 15', 11), ('month of september 16', 0), ('month of september 16th', 12),
            ('next 3 days', 15), ('past 2 months', 15), ('in 3 weeks', 15), ('rest of the week', 15), ('rest of this month', 15),
            ('next 2 years', 15), ('the 1990s', None), ('the nineties', None), ('within 3 days from today', None), ('the next decade', 'R'),
            ('from next monday to next friday', 'R'), ('from may to july 2020', None)]


def order_cases(ctx, C, pp, refs):
    from recognizers_date_time.date_time.utilities import DateContext
    from recognizers_text.extractor import ExtractResult
    checks = []
    for i, R in enumerate(refs):
        for k, (text, want) in enumerate(FAMILIES):
            if i % 4 and (k + i) % 4:
                continue
            outs = [enc_out(lambda: getattr(pp, mname)(text, R)) for mname in SUBS]
            C.add('p2.chain\tnone\t' + '\t'.join(outs), G(lambda: show_out(pp._parse_base_date_period(text, R), True)),
                  '_parse_base_date_period(%r, %s)' % (text, R))
            checks.append((len(C.rows) - 1, text, want, R))
            y = [2019, 2020, INVALID][(i + k) % 3]
            c = DateContext()
            c.year = y
            C.add('p2.chain\t%d\t' % y + '\t'.join(outs), G(lambda: show_out(pp._parse_base_date_period(text, R, c), True)),
                  '_parse_base_date_period(%r, %s, ctx %d)' % (text, R, y))
            checks.append((len(C.rows) - 1, text, want, R))
            # parse: assembly
            base = enc_out(lambda: pp._parse_base_date_period(text, R))
            cplx = enc_out(lambda: pp._parse_complex_date_period(text, R)) if not base.startswith('O') else 'N'
            for ty in ((pp.parser_type_name, 'wrong.type') if k % 7 == 0 else (pp.parser_type_name,)):
                def run_parse():
                    er = ExtractResult()
                    er.text, er.start, er.length, er.type = '  ' + text.upper() + ' ', 0, len(text) + 3, ty
                    res = pp.parse(er, R)
                    v = res.value
                    if v is None:
                        return '0\t%s\t{}\t{}\t-' % tx(res.timex_str)
                    fr = lambda d: ('%s,%s' % (d['startDate'], d['endDate'])) if d else '{}'
                    return '1\t%s\t%s\t%s\t%s' % (tx(res.timex_str), fr(v.future_resolution), fr(v.past_resolution), tx(v.mod or ''))
                C.add('p2.parse\t%d\t%s\t%s' % (1 if ty == pp.parser_type_name else 0, base, cplx), G(run_parse), 'parse(%r as %s, %s)' % (text, ty, R))
    return checks


def check_order(ctx, C, model, checks):
    """the model's `answerIndex` over the real sub-parsers' own outcomes = the family table"""
    seen = set()
    for (row, text, want, R) in checks:
        got = model[row].split('\t')[0]
        exp = '-' if want in (None, 'R') else str(want)
        # a family may have no answer at some references ("rest of this month" on the last day): then nobody answers
        ok = (got == exp or (got == '-' and want != 'R')) and (want != 'R' or model[row].split('\t')[1] == 'err:Other')
        ctx.count('Periods2:order-family')
        if not ok and text not in seen:
            seen.add(text)
            ctx.report('correspondence', 'periods2-order-family',
                       '%r (reference %s) is answered by sub-parser %s, the family table says %s' % (text, R, got, exp),
                       failing_input={'op': C.rows[row][0], 'call': C.rows[row][2], 'implementation': 'sub-parser ' + got, 'model': exp})


# ------------------------------------------------------------------ decade, week / month of date, inclusive end

DECADES = [('the 1990s', 'c', 19, 90), ('the nineties', 'b', 90, 0), ("the '90s", 'b', 90, 0), ('the 2010s', 'c', 20, 10),
           ('the two thousands', 's', 2000, 0), ('the next decade', 'r', 1, 0), ('the last 2 decades', 'r', -2, 0), ('the 90s', 'b', 90, 0)]


def decade_repaired(pp):
    """variant probe: does the tree's __parse_decade succeed on 'the 1990s'?"""
    try:
        return bool(getattr(pp, P + '__parse_decade')('the 1990s', dt.datetime(2020, 3, 15)).success)
    except Exception:
        return False


def misc_cases(ctx, C, pp, refs):
    from recognizers_text.utilities import RegExpUtility
    from recognizers_date_time.date_time.base_dateperiod import BaseDatePeriodParser
    cpp = pp.config
    ppi = BaseDatePeriodParser(cpp, inclusive_end_period=True)
    repaired = decade_repaired(pp)
    ctx.extra['periods2_decade_variant'] = 'repaired' if repaired else 'unported (never succeeds)'
    r = ctx.rng('periods2-misc')
    for i, R in enumerate(refs):
        # ---- decade
        for (text, kind, a, b) in DECADES + [('x1990s', 'c', 19, 90), ('a90s', 'b', 90, 0)]:
            if repaired:
                if text in ('x1990s', 'a90s'):
                    continue
                line = 'p2.decadefix\t%s\t%s\t%d\t%d' % (ref_fields(R), kind, a, b)
                C.add(line, G(lambda: show_res(getattr(pp, P + '__parse_decade')(text, R))), '__parse_decade(%r, %s)' % (text, R))
            else:
                m1 = 1 if cpp.decade_with_century_regex.match(text, True) else 0
                ex = 0 if m1 else (1 if G(lambda: RegExpUtility.is_exact_match(cpp.relative_decade_regex, text, True)) is True else 0)
                C.add('p2.decade\t%d\t%d' % (m1, ex), G(lambda: show_out(getattr(pp, P + '__parse_decade')(text, R))), '__parse_decade(%r, %s)' % (text, R))
        # ---- week of / month of a date
        m, d = i % 12 + 1, (i * 5) % 28 + 1
        for text, meth, op in (('week of %s' % md('en-us', m, d), P + '__parse_week_of_date', 'weekof'),
                               ('month of %s' % md('en-us', m, d) + 'th', P + '__parse_month_of_date', 'monthof'),
                               ('week of december 31', P + '__parse_week_of_date', 'weekof'),
                               ('month of december 15th', P + '__parse_month_of_date', 'monthof')):
            ers = cpp.date_extractor.extract(text, R)
            rx = cpp.week_of_regex if op == 'weekof' else cpp.month_of_regex
            if len(ers) != 1 or not rx.search(text):
                continue
            pr = cpp.date_parser.parse(ers[0], R)
            dres = '%s\t%s\t%s' % (tx(pr.value.timex), fmt_dt(pr.value.future_value), fmt_dt(pr.value.past_value))
            if op == 'weekof':
                C.add('p2.weekof\t0\t' + dres, G(lambda: show_res(getattr(pp, meth)(text, R))), '%s(%r, %s)' % (meth.replace(P, ''), text, R))
                C.add('p2.weekof\t1\t' + dres, G(lambda: show_res(getattr(ppi, meth)(text, R))), 'inclusive %s(%r, %s)' % (meth.replace(P, ''), text, R))
            else:
                C.add('p2.monthof\t' + dres, G(lambda: show_res(getattr(pp, meth)(text, R))), '%s(%r, %s)' % (meth.replace(P, ''), text, R))
        # ---- inclusive end
        rf = ref_fields(R)
        y = [1950, 1999, 2000, 2016, 2019, 2020, 2021, 2024, 2100][i % 9]
        for (parser, flag) in ((pp, 0), (ppi, 1)):
            C.add('p2.mwyi\t%d\t%s\t%d\t%d\t%d' % (flag, rf, m, y, cpp.get_swift_year('')),
                  G(lambda: show_res(getattr(parser, P + '__parse_month_with_year')('%s %d' % (MONTHS['en-us'][m - 1], y), R))),
                  'inclusive=%d __parse_month_with_year(%s %d)' % (flag, MONTHS['en-us'][m - 1], y))
            C.add('p2.yeari\t%d\t%d' % (flag, y), G(lambda: show_res(parser._parse_year('%d' % y, R))), 'inclusive=%d _parse_year(%d)' % (flag, y))
            for c in (1, 5, r.randint(2, 4)):
                for ny in (0, 1):
                    C.add('p2.womi\t%d\t%s\t%d\t%d\t%d\t%d' % (flag, rf, c, m, R.year, ny),
                          G(lambda: show_res(parser._get_week_of_month(c, m, R.year, R, bool(ny)))),
                          'inclusive=%d _get_week_of_month(%d, %d, %d, %s, %s)' % (flag, c, m, R.year, R, bool(ny)))
            for n in (1, 2, r.randint(3, 14)):
                for u, word in (('D', 'day'), ('W', 'week'), ('M', 'month'), ('Y', 'year')):
                    w = word if n == 1 else word + 's'
                    for mode, pre in (('past', 'past'), ('next', 'next'), ('in', 'in')):
                        C.add('p2.duri\t%d\t%s\t%s\t%s\t%d' % (flag, rf, mode, u, n), G(lambda: show_res(parser._parse_duration('%s %d %s' % (pre, n, w), R))),
                              'inclusive=%d _parse_duration(%s %d %s, %s)' % (flag, pre, n, w, R))


# ------------------------------------------------------------------ pipeline

def pipeline(ctx):
    r = ctx.rng('periods2-pipe')
    jobs, meta = [], []
    n = 60 if ctx.thorough else 14
    refs = [dt.datetime(2019, 3, 15, 10, 0, 0), dt.datetime(2020, 2, 29, 0, 0, 0), dt.datetime(2020, 12, 31, 23, 59, 59), dt.datetime(2021, 1, 1, 0, 0, 0)]
    for cul in ('en-us', 'es-es', 'fr-fr'):
        for i in range(n):
            year = [2019, 2020, 2021, 2024, 2000, 2018][i % 6]
            a = dt.date(year, 1, 1) + dt.timedelta(days=r.randint(0, 330))
            b = a + dt.timedelta(days=r.choice([1, 2, 7, 27, 31, r.randint(1, 30)]))
            if i % 5 == 0:
                a, b = dt.date(year, 2, 27), dt.date(year, 3, 1)
            if b.year != a.year:
                continue
            R = refs[i % len(refs)]
            jobs.append((cul, range_text(cul, (a.month, a.day), (b.month, b.day), year, i), R))
            meta.append(('days', a.isoformat(), b.isoformat()))
    for i in range(n):
        year = [2019, 2020, 2021, 2024][i % 4]
        m1 = r.randint(1, 10)
        m2 = r.randint(m1 + 1, 12)
        R = refs[i % len(refs)]
        jobs.append(('en-us', ['from %s to %s %d', 'between %s and %s %d'][i % 2] % (MONTHS['en-us'][m1 - 1], MONTHS['en-us'][m2 - 1], year), R))
        meta.append(('months', '%04d-%02d-01' % (year, m1), '%04d-%02d-01' % (year, m2)))
    for i, year in enumerate([2019, 2021, 2100, 1900]):      # 29 February of a year that has none: 'not resolved' (C11)
        jobs.append(('en-us', 'from february 29 to march 3 %d' % year, refs[i % len(refs)]))
        meta.append(('feb29', None, None))
        jobs.append(('en-us', 'from february 20 to february 29 %d' % year, refs[i % len(refs)]))
        meta.append(('feb29', None, None))
    # week-of-month ends under a year context (month / day of the REFERENCE year's week copied into the stated year)
    for i, year in enumerate([2020, 2021]):
        jobs.append(('en-us', 'from first week of may to second week of june %d' % year, dt.datetime(2019, 3, 15, 10, 0, 0)))
        meta.append(('weeks', None, None))
    res = dtpipe.run(jobs)
    ents, idx = [], []
    for k, (j, m, got) in enumerate(zip(jobs, meta, res)):
        fam = m[0]
        ctx.count('periods2 pipeline %s %s' % (j[0], fam))
        why = ''
        ranges = [] if isinstance(got, str) else [e for e in got if e['type_name'] == 'datetimeV2.daterange']
        if isinstance(got, str):
            why = got
        elif fam == 'feb29':
            vals = [v for e in ranges for v in (e['values'] or [])]
            if not ranges or any(v.get('value') != 'not resolved' for v in vals):
                why = 'a 29 February that does not exist must give "not resolved"'
            else:
                ctx.nontriv(('p2pipe', j[1]))
        elif fam == 'weeks':
            ents.extend(e for e in ranges if e['values'])
            idx.extend(k for e in ranges if e['values'])
            continue
        else:
            hit = [e for e in ranges if e['values'] and any(v.get('start') == m[1] and v.get('end') == m[2] for v in e['values'])]
            if not hit:
                why = 'end points %r, expected %s..%s' % ([(v.get('start'), v.get('end')) for e in ranges for v in (e['values'] or [])], m[1], m[2])
            elif any(len(e['values']) != 1 for e in hit):
                why = 'several readings for a range with a stated year'
            else:
                ents.extend(hit)
                idx.extend(k for _ in hit)
        if why:
            ctx.report('property', 'period2:year-context:%s:%s' % (j[0], fam), '%s %r (reference %s): %s' % (j[0], j[1], j[2], why),
                       failing_input={'culture': j[0], 'query': j[1], 'reference': str(j[2]), 'expected': m[1:], 'got': got if isinstance(got, str) else got[:3]},
                       property_fails=True)
    for k, e, (tn, vs) in zip(idx, ents, dtcorpus.evaluate_wf(ents)):
        j, fam = jobs[k], meta[k][0]
        bad = [v for v, (s, d, t) in zip(e['values'], vs) if not (s and t)]
        if bad:
            sig = 'period2:complex:week-of-month-year-context' if fam == 'weeks' else 'period2:year-context:%s:%s:triple' % (j[0], fam)
            ctx.report('property', sig, '%s %r (reference %s): the (start,end,duration) TIMEX and the values disagree: %r' % (j[0], j[1], j[2], bad[:2]),
                       failing_input={'culture': j[0], 'query': j[1], 'reference': str(j[2]), 'values': bad[:2]}, property_fails=True)
        else:
            ctx.nontriv(('p2pipe', j[1], str(j[2])))


def run(ctx, n_refs=None):
    common.setup_repo_imports()
    from recognizers_date_time.date_time.english.common_configs import EnglishCommonDateTimeParserConfiguration
    from recognizers_date_time.date_time.spanish.common_configs import SpanishCommonDateTimeParserConfiguration
    from recognizers_date_time.date_time.french.common_configs import FrenchCommonDateTimeParserConfiguration
    import recognizers_date_time
    common.assert_tree_modules(recognizers_date_time)
    en = EnglishCommonDateTimeParserConfiguration().date_period_parser
    r = ctx.rng('periods2-refs')
    bdays = calcorr.boundary_days()
    n_b, n_s = (350, 120) if ctx.thorough else (n_refs or 40, 20)
    days = [dt.date(2020, 2, 29), dt.date(2019, 2, 28), dt.date(2020, 12, 31), dt.date(2021, 1, 1), dt.date(2019, 3, 15)] + \
        r.sample(bdays, min(n_b, len(bdays))) + calcorr.seeded_days(r, n_s)
    refs = [at(d, calcorr.TIMES[i % 3]) for i, d in enumerate(days)]
    C = Cases(ctx)
    context_cases(ctx, C, en)
    merge_cases(ctx, C, 'en-us', en, refs)
    step = 1 if ctx.thorough else 3
    merge_cases(ctx, C, 'es-es', SpanishCommonDateTimeParserConfiguration().date_period_parser, refs[:: step])
    merge_cases(ctx, C, 'fr-fr', FrenchCommonDateTimeParserConfiguration().date_period_parser, refs[:: step])
    complex_cases(ctx, C, en, refs[:: step])
    checks = order_cases(ctx, C, en, refs[:: step])
    misc_cases(ctx, C, en, refs[:: step])
    model = C.finish()
    check_order(ctx, C, model, checks)
    pipeline(ctx)
    return C
