"""Certificate generator for Props/C07Front (run by hand when the English time regexes or the contract layouts change:
`cd /verif/harness && /venv/bin/python -m lib.timefrontcert`; needs the compiled driver).

For every English layout L of contracts/C07front.json it finds the regex k of `time_regexes` whose exact match hands the
text to `match_to_time`, and for `at_regex` and every regex j <= k the COARSEST partition of the layout's hours (minutes and
seconds 0..59 stay one class each when that works) such that the symbolic evaluation of the Lean front end (driver op
`tf.abs`: one candidate set per position = pointwise union of the renderings of a class) gives a known answer on every
product of classes: `at_regex` hands nothing over, j < k has no exact match, j = k has one with the groups hour / min / sec /
desc on the tokens and no other group.  The classes are found greedily.

Output: lean/RTV/Lemmas/TimeFrontEv<N>.lean (committed) — the abstract strings (`CertT`) and, per (layout, regex), the facts
`coverBT … = true` and `atRejAll / rejAllT / accAllT … = true`, each proved by `decide +kernel` on the REGENERATED regexes
(RTV/Gen/TimeRegexEn.lean); lean/RTV/Lemmas/TimeFrontEvAll.lean collects them into one `LayoutFacts` per layout.  Nothing
here is trusted: a wrong certificate simply does not type-check."""
import os
import re

from . import common
from .common import cps

R_ = lambda a, b: list(range(a, b + 1))
KIND = {'H': 'h', 'h': 'h', 'HH': 'h', 'MM': 'm', 'SS': 's'}
REND = {'H': str, 'h': str, 'HH': lambda v: '%02d' % v, 'MM': lambda v: '%02d' % v, 'SS': lambda v: '%02d' % v}


def toks(row):
    out = [('tok', m.group(1)) if m.group(1) else ('lit', m.group(2)) for m in re.finditer(r'\{(\w+)\}|(.)', row['clock'] + row['sep'])]
    if row['desc']:
        out.append(('desc', row['desc']))
    return out


def absof(tok, cls):
    strs = [REND[tok](x) for x in cls]
    n = len(strs[0])
    if not all(len(s) == n for s in strs):
        return None
    return [sorted({ord(s[p]) for s in strs}) for p in range(n)]


def abstext(L, ch, cm, cs):
    A = []
    for k, v in L:
        if k == 'lit':
            A.append([ord(v)])
        elif k == 'desc':
            A += [[ord(c)] for c in v]
        else:
            a = absof(v, {'h': ch, 'm': cm, 's': cs}[KIND[v]])
            if a is None:
                return None
            A += a
    return A


def spans(L, ch, cm, cs):
    off, sp = 0, {}
    for k, v in L:
        if k == 'lit':
            off += 1
        elif k == 'desc':
            sp['d'] = (off, off + len(v))
            off += len(v)
        else:
            n = len(REND[v]({'h': ch, 'm': cm, 's': cs}[KIND[v]][0]))
            sp.setdefault(KIND[v], (off, off + n))
            off += n
    return sp, off


def enc(A):
    return ';'.join(' '.join(map(str, p)) for p in A)


def want_acc(L, c):
    sp, n = spans(L, *c)
    f = lambda key: ('%d:%d' % sp[key]) if key in sp else '-'
    return '0|%d|%s' % (n, '|'.join(['-'] * 9 + [f('h'), f('m'), f('s'), f('d')] + ['-'] * 4))


def ok_all(L, j, k, Ph, Pm, Ps):
    """j: 'at' or a regex index"""
    combos = [(ch, cm, cs) for ch in Ph for cm in Pm for cs in Ps]
    As = [abstext(L, *c) for c in combos]
    if any(a is None for a in As):
        return False
    outs = common.driver(['tf.abs\t%s\t%s' % (j, enc(a)) for a in As])
    for c, o in zip(combos, outs):
        if j == 'at' or j < k:
            if o != 'none':
                return False
        elif o != want_acc(L, c):
            return False
    return True


def greedy(vals, ok):
    classes = []
    for v in vals:
        for c in classes:
            if ok(c + [v]):
                c.append(v)
                break
        else:
            classes.append([v])
    return classes


def certificates():
    from translate import timeregex
    c = timeregex.load_contract()
    out = []
    for li, row in enumerate(c['layouts']['en-us']):
        L = toks(row)
        lo, hi = row['hours']
        sample = timeregex.render(row, max(lo, 7), 30, 15)
        ans = common.driver(['tf.parse\tascii\t%s' % cps(sample)])[0]
        if not ans.startswith('rx|'):
            raise SystemExit('layout %d %s: the front end does not hand %r over from time_regexes (%s)' % (li, row['template'], sample, ans))
        k = int(ans.split('|')[1])
        certs = []
        for j in ['at'] + list(range(k + 1)):
            fine = [[x] for x in R_(lo, hi)]
            has = {KIND[v] for kk, v in L if kk == 'tok'}
            # one token at a time (the others at their finest / a sample), then the product is checked as a whole
            Pm = greedy(R_(0, 59), lambda cl: ok_all(L, j, k, fine, [cl], [[0]])) if 'm' in has else [R_(0, 59)]
            Ps = greedy(R_(0, 59), lambda cl: ok_all(L, j, k, fine, Pm, [cl])) if 's' in has else [R_(0, 59)]
            Ph = greedy(R_(lo, hi), lambda cl: ok_all(L, j, k, [cl], Pm, Ps))
            if not ok_all(L, j, k, Ph, Pm, Ps):
                raise SystemExit('layout %d %s regex %s: no certificate' % (li, row['template'], j))
            certs.append((j, Ph, Pm, Ps))
        out.append((li, row, k, L, certs))
        print('layout %d %-16s handed over by time_regexes[%d]; abstract texts per regex: %s' % (
            li, row['template'], k, [len(a) * len(b) * len(c_) for _, a, b, c_ in certs]), flush=True)
    return out


def lean_astr(A):
    return '[' + ', '.join('[' + ', '.join(map(str, p)) + ']' for p in A) + ']'


HEAD = ('-- GENERATED by harness/lib/timefrontcert.py (committed; regenerate by hand when the time regexes change).\n'
        'import RTV.Lemmas.TimeFrontCover\nimport RTV.Gen.TimeRegexEn\nimport RTV.Gen.TimeLayoutsEn\n'
        'set_option maxRecDepth 1000000\nnamespace RTV.TimeFront.Ev\n'
        'open RTV.TimeFront RTV.Gen.TimeRegexEn RTV.Gen.TimeLayoutsEn\n\n')

CFG = ('/-- the front-end configuration regenerated from the working tree -/\n'
       'def enFront : Cfg :=\n  { pre := timeTokenPrefix, atRe := atRegex, rs := timeRegexes, amDesc := amDescRegex, pmDesc := pmDescRegex,\n'
       '    amPmDesc := amPmDescRegex }\n\n')


def main(budget=60):
    data = certificates()
    items = []
    for li, row, k, L, certs in data:
        tk = {KIND[v]: v for kk, v in L if kk == 'tok'}
        for j, Ph, Pm, Ps in certs:
            nm = 'L%dR%s' % (li, 'at' if j == 'at' else j)
            what = 'hands nothing over' if j == 'at' else ('exact match' if j == k else 'no exact match')
            t = '/-- layout %d `%s`, %s (%s): %d x %d x %d abstract texts -/\n' % (
                li, row['template'], 'at_regex' if j == 'at' else 'time_regexes[%d]' % j, what, len(Ph), len(Pm), len(Ps))
            t += 'def cert%s : CertT :=\n  ⟨[%s],\n   [%s],\n   [%s]⟩\n' % (
                nm, ', '.join(lean_astr(absof(tk['h'], c)) for c in Ph),
                ', '.join(lean_astr(absof(tk.get('m', 'MM'), c)) for c in Pm),
                ', '.join(lean_astr(absof(tk.get('s', 'SS'), c)) for c in Ps))
            t += 'theorem cover%s : coverBT layout%d.toks layout%d.lo layout%d.hi cert%s = true := by decide +kernel\n' % (nm, li, li, li, nm)
            if j == 'at':
                t += 'theorem rej%s : atRejAll enFront layout%d.toks cert%s = true := by decide +kernel\n\n' % (nm, li, nm)
            elif j == k:
                t += 'theorem acc%s : accAllT enFront %d layout%d.toks cert%s = true := by decide +kernel\n' % (nm, j, li, nm)
                t += 'theorem desc%s : descOK enFront layout%d.toks layout%d.am layout%d.pm = true := by decide +kernel\n\n' % (nm, li, li, li)
            else:
                t += 'theorem rej%s : rejAllT enFront %d layout%d.toks cert%s = true := by decide +kernel\n\n' % (nm, j, li, nm)
            items.append((len(Ph) * len(Pm) * len(Ps) * (3 if j == 'at' else 1), t))
    files, cur, cost = [], '', 0
    for c, t in items:
        if cur and cost + c > budget:
            files.append(cur)
            cur, cost = '', 0
        cur += t
        cost += c
    if cur:
        files.append(cur)
    lem = os.path.join(common.LEAN, 'RTV', 'Lemmas')
    for f in os.listdir(lem):
        if re.fullmatch(r'TimeFrontEv(\d+|All|Cfg)\.lean', f):
            os.remove(os.path.join(lem, f))
    with open(os.path.join(lem, 'TimeFrontEvCfg.lean'), 'w', encoding='utf-8') as f:
        f.write(HEAD + CFG + 'end RTV.TimeFront.Ev\n')
    for n, body in enumerate(files):
        with open(os.path.join(lem, 'TimeFrontEv%d.lean' % n), 'w', encoding='utf-8') as f:
            f.write(HEAD.replace('import RTV.Lemmas.TimeFrontCover\n', 'import RTV.Lemmas.TimeFrontEvCfg\n') + body + 'end RTV.TimeFront.Ev\n')
    t = '-- GENERATED by harness/lib/timefrontcert.py (committed).\n'
    t += ''.join('import RTV.Lemmas.TimeFrontEv%d\n' % n for n in range(len(files)))
    t += ('namespace RTV.TimeFront.Ev\nopen RTV.TimeFront RTV.Gen.TimeRegexEn RTV.Gen.TimeLayoutsEn\n\n'
          '/-- the facts `front_time_all` needs for one layout: `at_regex` hands nothing over, regex `k` has the exact match with the\n'
          'groups on the tokens, the earlier ones have none, the designator is classified as the layout says -/\n'
          'structure LayoutFacts (Y : Layout) (k : Nat) : Prop where\n'
          '  atr : ∃ c : CertT, coverBT Y.toks Y.lo Y.hi c = true ∧ atRejAll enFront Y.toks c = true\n'
          '  rej : ∀ j, j < k → ∃ c : CertT, coverBT Y.toks Y.lo Y.hi c = true ∧ rejAllT enFront j Y.toks c = true\n'
          '  acc : ∃ c : CertT, coverBT Y.toks Y.lo Y.hi c = true ∧ accAllT enFront k Y.toks c = true\n'
          '  desc : descOK enFront Y.toks Y.am Y.pm = true\n\n')
    for li, row, k, L, certs in data:
        t += ('/-- `%s`: handed over by time_regexes[%d] -/\ntheorem facts%d : LayoutFacts layout%d %d := by\n'
              '  refine ⟨⟨certL%dRat, coverL%dRat, rejL%dRat⟩, fun j hj => ?_, ⟨certL%dR%d, coverL%dR%d, accL%dR%d⟩, descL%dR%d⟩\n') % (
            row['template'], k, li, li, k, li, li, li, li, k, li, k, li, k, li, k)
        if k == 0:
            t += '  omega\n\n'
        else:
            t += '  match j, hj with\n'
            for j in range(k):
                t += '  | %d, _ => exact ⟨certL%dR%d, coverL%dR%d, rejL%dR%d⟩\n' % (j, li, j, li, j, li, j)
            t += '\n'
    t += '/-- the regex of `time_regexes` that hands each layout of the contract over, in the order of `layoutsEn` -/\n'
    t += 'def acceptingRegex : List Nat := [%s]\n\n' % ', '.join(str(k) for _, _, k, _, _ in data)
    t += 'end RTV.TimeFront.Ev\n'
    with open(os.path.join(lem, 'TimeFrontEvAll.lean'), 'w', encoding='utf-8') as f:
        f.write(t)
    print('%d evaluation files, %d cost units' % (len(files), sum(c for c, _ in items)))


if __name__ == '__main__':
    main()
