"""The Specs corpus (/repo/Specs/**/*.json) as the repository's own runner (Python/tests/runner.py) reads it.

iter_cases()   every spec case with its suite config: recognizer, model, entity (Model/Extractor/Parser/MergedParser),
               options, language, culture code, Input, Context, Results, supported (not NotSupported/ByDesign for python)
model_inputs() the Python-supported *Model*-level inputs grouped per (recognizer, model, culture):
               [(recognizer, model, culture, input, reference_datetime_or_None)]
"""
import datetime
import glob
import json
import os
import re

from . import common

ENTITY_PATTERN = re.compile('(.*)(Model|Parser|Extractor|Resolver)(.*)')
CULTURES = {
    'Chinese': 'zh-cn', 'Dutch': 'nl-nl', 'English': 'en-us', 'French': 'fr-fr', 'Italian': 'it-it',
    'Japanese': 'ja-jp', 'Korean': 'ko-kr', 'Portuguese': 'pt-br', 'Spanish': 'es-es', 'SpanishMexican': 'es-mx',
    'Turkish': 'tr-tr', 'German': 'de-de',
}


def reference_of(context):
    if not context:
        return None
    ref = context.get('ReferenceDateTime')
    if not ref:
        return None
    m = re.match(r'(\d+)-(\d+)-(\d+)T(\d+):(\d+):(\d+)', ref)
    if not m:
        return None
    return datetime.datetime(*map(int, m.groups()))


def iter_cases():
    root = os.path.join(common.REPO, 'Specs')
    for path in sorted(glob.glob(os.path.join(root, '**', '*.json'), recursive=True)):
        rel = os.path.relpath(path, root).split(os.sep)
        if len(rel) != 3:
            continue
        recognizer, language, fname = rel
        m = ENTITY_PATTERN.search(os.path.splitext(fname)[0])
        if not m or language not in CULTURES:
            continue
        model, entity, options = m.groups()
        if model == 'Merged' and entity == 'Parser':
            entity = 'MergedParser'
        try:
            specs = json.load(open(path, encoding='utf-8-sig'))
        except Exception:
            continue
        for idx, spec in enumerate(specs):
            by_design = 'python' in (spec.get('NotSupportedByDesign') or '')
            not_supported = 'python' in (spec.get('NotSupported') or '')
            yield {'file': os.path.join(*rel), 'index': idx, 'recognizer': recognizer, 'language': language,
                   'culture': CULTURES[language], 'model': model, 'entity': entity, 'options': options,
                   'input': spec.get('Input', ''), 'context': spec.get('Context'),
                   'reference': reference_of(spec.get('Context')), 'results': spec.get('Results'),
                   'supported': not (by_design or not_supported)}


def model_inputs(recognizers=None, supported_only=True):
    out = []
    seen = set()
    for c in iter_cases():
        if recognizers and c['recognizer'] not in recognizers:
            continue
        if supported_only and not c['supported']:
            continue
        key = (c['recognizer'], c['model'], c['culture'], c['input'], c['reference'])
        if key in seen:
            continue
        seen.add(key)
        out.append((c['recognizer'], c['model'], c['culture'], c['input'], c['reference']))
    return out
