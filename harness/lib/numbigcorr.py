"""C04, numerals at and above 10^6 of Spanish, Portuguese, German and Dutch (specification `RTV.Num.spellHuge`,
theorems `Props/C04Big`: `<culture>_cardinal` for every n < 10^15).

Ties (every run), inputs printed by the Lean driver from the very function the theorems are about:
  unit      the multiplier forms in front of a scale noun (`hugeMult`: 1..999, es also 1000..999999): text_number_regex
            yields the specification's tokens, __get_int_value = the multiplier, the model agrees;
            whole numerals: tokenisation tie, __get_int_value vs the model (`n.giv`) vs the denoted integer.
  pipeline  recognize_number on the numeral alone and inside a carrier sentence: one entity, whole span, value n.
Boundary first: 10^k, 10^k +- 1, x * 10^k + y (x in 1 2 21 100 101 999 ..., y in 0 1 11 21 100 101 999 1000 ...), every scale
word in singular and plural, then seeded values with random groups zeroed / set to boundary multipliers."""
from lib import common
from lib.common import cps, uncps

HUGE = {'es-es': 'es', 'pt-br': 'pt', 'de-de': 'de', 'nl-nl': 'nl'}
BOUND = 10 ** 15
XS = [1, 2, 11, 21, 31, 100, 101, 121, 200, 999]
YS = [0, 1, 11, 21, 100, 101, 999, 1000, 1001, 2000, 21000, 100000, 101001, 999999]
GROUP_POOL = [0, 0, 0, 1, 1, 2, 11, 14, 21, 80, 100, 101, 200, 201, 999]


def numbers(ctx):
    r = ctx.rng('numbig')
    ns = set()
    for k in range(6, 15):
        ns.update([10 ** k - 1, 10 ** k, 10 ** k + 1])
        full = ctx.thorough or k % 3 == 0          # the scale-word boundaries get the whole grid
        for x in (XS if full else [1, 2, 21, 999]):
            for y in (YS if full else [0, 1, 999]):
                ns.add(x * 10 ** k + y)
    ns.update([BOUND - 1, 123456789012345, 1001001001001, 1000001000001, 2000000002000, 1001000, 1002000, 1000000001000,
               2000001000, 1200000000, 2001000000, 21021021021021, 101101101101101, 1000000000, 1001000000, 1999000000,
               2000000000, 999999000000, 1000000000000, 1000001000000])
    for _ in range(6000 if ctx.thorough else 260):
        k = r.randint(7, 15)
        n = r.randint(10 ** (k - 1), 10 ** k - 1)
        x = r.random()
        if x < 0.6:
            g = [n // 1000 ** i % 1000 for i in range(5)]
            g = [v if r.random() < 0.5 else r.choice(GROUP_POOL) for v in g]
            n = sum(v * 1000 ** i for i, v in enumerate(g))
        ns.add(n)
    return sorted(n for n in ns if 10 ** 6 <= n < BOUND)


def multipliers(ctx, cu):
    r = ctx.rng('numbig-mult-' + cu)
    gs = set(range(1, 1000) if ctx.thorough else list(range(1, 130)) + list(range(130, 1000, 7)) + [201, 301, 901, 999])
    if cu == 'es-es':
        for k in (1, 2, 21, 100, 101, 999):
            for u in (0, 1, 21, 100, 101, 121, 999):
                gs.add(1000 * k + u)
        for _ in range(1500 if ctx.thorough else 200):
            gs.add(r.randint(1000, 999999))
    return sorted(gs)


import re
_E_UNIT_SCALE = re.compile(r' e (um|dois|três|quatro|cinco|seis|sete|oito|nove) (mil|milhão|milhões|bilhão|bilhões|trilhão|trilhões)$')


def parse_pair(o):
    text, toks = o.split('|')
    return uncps(text), [uncps(t) for t in toks.split(';')] if toks else []


def defect_class(cu, n, text, bad):
    """The word class a recorded finding is keyed by (`bad` = what went wrong: value / span / split / no-entity)."""
    if cu == 'pt-br':
        if bad == 'value' and text.endswith(' e mil'):
            return 'pt-br:cardinal-scale:e-mil'
        if 'catorze' in text:
            return 'pt-br:cardinal:catorze'
        if text.endswith(' e mil'):
            return 'pt-br:cardinal-scale:e-mil'
        if _E_UNIT_SCALE.search(text):
            return 'pt-br:cardinal-scale:e-unit-scale'
        return 'pt-br:cardinal-scale:other'
    if cu == 'es-es':
        m = n // 10 ** 6 % 10 ** 6
        if 1000 <= m < 2000:
            return 'es-es:cardinal-scale:mil-millones'
        return 'es-es:cardinal-scale:other'
    return '%s:cardinal-scale:other' % cu


def run(ctx):
    from corr import numlib
    from corr.c04 import judge, CARRIER, variant, giv_impl
    fx = variant()
    ns = numbers(ctx)
    # ---- unit: multiplier forms
    for cu, w in HUGE.items():
        parser = numlib.models(cu)['number'].parser
        gs = multipliers(ctx, cu)
        forms = [parse_pair(o) for o in common.driver(['nb.mult\t%s\t%d' % (w, g) for g in gs])]
        model = [numlib.canon_model_err(m) for m in common.driver(
            ['n.giv\t%s\t%d\t%s' % (cps(cu), fx, '\t'.join(cps(t) for t in toks)) for _, toks in forms])]
        ctx.count('numbig-multiplier-%s' % cu, len(gs))
        for g, (text, toks), b in zip(gs, forms, model):
            got = [m.group().lower() for m in parser.text_number_regex.finditer(text)]
            if got != toks:
                ctx.report('correspondence', 'tokenise-%s' % cu, 'text_number_regex on multiplier %r: %r, specification tokens %r'
                           % (text, got, toks), failing_input={'culture': cu, 'text': text, 'implementation': got, 'model': toks})
            a, _ = giv_impl(parser, toks)
            if a != b:
                ctx.report('correspondence', 'int-value', '__get_int_value(%r) [%s]: implementation %s, model %s' % (
                    toks, cu, a, b), failing_input={'culture': cu, 'tokens': toks, 'implementation': a, 'model': b, 'denotes': g})
            elif a != str(g):
                ctx.report('property', '%s:multiplier-value' % cu, '__get_int_value(%r) = %s, the multiplier %r denotes %d' % (
                    toks, a, text, g), failing_input={'culture': cu, 'tokens': toks, 'implementation': a, 'denotes': g},
                    property_fails=True)
            else:
                ctx.nontriv(('numbig-mult', cu, g))
    # ---- unit: whole numerals
    table = {}
    for cu, w in HUGE.items():
        for n, o in zip(ns, common.driver(['nb.spell\t%s\t%d' % (w, n) for n in ns])):
            table[(cu, n)] = parse_pair(o)
    keys = list(table)
    model = [numlib.canon_model_err(m) for m in common.driver(
        ['n.giv\t%s\t%d\t%s' % (cps(cu), fx, '\t'.join(cps(t) for t in table[(cu, n)][1])) for cu, n in keys])]
    ctx.count('numbig-int-value', len(keys))
    unit_bad = set()
    for (cu, n), b in zip(keys, model):
        text, toks = table[(cu, n)]
        parser = numlib.models(cu)['number'].parser
        got = [m.group().lower() for m in parser.text_number_regex.finditer(text)]
        if got != toks:
            ctx.report('correspondence', 'tokenise-%s' % cu, 'text_number_regex on %r: %r, specification tokens %r' % (
                text, got, toks), failing_input={'culture': cu, 'text': text, 'implementation': got, 'model': toks})
        a, _ = giv_impl(parser, toks)
        if a != b:
            ctx.report('correspondence', 'int-value', '__get_int_value(%r) [%s]: implementation %s, model %s' % (
                toks, cu, a, b), failing_input={'culture': cu, 'tokens': toks, 'implementation': a, 'model': b, 'denotes': n},
                property_fails=(a != str(n)))
        elif a != str(n):
            unit_bad.add((cu, n))
            ctx.report('property', '%s:value' % defect_class(cu, n, text, 'value'),
                       '__get_int_value(%r) = %s, the numeral %r denotes %d' % (toks, a, text, n),
                       failing_input={'culture': cu, 'tokens': toks, 'query': text, 'implementation': a, 'denotes': n},
                       property_fails=True)
        else:
            ctx.nontriv(('numbig-giv', cu, n))
    # ---- pipeline
    jobs, meta = [], []
    for (cu, n), (text, toks) in table.items():
        for carrier in (False, True):
            q = CARRIER[cu] % text if carrier else text
            jobs.append(('number', cu, q))
            meta.append((cu, n, text, q, q.index(text)))
    results = numlib.run_pipeline(jobs)
    for (cu, n, text, q, off), res in zip(meta, results):
        ctx.count('pipeline-%s-huge' % cu)
        if not isinstance(res, str) and res:
            ctx.nontriv((cu, q))
        bad, detail = judge(res, text, off, n, None)
        if bad:
            ctx.report('property', '%s:%s' % (defect_class(cu, n, text, bad), bad), 'number(%r, %s): %s' % (q, cu, detail),
                       failing_input={'culture': cu, 'model': 'number', 'query': q, 'numeral': text, 'denotes': n,
                                      'result': res}, property_fails=True)
    ctx.extra['numbig_values_per_culture'] = len(ns)
