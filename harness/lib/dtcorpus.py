"""Shared pieces of the C10 / C11 checks: the Specs-derived date-time job list, generated expression families, and
the evaluation of the Lean spec predicates (`wf` driver operation) on real entities."""
import datetime
import hashlib
import json

from . import common, specs, recog, dtpipe
from .common import cps

DEFAULT_REF = datetime.datetime(2016, 11, 7, 0, 0, 0)
EXTRA_REFS = [datetime.datetime(1950, 1, 1, 0, 0, 0), datetime.datetime(1972, 2, 29, 23, 59, 59),
              datetime.datetime(1999, 12, 31, 12, 0, 0), datetime.datetime(2000, 2, 29, 0, 0, 0),
              datetime.datetime(2020, 12, 28, 8, 30, 0), datetime.datetime(2021, 1, 3, 0, 0, 0),
              datetime.datetime(2056, 7, 31, 17, 45, 10), datetime.datetime(2090, 10, 31, 6, 0, 0)]


def dt_cultures():
    return sorted({c for (r, m, c) in recog.all_pairs() if r == 'DateTime'})


def specs_jobs():
    """(culture, input, reference) of every Python-supported DateTime spec case (all entity levels), deduplicated."""
    cultures = set(dt_cultures())
    jobs, seen = [], set()
    for c in specs.iter_cases():
        if c['recognizer'] != 'DateTime' or not c['supported'] or c['culture'] not in cultures:
            continue
        ref = c['reference'] or DEFAULT_REF
        k = (c['culture'], c['input'], ref)
        if k not in seen:
            seen.add(k)
            jobs.append(k)
    return jobs


def input_key(culture, query, ref=None):
    h = hashlib.sha1(query.encode('utf-8')).hexdigest()[:10]
    return '%s:%s' % (culture, h)


def input_key2(culture, query, ref, what):
    """input + reference + a short hash of WHAT failed (audit item 24: `input_key` ignores the reference and the failure, so
    a recorded `triple:` / `shape:` key covered every reference and every failure of the query).  New recorded entries use
    this key; entries recorded under `input_key` stay valid as a fallback, narrowed by findings/sets/<property>/narrow.json to
    what was observed for them on the unchanged tree (vcheck `match_known`)."""
    r = ref.strftime('%Y%m%dT%H%M%S') if hasattr(ref, 'strftime') else str(ref)
    w = hashlib.sha1((what if isinstance(what, str) else json.dumps(what, sort_keys=True, ensure_ascii=False, default=str)
                      ).encode('utf-8')).hexdigest()[:8]
    return '%s:%s:w%s' % (input_key(culture, query), r, w)


def wf_line(ent):
    f = ['wf', cps(ent['type_name']), str(len(ent['values']))]
    for v in ent['values']:
        def fld(k):
            if k not in v:
                return '?'
            x = v[k]
            return cps(x) if isinstance(x, str) else cps('<%s>' % type(x).__name__)
        f += [cps(str(v.get('type', ''))), cps(str(v.get('timex', ''))), fld('value'), fld('start'), fld('end')]
    return '\t'.join(f)


def evaluate_wf(entities, with_sentinel=False):
    """entities: list of entity dicts with non-None 'values' -> list of (typeNameOK, [(shapeOK, definiteOK, tripleOK)])
    (with_sentinel: 4-tuples, the last bit is sentinelOK)"""
    if not entities:
        return []
    out = common.driver([wf_line(e) for e in entities])
    res = []
    n = 4 if with_sentinel else 3
    for o in out:
        parts = o.split(' ')
        res.append((parts[0] == '1', [tuple(b[i] == '1' for i in range(n)) for b in parts[1:]]))
    return res



def evaluate_rdef(entities, strict=False):
    """RTV.DefRange.rangeDefiniteOK (C11, ranges): a `daterange` value without modifier whose TIMEX names a definite calendar
    period (YYYY, YYYY-MM, YYYY-Www, YYYY-Www-WE) lies inside that period — and IS that period when `strict` (the caller knows
    the expression is a plain period such as 'this week'). -> per entity, one bool per value"""
    lines, shape = [], []
    for e in entities:
        n = 0
        for v in e['values']:
            def fld(k):
                x = v.get(k)
                return cps(x) if isinstance(x, str) and x else '?'
            lines.append('rdef\t%d\t%d\t%s\t%s\t%s\t%s' % (1 if 'Mod' in v else 0, 1 if strict else 0, cps(str(v.get('type', ''))) or '-',
                                                         cps(str(v.get('timex', ''))) or '-', fld('start'), fld('end')))
            n += 1
        shape.append(n)
    out = common.driver(lines) if lines else []
    res, i = [], 0
    for n in shape:
        res.append([o == '1' for o in out[i:i + n]])
        i += n
    return res


def period_boundary_jobs(thorough):
    """C11 (ranges): the week / weekend / month / year expressions of the committed C08 contract, in every culture's own
    words, under references around the turn of the year (weeks whose Monday falls on 29-31 December, 1-3 January,
    week 53) and month ends."""
    import json, os
    con = json.load(open(os.path.join(os.path.dirname(os.path.dirname(os.path.dirname(os.path.abspath(__file__)))),
                                      'contracts', 'C08.json'), encoding='utf-8'))['cultures']
    refs = [datetime.datetime(2018, 12, 31, 9, 0, 0), datetime.datetime(2019, 12, 30, 0, 0, 0), datetime.datetime(2019, 12, 29, 23, 59, 59),
            datetime.datetime(2024, 12, 30, 12, 0, 0), datetime.datetime(2025, 12, 29, 0, 0, 0), datetime.datetime(2021, 1, 3, 0, 0, 0),
            datetime.datetime(2020, 12, 28, 8, 30, 0), datetime.datetime(2016, 1, 1, 0, 0, 0), datetime.datetime(2019, 1, 31, 0, 0, 0),
            datetime.datetime(2026, 12, 31, 0, 0, 0)]
    if thorough:
        refs += [datetime.datetime(y, 12, d, 0, 0, 0) for y in range(1951, 2090, 7) for d in (29, 30, 31)] + \
                [datetime.datetime(y, 1, d, 0, 0, 0) for y in range(1952, 2090, 9) for d in (1, 2, 3)]
    jobs = []
    for cul, rows in sorted(con.items()):
        texts = sorted({r['text'] for r in rows if r['family'] in ('week', 'weekend', 'month', 'year')})
        for t in texts:
            for r in refs:
                jobs.append((cul, t, r))
    return jobs


MONTHS = ['January', 'February', 'March', 'April', 'May', 'June', 'July', 'August', 'September', 'October', 'November',
          'December']


def generated_jobs(rng, thorough):
    """English expression families of C06–C10 (+ dates that do not exist), each under several references."""
    exprs = []
    # absolute dates incl. month ends, leap days and dates that do not exist
    for (y, m, d) in [(2019, 5, 5), (2000, 2, 29), (1900, 2, 28), (2099, 12, 31), (1999, 1, 1), (2024, 2, 29),
                      (2019, 2, 30), (2019, 4, 31), (2021, 2, 29), (2019, 13, 1), (2019, 6, 31), (1900, 2, 29)]:
        exprs += ['%04d-%02d-%02d' % (y, m, d), '%d/%d/%d' % (m, d, y)]
        if 1 <= m <= 12:
            exprs += ['%s %d, %d' % (MONTHS[m - 1], d, y), '%s %dth %d' % (MONTHS[m - 1], d, y)]
    exprs += ['February 30', 'Feb 29', 'April 31st', 'the 31st', '31st of June', 'June 31 2020 at 5pm',
              'between February 30 and March 2', 'from 2019-02-28 to 2019-02-30']
    # times
    exprs += ['00:00', '00:30:15', '12:00 am', '12:00 pm', '11:59:59 pm', '23:59', '24:00', '25:00', '7:65', '7 o\'clock',
              'half past 8', 'at 3', 'tomorrow at 00:15', 'today 18:00', 'yesterday noon', 'next Monday 9am']
    # durations and ranges
    exprs += ['3 days', '2 weeks', '5000 years', '1 minute', '90 seconds', '1.5 hours', 'half an hour', 'a month',
              'from January 1 2019 to January 15 2019', 'between 2018-12-30 and 2019-01-02', 'from 9:30 to 11:45',
              'from 3pm to 5pm tomorrow', 'from 11pm to 2am', 'next week', 'last month', 'this year', 'next 3 days',
              'past 2 weeks', 'this weekend', 'rest of the week', 'rest of the month', 'rest of the year', 'early this week',
              'end of next month', 'first week of January', 'last week of 2019', 'Q1 2020', 'summer 2019', 'the 1990s',
              'before 2019-05-05', 'after 3pm', 'since last Monday', 'until tomorrow', 'every Monday', 'each day at 9am',
              'Christmas', 'Thanksgiving 2018', 'Easter', 'new year\'s eve', '2 days ago', 'in 3 weeks', 'a fortnight ago',
              'Monday', 'next Friday', 'last Sunday', 'May 10', 'the 15th', 'tonight', 'this morning', 'tomorrow evening']
    # holidays: k-th weekday of a month, fixed dates, with a year, with next/last/this
    exprs += ['thanksgiving', 'thanksgiving 2018', 'black friday', 'mothers day', "father's day 2018", 'memorial day next year',
              'labor day', 'mlk day', 'christmas eve', 'halloween 2020', "new year's day", 'independence day last year',
              'columbus day', "washington's birthday", 'easter 2019', 'cinco de mayo', 'this christmas']
    # bare-number hour ranges attached to a date: every ordered pair of hours 0..23 (ambiguous / 24-hour / straddling noon)
    hour_tmpls = ['from %d to %d tomorrow', 'between %d and %d on May 5', 'from %d:30 to %d today', 'tomorrow %d-%d']
    hour_exprs = []
    for h1 in range(0, 24):
        for h2 in range(h1 + 1, 24):
            k = (h1 * 24 + h2)
            hour_exprs.append(hour_tmpls[k % len(hour_tmpls)] % (h1, h2))
            if thorough:
                hour_exprs.append(hour_tmpls[(k + 1) % len(hour_tmpls)] % (h1, h2))
    hour_exprs += ['from %dam to %d tomorrow' % (h, h + 5) for h in range(1, 12)] + \
                  ['from %d to %dpm tomorrow' % (h, (h + 3) % 12 or 12) for h in range(1, 12)]
    refs = [DEFAULT_REF] + (EXTRA_REFS if thorough else EXTRA_REFS[:3])
    carriers = ['%s', 'I will be back %s .', 'schedule it for %s please']
    jobs = []
    for e in exprs:
        for r in refs:
            jobs.append(('en-us', carriers[(len(e) + r.year) % len(carriers)] % e, r))
    for i, e in enumerate(hour_exprs):
        jobs.append(('en-us', e, refs[i % len(refs)]))
    # a bare day of the month (no month, no year) under a reference in EVERY month: day 29/30/31 does not exist in some of
    # them — the value must be a valid date or 'not resolved' whatever the month of the reference (per-month length tables)
    month_refs = [datetime.datetime(2019, m, 15, 0, 0, 0) for m in range(1, 13)] + [datetime.datetime(2020, 2, 10, 0, 0, 0),
                                                                                     datetime.datetime(2100, 2, 3, 0, 0, 0)]
    bare_days = [('en-us', ['the 31st', 'the 30th', 'the 29th', 'on the 31st']),
                 ('zh-cn', ['31日', '31号', '三十一号', '30号', '三十号', '29日', '二十九号', '本月31号', '9月31日', '2月30日']),
                 ('es-es', ['el 31', 'el día 30']), ('fr-fr', ['le 31', 'le 30']), ('pt-br', ['dia 31', 'no dia 30']),
                 ('de-de', ['am 31.', 'der 30.']), ('it-it', ['il 31', 'il 30']), ('nl-nl', ['de 31e', 'de 30e'])]
    for cul, es in bare_days:
        for e in es:
            for r in month_refs:
                jobs.append((cul, e, r))
    return jobs
