"""Certificate generator for Props/C06Front and Props/C06Front<Cul> (run by hand when the date regexes of a culture or the
contract layouts change: `cd /verif/harness && /venv/bin/python -m lib.datefrontcert [culture …]`, default en-us; needs the
compiled driver).  Other cultures than English (es-es, fr-fr, pt-br, de-de; es-mx shares the es-es files): driver op
`dfc.abs <culture>`, Latin-1 reference tables, the day group may extend over the literal characters after the day token
(`dext`: German `5.`, French `1er`), a `{d1er}` layout is certified for day 1 only; output
lean/RTV/Lemmas/DateFrontEv<Cul><N>.lean + DateFrontEv<Cul>All.lean over Lemmas/DateFrontCoverX (`LayoutFactsL`).

For every English layout L of contracts/C06.json and every regex j up to the regex k that accepts L's dates, it looks for
the COARSEST partition of the years 1900..2099, the months 1..12 and the days 1..31 such that the symbolic evaluation of
the Lean front end (driver op `df.abs`: one candidate set per position = pointwise union of the renderings of a class)
gives a known answer on every product of classes: `reject` for j < k, `accept with the groups on the tokens` for j = k.
The classes are found greedily (a value joins the first class that keeps every evaluation known and right).

Output: lean/RTV/Lemmas/DateFrontEv<N>.lean (committed) — the abstract strings (`Cert`) and, per (layout, regex), the two
facts `coverB … = true` and `rejAll/accAll … = true`, each proved by `decide +kernel` on the REGENERATED regex list
(RTV/Gen/DateRegexEn.lean); files are cut so that each builds in about a minute.  lean/RTV/Lemmas/DateFrontEvAll.lean
collects them into one table per layout.  Nothing here is trusted: a wrong certificate simply does not type-check."""
import json
import os
import re

from . import common

R_ = lambda a, b: list(range(a, b + 1))


def ordinal(d):
    return str(d) + ('th' if 11 <= d % 100 <= 13 else {1: 'st', 2: 'nd', 3: 'rd'}.get(d % 10, 'th'))


SUFFIX = {'en-us': 'En', 'es-es': 'Es', 'fr-fr': 'Fr', 'pt-br': 'Pt', 'de-de': 'De', 'it-it': 'It', 'nl-nl': 'Nl'}


def load(culture='en-us'):
    c = json.load(open(os.path.join(common.VERIF, 'contracts', 'C06.json'), encoding='utf-8'))
    return c, c['months'][culture], c['abbr'].get(culture, [''] * 12)


KIND = {'y': 'y', 'm': 'm', 'm02': 'm', 'mon': 'm', 'abbr': 'm', 'd': 'd', 'd02': 'd', 'dord': 'd'}


def toks(t):
    return [('tok', m.group(1)) if m.group(1) else ('lit', m.group(2)) for m in re.finditer(r'\{(\w+)\}|(.)', t)]


class Gen:
    def __init__(self, culture='en-us'):
        self.culture = culture
        self.en = culture == 'en-us'
        self.c, self.mon, self.abbr = load(culture)
        if not self.en:
            from translate import dateregex
            self.prefix = dateregex.collect(culture)['prefix']
        self.rend = {'y': str, 'm': str, 'm02': lambda v: '%02d' % v, 'd': str, 'd02': lambda v: '%02d' % v,
                     'mon': lambda v: self.mon[v - 1], 'abbr': lambda v: self.abbr[v - 1], 'dord': ordinal}

    def absof(self, tok, cls):
        strs = [self.rend[tok](x) for x in cls]
        n = len(strs[0])
        if not all(len(s) == n for s in strs):
            return None
        return [sorted({ord(s[p]) for s in strs}) for p in range(n)]

    def abstext(self, L, cy, cm, cd):
        A = []
        for k, v in L:
            if k == 'lit':
                A.append([ord(v)])
            else:
                a = self.absof(v, {'y': cy, 'm': cm, 'd': cd}[KIND[v]])
                if a is None:
                    return None
                A += a
        return A

    def spans(self, L, cy, cm, cd):
        off, sp = 0, {}
        for k, v in L:
            if k == 'lit':
                off += 1
            else:
                n = len(self.rend[v]({'y': cy, 'm': cm, 'd': cd}[KIND[v]][0]))
                sp[KIND[v]] = (off, off + n)
                off += n
        return sp, off

    @staticmethod
    def enc(A):
        return ';'.join(' '.join(map(str, p)) for p in A)

    def op(self, j, A):
        if self.en:
            return 'df.abs\t%s\t%s' % (j, self.enc(A))
        return 'dfc.abs\t%s\t%s\t%s' % (self.culture, j, self.enc(A))

    def ok_all(self, L, j, k, Py, Pm, Pd, dext=0):
        combos = [(cy, cm, cd) for cy in Py for cm in Pm for cd in Pd]
        As = [self.abstext(L, *c) for c in combos]
        if any(a is None for a in As):
            return False
        outs = common.driver([self.op(j, a) for a in As])
        for c, o in zip(combos, outs):
            if j < k:
                if o != 'none':
                    return False
            else:
                sp, n = self.spans(L, *c)
                want = '0|0|%d|%d:%d|%d:%d|%d:%d|-|-' % (n, sp['y'][0], sp['y'][1], sp['m'][0], sp['m'][1], sp['d'][0],
                                                         sp['d'][1] + dext)
                if o != want:
                    return False
        return True

    @staticmethod
    def greedy(vals, ok):
        classes = []
        for v in vals:
            for c in classes:
                if ok(c + [v]):
                    c.append(v)
                    break
            else:
                classes.append([v])
        return classes

    # ---- other cultures: rejection start position by start position (Lemmas/DateFrontCoverX `rejPosB`)

    def by_length(self, tok, vals):
        groups = {}
        for v in vals:
            groups.setdefault(len(self.rend[tok](v)), []).append(v)
        return [groups[n] for n in sorted(groups)]

    def pos_cert(self, L, j, days, tag):
        """-> (maxLen, tpos, ppos, cost): per start position the cheapest partition (Py, Pm, Pd) on which every attempt of regex j
        is known and not an accepting match"""
        mtok = [v for kk, v in L if kk == 'tok' and KIND[v] == 'm'][0]
        dtok = [v for kk, v in L if kk == 'tok' and KIND[v] == 'd'][0]
        ycands = [[R_(1900, 2099)], [R_(1900, 1999), R_(2000, 2099)],
                  [R_(a, a + 9) for a in range(1900, 2100, 10)], [[a] for a in R_(1900, 2099)]]
        mcands = [self.by_length(mtok, R_(1, 12)), [[i] for i in R_(1, 12)]]
        dcands = [self.by_length(dtok, days), [[i] for i in days]]
        if len(days) > 1:
            # middle: same length and same first character
            mid = {}
            for v in days:
                r = self.rend[dtok](v)
                mid.setdefault((len(r), r[0]), []).append(v)
            dcands.insert(1, [mid[key] for key in sorted(mid)])
        combos = [(py, pm, pd) for py in ycands for pm in mcands for pd in dcands]
        combos.sort(key=lambda c: len(c[0]) * len(c[1]) * len(c[2]))
        pre = len(self.prefix)
        maxlen = max(len(self.abstext(L, [2019], [m], [d])) for m in R_(1, 12) for d in days)
        tpos, ppos = [None] * (maxlen + 1), [None] * (pre + maxlen + 1)
        cost = 0.0
        for combo in combos:
            if all(x is not None for x in tpos + ppos):
                break
            texts = [self.abstext(L, cy, cm, cd) for cy in combo[0] for cm in combo[1] for cd in combo[2]]
            outs = common.driver(['dfc.abspos\t%s\t%d\t%s' % (self.culture, j, self.enc(a)) for a in texts])
            for which, slots, off in (('T', tpos, 0), ('P', ppos, pre)):
                for p in range(len(slots)):
                    if slots[p] is not None:
                        continue
                    ok, c = True, 0.0
                    for a, o in zip(texts, outs):
                        letters = o.split('|')[0 if which == 'T' else 1]
                        if p >= len(letters):
                            continue
                        if letters[p] not in 'fb':
                            ok = False
                            break
                        c += 1.2 if letters[p] == 'b' else 0.6
                    if ok:
                        slots[p] = combo
                        cost += c + 0.05
        missing = [('T', p) for p, x in enumerate(tpos) if x is None] + [('P', p) for p, x in enumerate(ppos) if x is None]
        if missing:
            raise SystemExit('%s regex %d: no rejection certificate at start positions %s' % (tag, j, missing))
        cost += 3.0 * len({id(c) for c in tpos + ppos})
        return maxlen, tpos, ppos, cost

    def certificates(self):
        """-> [(layout index, template, k, L, [(j, Py, Pm, Pd)])]; other cultures: also self.info[layout index] =
        (days, dext) — the days the layout applies to and the literal text after the day token that belongs to the day group"""
        out = []
        self.info = {}
        for li, row in enumerate(self.c['layouts'][self.culture]):
            tpl = row['template']
            days = R_(1, 31)
            if '{d1er}' in tpl:
                if self.en:
                    continue
                tpl, days = tpl.replace('{d1er}', '{d}er'), [1]
            L = toks(tpl)
            d0 = 5 if 5 in days else days[0]
            ans = common.driver([self.op('all', self.abstext(L, [2019], [3], [d0]))])[0]
            if ans in ('none', 'unk'):
                raise SystemExit('layout %d %s: the front end does not accept 2019-03-%02d (%s)' % (li, row['template'], d0, ans))
            k = int(ans.split('|')[0])
            sp, _ = self.spans(L, [2019], [3], [d0])
            dend = int(ans.split('|')[6].split(':')[1])
            dext = dend - sp['d'][1]
            text = ''.join(chr(p[0]) for p in self.abstext(L, [2019], [3], [d0]))
            if dext < 0 or (dext and self.en):
                raise SystemExit('layout %d %s: day group %s does not start on the day token' % (li, row['template'], ans))
            self.info[li] = (days, text[sp['d'][1]:dend])
            certs = []
            for j in range(k + 1):
                if j < k and not self.en:
                    certs.append((j, 'pos', self.pos_cert(L, j, days, 'layout %d %s' % (li, row['template'])), None))
                    continue
                Py, Pm, Pd = [R_(1900, 1999), R_(2000, 2099)], [[i] for i in R_(1, 12)], [[i] for i in days]
                if not self.ok_all(L, j, k, Py, Pm, Pd, dext):
                    raise SystemExit('layout %d %s regex %d: no certificate at the finest partition' % (li, row['template'], j))
                Pd = self.greedy(days, lambda c: self.ok_all(L, j, k, Py, Pm, [c], dext))
                Pm = self.greedy(R_(1, 12), lambda c: self.ok_all(L, j, k, Py, [c], Pd, dext))
                if self.ok_all(L, j, k, [R_(1900, 2099)], Pm, Pd, dext):
                    Py = [R_(1900, 2099)]
                assert self.ok_all(L, j, k, Py, Pm, Pd, dext)
                certs.append((j, Py, Pm, Pd))
            out.append((li, row['template'], k, L, certs))
            print('layout %d %-22s accepted by regex %d; abstract texts per regex: %s' % (
                li, row['template'], k, [('pos:%d' % round(b[3])) if a == 'pos' else len(a) * len(b) * len(c) for _, a, b, c in certs]), flush=True)
        return out


def lean_astr(A):
    return '[' + ', '.join('[' + ', '.join(map(str, p)) + ']' for p in A) + ']'


HEAD = ('-- GENERATED by harness/lib/datefrontcert.py (committed; regenerate by hand when the date regexes change).\n'
        'import RTV.Lemmas.DateFrontCover\nimport RTV.Gen.DateRegexEn\nimport RTV.Gen.DateLayoutsEn\n'
        'set_option maxRecDepth 1000000\nnamespace RTV.DateFront.Ev\n'
        'open RTV.DateFront RTV.Gen.DateRegexEn RTV.Gen.DateLayoutsEn\n\n')

HEADX = ('-- GENERATED by harness/lib/datefrontcert.py %(cul)s (committed; regenerate by hand when the date regexes change).\n'
         'import RTV.Lemmas.DateFrontCoverX\nimport RTV.Gen.DateRegex%(suf)s\nimport RTV.Gen.DateLayouts%(suf)s\n'
         'set_option maxRecDepth 1000000\nnamespace RTV.DateFront.Ev%(suf)s\n'
         'open RTV.DateFront RTV.Gen.DateRegex%(suf)s RTV.Gen.DateLayouts%(suf)s\n\n')


ACC_SPLIT = 130     # abstract texts per acceptance theorem (other cultures; about 0.2-0.4 s of kernel time each)


def lean_str(s):
    return '[' + ', '.join(str(ord(ch)) for ch in s) + ']'


PROPS = '''import RTV.Props.C06FrontX
import RTV.Lemmas.DateFrontEv%(suf)sAll
import RTV.Gen.DtMapsX1
import RTV.Gen.DtMapsX2
/-!
# C06, front end — %(cul)s: from the TEXT of a date to TIMEX = value = that date, by theorem

(Skeleton written by harness/lib/datefrontcert.py %(cul)s, witnesses by hand; see Props/C06FrontX.lean for the method.)
`parse_basic_regex_match` of the %(lang)s configuration — the regenerated `date_regex` list (RTV/Gen/DateRegex%(suf)s.lean, %(nrx)d
patterns, token prefix `%(prefix)s`) — applied to the text of a date in ANY layout of `contracts/C06.json["layouts"]["%(cul)s"]`
(RTV/Gen/DateLayouts%(suf)s.lean; the day comes first: `5/12/2010` is 5 December) hands `match_to_date` the year / month / day
the text was rendered from, and the entity is that date — every year 1900..2099 (digits symbolic), every month, every day.
The evaluated part: RTV/Lemmas/DateFrontEv%(suf)s*.lean (acceptance: abstract texts; rejection by the earlier regexes: start
position by start position).  `token_tables_%(low)s`: the month / day tokens of the layouts are keys of the regenerated
`MonthOfYear` / `DayOfMonth` of the culture with the right numbers.
-/
namespace RTV.DateFront
open RTV.Re RTV.Py RTV.DtRes RTV.Gen.DateRegex%(suf)s RTV.Gen.DateLayouts%(suf)s RTV.Gen.DtMaps

/-- the month tokens (`3`, `03`, month name) / day tokens (with the literal suffix the day group takes along) of every layout
are keys of the regenerated `MonthOfYear` / `DayOfMonth` of %(cul)s with that month / day -/
theorem token_tables_%(low)s :
    ((layouts%(suf)s.zip (Ev%(suf)s.dexts.take layouts%(suf)s.length)).all fun p =>
      monthToksOK names%(suf)s monthOfYear_%(tab)s p.1 && dayToksOK names%(suf)s dayOfMonth_%(tab)s p.1 p.2 days31) = true := by
  decide +kernel

/-- every layout of the contract has its evaluated facts and its token checks -/
theorem layouts_have_facts_%(low)s : ∀ L ∈ layouts%(suf)s, ∃ dext k,
    LayoutFactsL names%(suf)s dateRegexes dateTokenPrefix days31 L dext k ∧
    monthToksOK names%(suf)s monthOfYear_%(tab)s L = true ∧ dayToksOK names%(suf)s dayOfMonth_%(tab)s L dext days31 = true := by
  intro L hL
  simp only [layouts%(suf)s, List.mem_cons, List.mem_nil_iff, or_false] at hL
  rcases hL with %(rfls)s
%(cases)s
/-- the contract has these layouts, and which regex accepts each -/
theorem layouts_count_%(low)s : layouts%(suf)s.length = %(nlay)d ∧ Ev%(suf)s.acceptingRegex = [%(acc)s] := by decide

/-- FRONT END → DECODE (%(cul)s): the groups the front end yields on a rendered date satisfy `Decodes` for that date. -/
theorem front_decodes_%(low)s {T : Tables} (hT : LatinAgree T) {u : Uni} (hu : TextUni u) (L : List Tok) (hL : L ∈ layouts%(suf)s)
    (y m d : Nat) (hy : 1900 ≤ y ∧ y ≤ 2099) (hm : 1 ≤ m ∧ m ≤ 12) (hd : 1 ≤ d ∧ d ≤ 31) :
    ∃ h g, parseBasic T u dateTokenPrefix dateRegexes (renderL names%(suf)s L y m d) = some (some (h, g)) ∧
      Decodes u (genCfg monthOfYear_%(tab)s dayOfMonth_%(tab)s) g y m d := by
  obtain ⟨dext, k, hf, hmt, hdt⟩ := layouts_have_facts_%(low)s L hL
  obtain ⟨h, g, hp, _, hdec⟩ := front_decodes_gen hT hu hf hmt hdt y m d hy hm ((mem_days31 d).2 hd)
  exact ⟨h, g, hp, hdec⟩

/-- C06 FOR THE TEXT (%(cul)s). A fully specified date `y-m-d`, 1900 ≤ y ≤ 2099, that exists in the calendar, written in ANY
layout of the contract: `parse_basic_regex_match` on the regenerated regexes, `match_to_date`, `BaseDateParser.parse` and
`_date_time_resolution` yield exactly one value of type `date` whose TIMEX and value are `YYYY-MM-DD` — for every reference
`R`, every written-year oracle `wy`, every engine table that agrees with `latinTables` below 256. -/
theorem front_abs_date_%(low)s {T : Tables} (hT : LatinAgree T) {u : Uni} (hu : TextUni u) (L : List Tok) (hL : L ∈ layouts%(suf)s)
    (y m d : Nat) (hy : 1900 ≤ y ∧ y ≤ 2099) (hv : (⟨y, m, d⟩ : RTV.Cal.Date).valid = true) (wy : Int) (R : DT) :
    frontResolve T u (genCfg monthOfYear_%(tab)s dayOfMonth_%(tab)s) dateTokenPrefix dateRegexes (renderL names%(suf)s L y m d) wy R =
      .ok (some [{ timex := ymd y m d, type := sDate, value := some (ymd y m d) }]) := by
  obtain ⟨dext, k, hf, hmt, hdt⟩ := layouts_have_facts_%(low)s L hL
  exact front_abs_date_gen hT hu hf hmt hdt y m d hy hv (valid_day31 y m d hv) wy R

/-- … with the tables of the running `regex` module -/
theorem front_abs_date_engine_%(low)s {u : Uni} (hu : TextUni u) (L : List Tok) (hL : L ∈ layouts%(suf)s)
    (y m d : Nat) (hy : 1900 ≤ y ∧ y ≤ 2099) (hv : (⟨y, m, d⟩ : RTV.Cal.Date).valid = true) (wy : Int) (R : DT) :
    frontResolve RTV.Gen.reTables u (genCfg monthOfYear_%(tab)s dayOfMonth_%(tab)s) dateTokenPrefix dateRegexes
        (renderL names%(suf)s L y m d) wy R =
      .ok (some [{ timex := ymd y m d, type := sDate, value := some (ymd y m d) }]) :=
  front_abs_date_%(low)s retables_latin hu L hL y m d hy hv wy R
%(day1)s
end RTV.DateFront
'''

DAY1 = '''
/-- the layouts of the contract that are the text of day 1 only (`1er`) -/
theorem layouts_have_facts_%(low)s_day1 : ∀ L ∈ layouts%(suf)sDay1, ∃ dext k,
    LayoutFactsL names%(suf)s dateRegexes dateTokenPrefix [1] L dext k ∧
    monthToksOK names%(suf)s monthOfYear_%(tab)s L = true ∧ dayToksOK names%(suf)s dayOfMonth_%(tab)s L dext [1] = true := by
  intro L hL
  simp only [layouts%(suf)sDay1, List.mem_cons, List.mem_nil_iff, or_false] at hL
  rcases hL with %(rfls1)s
%(cases1)s
/-- C06 FOR THE TEXT (%(cul)s), first of the month written `1er`: every year 1900..2099, every month, day 1. -/
theorem front_abs_date_%(low)s_day1 {T : Tables} (hT : LatinAgree T) {u : Uni} (hu : TextUni u) (L : List Tok)
    (hL : L ∈ layouts%(suf)sDay1) (y m : Nat) (hy : 1900 ≤ y ∧ y ≤ 2099) (hm : 1 ≤ m ∧ m ≤ 12) (wy : Int) (R : DT) :
    frontResolve T u (genCfg monthOfYear_%(tab)s dayOfMonth_%(tab)s) dateTokenPrefix dateRegexes (renderL names%(suf)s L y m 1) wy R =
      .ok (some [{ timex := ymd y m 1, type := sDate, value := some (ymd y m 1) }]) := by
  obtain ⟨dext, k, hf, hmt, hdt⟩ := layouts_have_facts_%(low)s_day1 L hL
  have hv : (⟨y, m, 1⟩ : RTV.Cal.Date).valid = true := by
    rw [RTV.Cal.valid_iff]
    refine ⟨by show 1 ≤ y; omega, by show y ≤ 9999; omega, hm.1, hm.2, Nat.le_refl 1, ?_⟩
    show 1 ≤ RTV.Cal.daysInMonth y m
    obtain ⟨h1, h2⟩ := hm
    have : m = 1 ∨ m = 2 ∨ m = 3 ∨ m = 4 ∨ m = 5 ∨ m = 6 ∨ m = 7 ∨ m = 8 ∨ m = 9 ∨ m = 10 ∨ m = 11 ∨ m = 12 := by omega
    rcases this with rfl | rfl | rfl | rfl | rfl | rfl | rfl | rfl | rfl | rfl | rfl | rfl <;>
      simp only [RTV.Cal.daysInMonth] <;> (try split) <;> omega
  exact front_abs_date_gen hT hu hf hmt hdt y m 1 hy hv (by simp) wy R
'''

TABS = {'es-es': 'es', 'fr-fr': 'fr', 'pt-br': 'pt', 'de-de': 'de', 'it-it': 'it', 'nl-nl': 'nl'}
LANG = {'es-es': 'Spanish', 'fr-fr': 'French', 'pt-br': 'Portuguese', 'de-de': 'German', 'it-it': 'Italian', 'nl-nl': 'Dutch'}


def props_file(culture, suf, g, data, outdir=None):
    """lean/RTV/Props/C06Front<Cul>.lean — written only when it does not exist (hand-written witnesses are added to it)"""
    path = os.path.join(outdir or os.path.join(common.LEAN, 'RTV', 'Props'), 'C06Front%s.lean' % suf)
    if os.path.exists(path):
        return
    reg = [(li, k) for li, tpl, k, L, certs in data if g.info[li][0] == R_(1, 31)]
    one = [(li, k) for li, tpl, k, L, certs in data if g.info[li][0] != R_(1, 31)]
    fill = {'suf': suf, 'cul': culture, 'low': suf.lower(), 'tab': TABS[culture], 'lang': LANG[culture], 'prefix': g.prefix,
            'nrx': len(__import__('translate.dateregex', fromlist=['x']).collect(culture)['entries']),
            'rfls': ' | '.join(['rfl'] * len(reg)), 'nlay': len(reg), 'acc': ', '.join(str(k) for _, _, k, _, _ in data),
            'cases': ''.join('  · exact ⟨_, _, Ev%s.facts%d, by decide +kernel, by decide +kernel⟩\n' % (suf, li) for li, _ in reg),
            'rfls1': ' | '.join(['rfl'] * len(one)),
            'cases1': ''.join('  · exact ⟨_, _, Ev%s.facts%d, by decide +kernel, by decide +kernel⟩\n' % (suf, li) for li, _ in one)}
    fill['day1'] = (DAY1 % fill) if one else ''
    with open(path, 'w', encoding='utf-8') as f:
        f.write(PROPS % fill)


def main(budget=330, culture='en-us', outdir=None):
    g = Gen(culture)
    en = g.en
    suf = '' if en else SUFFIX[culture]
    data = g.certificates()
    items = []     # (cost, text, layout, j, k)
    joined = {}    # (layout, j) -> text for the All file: an acceptance certificate put together from its pieces
    for li, tpl, k, L, certs in data:
        mtok = [v for kk, v in L if kk == 'tok' and KIND[v] == 'm'][0]
        dtok = [v for kk, v in L if kk == 'tok' and KIND[v] == 'd'][0]
        days, dext = g.info[li]
        daysL = 'days31' if days == R_(1, 31) else '[%s]' % ', '.join(map(str, days))
        for j, Py, Pm, Pd in certs:
            nm = 'L%dR%d' % (li, j)
            if Py == 'pos':
                maxlen, tpos, ppos, cost = Pm
                distinct = []
                for combo in tpos + ppos:
                    if combo not in distinct:
                        distinct.append(combo)
                t = '/-- layout %d `%s`, regex %d (rejects), start position by start position: %d + %d positions, %d distinct partitions -/\n' % (
                    li, tpl, j, len(tpos), len(ppos), len(distinct))
                for ci, (cy, cm, cd) in enumerate(distinct):
                    t += 'def cert%sP%d : Cert :=\n  ⟨[%s],\n   [%s],\n   [%s]⟩\n' % (
                        nm, ci, ', '.join(lean_astr(g.absof('y', c)) for c in cy), ', '.join(lean_astr(g.absof(mtok, c)) for c in cm),
                        ', '.join(lean_astr(g.absof(dtok, c)) for c in cd))
                t += 'def cert%s : PosCert :=\n  ⟨%d, [%s],\n   [%s],\n   [%s]⟩\n' % (
                    nm, maxlen, ', '.join('cert%sP%d' % (nm, ci) for ci in range(len(distinct))),
                    ', '.join(str(distinct.index(c)) for c in tpos), ', '.join(str(distinct.index(c)) for c in ppos))
                t += 'theorem rej%s : rejPosB names%s dateRegexes dateTokenPrefix %d layout%d %s cert%s = true := by decide +kernel\n\n' % (
                    nm, suf, j, li, daysL, nm)
                items.append((cost, t, li, j, k))
                continue
            t = '/-- layout %d `%s`, regex %d (%s): %d x %d x %d abstract texts -/\n' % (
                li, tpl, j, 'accepts' if j == k else 'rejects', len(Py), len(Pm), len(Pd))
            t += 'def cert%s : Cert :=\n  ⟨[%s],\n   [%s],\n   [%s]⟩\n' % (
                nm, ', '.join(lean_astr(g.absof('y', c)) for c in Py), ', '.join(lean_astr(g.absof(mtok, c)) for c in Pm),
                ', '.join(lean_astr(g.absof(dtok, c)) for c in Pd))
            if en:
                t += 'theorem cover%s : coverB namesEn layout%d cert%s = true := by decide +kernel\n' % (nm, li, nm)
                if j == k:
                    t += 'theorem acc%s : accAll dateRegexes dateTokenPrefix %d layout%d cert%s = true := by decide +kernel\n\n' % (nm, j, li, nm)
                else:
                    t += 'theorem rej%s : rejAll dateRegexes dateTokenPrefix %d layout%d cert%s = true := by decide +kernel\n\n' % (nm, j, li, nm)
            else:
                per = len(Py) * len(Pd)
                if j == k and per * len(Pm) > ACC_SPLIT and len(Pm) > 1:
                    # the month classes in pieces of at most ACC_SPLIT abstract texts; put together in DateFrontEv<Cul>All
                    step = max(1, ACC_SPLIT // per)
                    chunks = [Pm[a:a + step] for a in range(0, len(Pm), step)]
                    for ci, ch in enumerate(chunks):
                        cn = '%s%s' % (nm, chr(97 + ci))
                        tt = '/-- layout %d `%s`, regex %d (accepts), piece %d of %d: %d x %d x %d abstract texts -/\n' % (
                            li, tpl, j, ci + 1, len(chunks), len(Py), len(ch), len(Pd))
                        tt += 'def cert%s : Cert :=\n  ⟨[%s],\n   [%s],\n   [%s]⟩\n' % (
                            cn, ', '.join(lean_astr(g.absof('y', c)) for c in Py), ', '.join(lean_astr(g.absof(mtok, c)) for c in ch),
                            ', '.join(lean_astr(g.absof(dtok, c)) for c in Pd))
                        tt += 'theorem acc%s : accAllL dateRegexes dateTokenPrefix %d layout%d %s cert%s = true := by decide +kernel\n\n' % (
                            cn, j, li, lean_str(dext), cn)
                        items.append((per * len(ch), tt, li, j, k))
                    names = ['%s%s' % (nm, chr(97 + ci)) for ci in range(len(chunks))]
                    ms = 'cert%s.ms' % names[-1]
                    proof = 'acc%s' % names[-1]
                    for cn in reversed(names[:-1]):
                        proof = 'accAllL_append _ _ _ _ _ cert%s.ys cert%s.ds _ _ acc%s (%s)' % (names[0], names[0], cn, proof)
                        ms = 'cert%s.ms ++ (%s)' % (cn, ms)
                    joined[(li, j)] = (
                        'def cert%s : Cert := ⟨cert%s.ys, %s, cert%s.ds⟩\n' % (nm, names[0], ms, names[0]) +
                        'theorem cover%s : coverBL names%s layout%d %s cert%s = true := by decide +kernel\n' % (nm, suf, li, daysL, nm) +
                        'theorem acc%s : accAllL dateRegexes dateTokenPrefix %d layout%d %s cert%s = true :=\n  %s\n\n' % (
                            nm, j, li, lean_str(dext), nm, proof))
                    continue
                t += 'theorem cover%s : coverBL names%s layout%d %s cert%s = true := by decide +kernel\n' % (nm, suf, li, daysL, nm)
                if j == k:
                    t += 'theorem acc%s : accAllL dateRegexes dateTokenPrefix %d layout%d %s cert%s = true := by decide +kernel\n\n' % (
                        nm, j, li, lean_str(dext), nm)
                else:
                    raise AssertionError('whole-search rejection certificates are English only')
            items.append((len(Py) * len(Pm) * len(Pd) * (1 if j == k else 6), t, li, j, k))
    # cut into files of about `budget` cost units (an accepted abstract text = 1, a rejected one = 6: `search` walks every
    # start position of the text and of prefix + text)
    files, cur, cost = [], '', 0
    for c, t, li, j, k in items:
        if cur and cost + c > budget:
            files.append(cur)
            cur, cost = '', 0
        cur += t
        cost += c
    if cur:
        files.append(cur)
    lem = outdir or os.path.join(common.LEAN, 'RTV', 'Lemmas')
    for f in os.listdir(lem):
        if re.fullmatch(r'DateFrontEv%s(\d+|All)\.lean' % suf, f):
            os.remove(os.path.join(lem, f))
    head = HEAD if en else HEADX % {'cul': culture, 'suf': suf}
    for n, body in enumerate(files):
        with open(os.path.join(lem, 'DateFrontEv%s%d.lean' % (suf, n)), 'w', encoding='utf-8') as f:
            f.write(head + body + 'end RTV.DateFront.Ev%s\n' % suf)
    # the table: per layout the accepting regex, the certificates and the facts about them
    t = '-- GENERATED by harness/lib/datefrontcert.py%s (committed).\n' % ('' if en else ' ' + culture)
    t += ''.join('import RTV.Lemmas.DateFrontEv%s%d\n' % (suf, n) for n in range(len(files)))
    if en:
        t += ('namespace RTV.DateFront.Ev\nopen RTV.DateFront RTV.Gen.DateRegexEn RTV.Gen.DateLayoutsEn\n\n'
              '/-- the facts `front_all` needs for one layout: regex `k` accepts, the earlier ones reject -/\n'
              'structure LayoutFacts (L : List Tok) (k : Nat) : Prop where\n'
              '  rej : ∀ j, j < k → ∃ c : Cert, coverB namesEn L c = true ∧ rejAll dateRegexes dateTokenPrefix j L c = true\n'
              '  acc : ∃ c : Cert, coverB namesEn L c = true ∧ accAll dateRegexes dateTokenPrefix k L c = true\n\n')
    else:
        t += ('namespace RTV.DateFront.Ev%s\nopen RTV.DateFront RTV.Gen.DateRegex%s RTV.Gen.DateLayouts%s\n\n' % (suf, suf, suf))
    for key in sorted(joined):
        t += joined[key]
    for li, tpl, k, L, certs in data:
        if en:
            t += '/-- `%s`: accepted by date_regex[%d] -/\ntheorem facts%d : LayoutFacts layout%d %d := by\n  refine ⟨fun j hj => ?_, ⟨certL%dR%d, coverL%dR%d, accL%dR%d⟩⟩\n' % (
                tpl, k, li, li, k, li, k, li, k, li, k)
        else:
            days, dext = g.info[li]
            daysL = 'days31' if days == R_(1, 31) else '[%s]' % ', '.join(map(str, days))
            t += ('/-- `%s`: accepted by date_regex[%d]%s -/\ntheorem facts%d : LayoutFactsL names%s dateRegexes dateTokenPrefix %s layout%d %s %d := by\n'
                  '  refine ⟨fun j hj => ?_, ⟨certL%dR%d, coverL%dR%d, accL%dR%d⟩⟩\n') % (
                tpl, k, (', the day group is the day token + `%s`' % dext) if dext else '', li, suf, daysL, li, lean_str(dext), k,
                li, k, li, k, li, k)
        if k == 0:
            t += '  omega\n\n'
        else:
            t += '  match j, hj with\n'
            for j in range(k):
                if en:
                    t += '  | %d, _ => exact ⟨certL%dR%d, coverL%dR%d, rejL%dR%d⟩\n' % (j, li, j, li, j, li, j)
                else:
                    t += '  | %d, _ => exact ⟨certL%dR%d, rejL%dR%d⟩\n' % (j, li, j, li, j)
            t += '\n'
    t += '/-- accepting regex of every layout of the contract, in the order of `layouts%s`%s -/\n' % (
        'En' if en else suf, '' if en else ' ++ `layouts%sDay1`' % suf)
    t += 'def acceptingRegex : List Nat := [%s]\n\n' % ', '.join(str(k) for _, _, k, _, _ in data)
    if not en:
        t += ('/-- per layout (same order): the literal characters after the day token that belong to the day group -/\n'
              'def dexts : List (List Nat) := [%s]\n\n' % ', '.join(lean_str(g.info[li][1]) for li, *_ in data))
        props_file(culture, suf, g, data, outdir)
    t += 'end RTV.DateFront.Ev%s\n' % suf
    with open(os.path.join(lem, 'DateFrontEv%sAll.lean' % suf), 'w', encoding='utf-8') as f:
        f.write(t)
    print('%s: %d evaluation files, %d cost units' % (culture, len(files), sum(c for c, *_ in items)))


if __name__ == '__main__':
    import sys
    args = sys.argv[1:]
    budget = 330
    if args and args[0].startswith('--budget='):
        budget = int(args.pop(0).split('=')[1])
    for cul in (args or ['en-us']):
        main(budget=budget, culture=cul)
