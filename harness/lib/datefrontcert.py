"""Certificate generator for Props/C06Front (run by hand when the English date regexes or the contract layouts change:
`cd /verif/harness && /venv/bin/python -m lib.datefrontcert`; needs the compiled driver).

For every English layout L of contracts/C06.json and every regex j up to the regex k that accepts L's dates, it looks for
the COARSEST partition of the years 1900..2099, the months 1..12 and the days 1..31 such that the symbolic evaluation of
the Lean front end (driver op `df.abs`: one candidate set per position = pointwise union of the renderings of a class)
gives a known answer on every product of classes: `reject` for j < k, `accept with the groups on the tokens` for j = k.
The classes are found greedily (a value joins the first class that keeps every evaluation known and right).

Output: lean/RTV/Lemmas/DateFrontEv<N>.lean (committed) — the abstract strings (`Cert`) and, per (layout, regex), the two
facts `coverB … = true` and `rejAll/accAll … = true`, each proved by `decide +kernel` on the REGENERATED regex list
(RTV/Gen/DateRegexEn.lean); files are cut so that each builds in about a minute.  lean/RTV/Lemmas/DateFrontEvAll.lean
collects them into one table per layout.  Nothing here is trusted: a wrong certificate simply does not type-check."""
import json
import os
import re

from . import common

R_ = lambda a, b: list(range(a, b + 1))


def ordinal(d):
    return str(d) + ('th' if 11 <= d % 100 <= 13 else {1: 'st', 2: 'nd', 3: 'rd'}.get(d % 10, 'th'))


def load():
    c = json.load(open(os.path.join(common.VERIF, 'contracts', 'C06.json'), encoding='utf-8'))
    return c, c['months']['en-us'], c['abbr']['en-us']


KIND = {'y': 'y', 'm': 'm', 'm02': 'm', 'mon': 'm', 'abbr': 'm', 'd': 'd', 'd02': 'd', 'dord': 'd'}


def toks(t):
    return [('tok', m.group(1)) if m.group(1) else ('lit', m.group(2)) for m in re.finditer(r'\{(\w+)\}|(.)', t)]


class Gen:
    def __init__(self):
        self.c, self.mon, self.abbr = load()
        self.rend = {'y': str, 'm': str, 'm02': lambda v: '%02d' % v, 'd': str, 'd02': lambda v: '%02d' % v,
                     'mon': lambda v: self.mon[v - 1], 'abbr': lambda v: self.abbr[v - 1], 'dord': ordinal}

    def absof(self, tok, cls):
        strs = [self.rend[tok](x) for x in cls]
        n = len(strs[0])
        if not all(len(s) == n for s in strs):
            return None
        return [sorted({ord(s[p]) for s in strs}) for p in range(n)]

    def abstext(self, L, cy, cm, cd):
        A = []
        for k, v in L:
            if k == 'lit':
                A.append([ord(v)])
            else:
                a = self.absof(v, {'y': cy, 'm': cm, 'd': cd}[KIND[v]])
                if a is None:
                    return None
                A += a
        return A

    def spans(self, L, cy, cm, cd):
        off, sp = 0, {}
        for k, v in L:
            if k == 'lit':
                off += 1
            else:
                n = len(self.rend[v]({'y': cy, 'm': cm, 'd': cd}[KIND[v]][0]))
                sp[KIND[v]] = (off, off + n)
                off += n
        return sp, off

    @staticmethod
    def enc(A):
        return ';'.join(' '.join(map(str, p)) for p in A)

    def ok_all(self, L, j, k, Py, Pm, Pd):
        combos = [(cy, cm, cd) for cy in Py for cm in Pm for cd in Pd]
        As = [self.abstext(L, *c) for c in combos]
        if any(a is None for a in As):
            return False
        outs = common.driver(['df.abs\t%d\t%s' % (j, self.enc(a)) for a in As])
        for c, o in zip(combos, outs):
            if j < k:
                if o != 'none':
                    return False
            else:
                sp, n = self.spans(L, *c)
                want = '0|0|%d|%d:%d|%d:%d|%d:%d|-|-' % (n, sp['y'][0], sp['y'][1], sp['m'][0], sp['m'][1], sp['d'][0], sp['d'][1])
                if o != want:
                    return False
        return True

    @staticmethod
    def greedy(vals, ok):
        classes = []
        for v in vals:
            for c in classes:
                if ok(c + [v]):
                    c.append(v)
                    break
            else:
                classes.append([v])
        return classes

    def certificates(self):
        """-> [(layout index, template, k, [(j, Py, Pm, Pd)])]"""
        out = []
        for li, row in enumerate(self.c['layouts']['en-us']):
            L = toks(row['template'])
            ans = common.driver(['df.abs\tall\t' + self.enc(self.abstext(L, [2019], [3], [5]))])[0]
            if ans in ('none', 'unk'):
                raise SystemExit('layout %d %s: the front end does not accept 2019-03-05 (%s)' % (li, row['template'], ans))
            k = int(ans.split('|')[0])
            certs = []
            for j in range(k + 1):
                Py, Pm, Pd = [R_(1900, 1999), R_(2000, 2099)], [[i] for i in R_(1, 12)], [[i] for i in R_(1, 31)]
                if not self.ok_all(L, j, k, Py, Pm, Pd):
                    raise SystemExit('layout %d %s regex %d: no certificate at the finest partition' % (li, row['template'], j))
                Pd = self.greedy(R_(1, 31), lambda c: self.ok_all(L, j, k, Py, Pm, [c]))
                Pm = self.greedy(R_(1, 12), lambda c: self.ok_all(L, j, k, Py, [c], Pd))
                if self.ok_all(L, j, k, [R_(1900, 2099)], Pm, Pd):
                    Py = [R_(1900, 2099)]
                assert self.ok_all(L, j, k, Py, Pm, Pd)
                certs.append((j, Py, Pm, Pd))
            out.append((li, row['template'], k, L, certs))
            print('layout %d %-22s accepted by regex %d; abstract texts per regex: %s' % (
                li, row['template'], k, [len(a) * len(b) * len(c) for _, a, b, c in certs]), flush=True)
        return out


def lean_astr(A):
    return '[' + ', '.join('[' + ', '.join(map(str, p)) + ']' for p in A) + ']'


HEAD = ('-- GENERATED by harness/lib/datefrontcert.py (committed; regenerate by hand when the date regexes change).\n'
        'import RTV.Lemmas.DateFrontCover\nimport RTV.Gen.DateRegexEn\nimport RTV.Gen.DateLayoutsEn\n'
        'set_option maxRecDepth 1000000\nnamespace RTV.DateFront.Ev\n'
        'open RTV.DateFront RTV.Gen.DateRegexEn RTV.Gen.DateLayoutsEn\n\n')


def main(budget=330):
    g = Gen()
    data = g.certificates()
    items = []     # (cost, text, layout, j, k)
    for li, tpl, k, L, certs in data:
        mtok = [v for kk, v in L if kk == 'tok' and KIND[v] == 'm'][0]
        dtok = [v for kk, v in L if kk == 'tok' and KIND[v] == 'd'][0]
        for j, Py, Pm, Pd in certs:
            nm = 'L%dR%d' % (li, j)
            t = '/-- layout %d `%s`, regex %d (%s): %d x %d x %d abstract texts -/\n' % (
                li, tpl, j, 'accepts' if j == k else 'rejects', len(Py), len(Pm), len(Pd))
            t += 'def cert%s : Cert :=\n  ⟨[%s],\n   [%s],\n   [%s]⟩\n' % (
                nm, ', '.join(lean_astr(g.absof('y', c)) for c in Py), ', '.join(lean_astr(g.absof(mtok, c)) for c in Pm),
                ', '.join(lean_astr(g.absof(dtok, c)) for c in Pd))
            t += 'theorem cover%s : coverB namesEn layout%d cert%s = true := by decide +kernel\n' % (nm, li, nm)
            if j == k:
                t += 'theorem acc%s : accAll dateRegexes dateTokenPrefix %d layout%d cert%s = true := by decide +kernel\n\n' % (nm, j, li, nm)
            else:
                t += 'theorem rej%s : rejAll dateRegexes dateTokenPrefix %d layout%d cert%s = true := by decide +kernel\n\n' % (nm, j, li, nm)
            items.append((len(Py) * len(Pm) * len(Pd) * (1 if j == k else 6), t, li, j, k))
    # cut into files of about `budget` cost units (an accepted abstract text = 1, a rejected one = 6: `search` walks every
    # start position of the text and of prefix + text)
    files, cur, cost = [], '', 0
    for c, t, li, j, k in items:
        if cur and cost + c > budget:
            files.append(cur)
            cur, cost = '', 0
        cur += t
        cost += c
    if cur:
        files.append(cur)
    lem = os.path.join(common.LEAN, 'RTV', 'Lemmas')
    for f in os.listdir(lem):
        if re.fullmatch(r'DateFrontEv(\d+|All)\.lean', f):
            os.remove(os.path.join(lem, f))
    for n, body in enumerate(files):
        with open(os.path.join(lem, 'DateFrontEv%d.lean' % n), 'w', encoding='utf-8') as f:
            f.write(HEAD + body + 'end RTV.DateFront.Ev\n')
    # the table: per layout the accepting regex, the certificates and the facts about them
    t = '-- GENERATED by harness/lib/datefrontcert.py (committed).\n'
    t += ''.join('import RTV.Lemmas.DateFrontEv%d\n' % n for n in range(len(files)))
    t += ('namespace RTV.DateFront.Ev\nopen RTV.DateFront RTV.Gen.DateRegexEn RTV.Gen.DateLayoutsEn\n\n'
          '/-- the facts `front_all` needs for one layout: regex `k` accepts, the earlier ones reject -/\n'
          'structure LayoutFacts (L : List Tok) (k : Nat) : Prop where\n'
          '  rej : ∀ j, j < k → ∃ c : Cert, coverB namesEn L c = true ∧ rejAll dateRegexes dateTokenPrefix j L c = true\n'
          '  acc : ∃ c : Cert, coverB namesEn L c = true ∧ accAll dateRegexes dateTokenPrefix k L c = true\n\n')
    for li, tpl, k, L, certs in data:
        t += '/-- `%s`: accepted by date_regex[%d] -/\ntheorem facts%d : LayoutFacts layout%d %d := by\n  refine ⟨fun j hj => ?_, ⟨certL%dR%d, coverL%dR%d, accL%dR%d⟩⟩\n' % (
            tpl, k, li, li, k, li, k, li, k, li, k)
        if k == 0:
            t += '  omega\n\n'
        else:
            t += '  match j, hj with\n'
            for j in range(k):
                t += '  | %d, _ => exact ⟨certL%dR%d, coverL%dR%d, rejL%dR%d⟩\n' % (j, li, j, li, j, li, j)
            t += '\n'
    t += '/-- accepting regex of every layout of the contract, in the order of `layoutsEn` -/\n'
    t += 'def acceptingRegex : List Nat := [%s]\n\n' % ', '.join(str(k) for _, _, k, _, _ in data)
    t += 'end RTV.DateFront.Ev\n'
    with open(os.path.join(lem, 'DateFrontEvAll.lean'), 'w', encoding='utf-8') as f:
        f.write(t)
    print('%d evaluation files, %d cost units' % (len(files), sum(c for c, *_ in items)))


if __name__ == '__main__':
    main()
