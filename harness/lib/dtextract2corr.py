"""Recorded-call correspondence for the L2c `DtExtract2` layer (C01, C12): the REMAINING token arithmetic of the
date-time sub-extractors (continues lib/dtextractcorr.py, whose recording machinery it re-uses without editing it).

Inside worker processes of its own pool: dtextractcorr.instrument() + wrappers around the other methods of
BaseDatePeriodExtractor (match_simple_cases, match_ordinal_number_with_century_suffix, match_year_period,
single_time_point_with_patterns, match_complex_cases), BaseTimePeriodExtractor (match_simple_cases, merge_two_time_points,
match_time_of_day), BaseDateTimePeriodExtractor (merge_two_time_points second loop, match_duration + match_within_next_prefix,
match_time_of_day, match_relative_unit, match_date_with_period_prefix, merge_date_with_time_period_suffix), BaseSetExtractor
(match_each_unit, match_periodic, match_each_duration, time_everyday, match_each), BaseHolidayExtractor.__holiday_match.
Every frame becomes a driver line `dy.*` / `dx.*` built from the match facts the call saw, and the implementation's
tokens; the Lean model must reproduce the tokens from the facts alone.  Monitored on every frame: the theorems'
hypotheses and "every token inside the text".  Tokens outside the text and the three fixed probes are followed up at
pipeline level with the C01 / C12 oracle."""
import importlib
import multiprocessing
import signal
import sys
import warnings

from . import common
from . import dtextractcorr as dx
from .dtextractcorr import b, omt, ocm, lst, toks, mts, res, first_re, mt_in, cm_in, REF, CULTURES

_S = {}
LAST = {}
EXTRACTOR_ATTRS = ['date_period_extractor', 'time_period_extractor', 'date_time_period_extractor', 'set_extractor',
                   'holiday_extractor']


# ------------------------------------------------------------------ instrumentation

def _wrap_gen(rec, owner, name, kind, pre=None):
    """like dtextractcorr._wrap for GENERATOR methods: the generator is run to its end inside the frame"""
    orig = owner.__dict__[name]

    def wrapper(*a, **k):
        cfg = getattr(a[0], 'config', None)
        if not getattr(type(cfg), '_verif_proxied', False):
            return orig(*a, **k)
        fr = {'kind': kind, 'args': a, 'log': [], 'out': None, 'exc': None}
        if pre:
            pre(fr, a)
        if rec.stack:
            rec.stack[-1]['log'].append(('frame', fr))
        rec.stack.append(fr)
        try:
            out = list(orig(*a, **k))
            fr['out'] = dx._snap(out)
            return iter(out)
        except Exception as e:
            fr['exc'] = type(e).__name__
            raise
        finally:
            rec.stack.pop()
            rec.frames.append(fr)

    setattr(owner, name, wrapper)


def instrument2():
    if 'done' in _S:
        return dx._S['rec']
    rec = dx.instrument()
    mods = dx._S['mods']
    for nm in ('base_set', 'base_holiday'):
        mods[nm] = importlib.import_module('recognizers_date_time.date_time.' + nm)
    common.assert_tree_modules(*mods.values())
    import regex as real_regex
    proxy = None
    for name, mod in list(sys.modules.items()):
        if mod is not None and name.startswith('recognizers_date_time') and isinstance(getattr(mod, 'regex', None), dx.RegexModuleProxy):
            proxy = getattr(mod, 'regex')
            break
    for nm in ('base_set', 'base_holiday'):
        if getattr(mods[nm], 'regex', None) is real_regex and proxy is not None:
            setattr(mods[nm], 'regex', proxy)
    TU = dx._S['TU']
    orig_exact = TU.RegExpUtility.__dict__['exact_match'].__func__

    def logged_exact(pattern, text, trim):
        r = orig_exact(pattern, text, trim)
        rec.log(('call', 'exact_match', (dx._name(pattern), text), bool(r.success)))
        return r

    TU.RegExpUtility.exact_match = staticmethod(logged_exact)

    def snap(ers):
        return [(e.start, e.length, e.text, e.type, e) for e in ers]

    def pre_ords(fr, a):
        fr['ords'] = snap(a[2])

    BDP = mods['base_dateperiod'].BaseDatePeriodExtractor
    dx._wrap(rec, BDP, 'match_simple_cases', 'dp2.simple')
    dx._wrap(rec, BDP, 'match_ordinal_number_with_century_suffix', 'dp2.century', pre=pre_ords)
    dx._wrap(rec, BDP, 'match_year_period', 'dp2.year')
    dx._wrap(rec, BDP, 'single_time_point_with_patterns', 'dp2.single', pre=pre_ords)
    dx._wrap(rec, BDP, 'match_complex_cases', 'dp2.complex', pre=pre_ords)
    BTP = mods['base_timeperiod'].BaseTimePeriodExtractor
    dx._wrap(rec, BTP, 'match_simple_cases', 'tp2.simple')
    dx._wrap(rec, BTP, 'merge_two_time_points', 'tp2.merge')
    dx._wrap(rec, BTP, 'match_time_of_day', 'tp2.tod')
    BDTP = mods['base_datetimeperiod'].BaseDateTimePeriodExtractor

    def pre_m2(fr, a):
        fr['dates'] = snap(a[3])

    def pre_dws(fr, a):
        fr['dates'] = snap(a[2])
        fr['times'] = snap(a[3])

    dx._wrap(rec, BDTP, 'merge_two_time_points', 'dtp2.merge', pre=pre_m2)      # around dtextractcorr's own wrapper
    dx._wrap(rec, BDTP, 'match_duration', 'dtp2.mdur')
    dx._wrap(rec, BDTP, 'match_within_next_prefix', 'dtp2.within')
    dx._wrap(rec, BDTP, 'match_time_of_day', 'dtp2.tod', pre=pre_m2)
    dx._wrap(rec, BDTP, 'match_relative_unit', 'dtp2.rel')
    dx._wrap(rec, BDTP, 'match_date_with_period_prefix', 'dtp2.prefix', pre=pre_m2)
    dx._wrap(rec, BDTP, 'merge_date_with_time_period_suffix', 'dtp2.dws', pre=pre_dws)
    BSE = mods['base_set'].BaseSetExtractor
    for nm, kind in (('match_each_unit', 'set2.unit'), ('match_periodic', 'set2.periodic'),
                     ('match_each_duration', 'set2.eachdur'), ('time_everyday', 'set2.everyday'),
                     ('match_each', 'set2.each')):
        _wrap_gen(rec, BSE, nm, kind)
    BHE = mods['base_holiday'].BaseHolidayExtractor
    dx._wrap(rec, BHE, '_BaseHolidayExtractor__holiday_match', 'hol.match')
    _S['done'] = True
    return rec


def probe_variants2():
    """which of the two repairs (findings/dtextract2/*.diff) the working tree contains — fixed probes through the real
    English date-period extractor"""
    exs = dict(extractors('en-us'))
    v = {'yearPeriodEnd': False, 'centuryOffset': False, 'dtpDurShift': False}
    dp = exs.get('date_period_extractor')
    try:
        t = dp.match_year_period('2010-2015')
        v['yearPeriodEnd'] = any((x.start, x.end) == (0, 9) for x in t)
    except Exception:
        pass
    try:
        q = 'the 21st century'
        t = dp.match_ordinal_number_with_century_suffix(q, dp.config.ordinal_extractor.extract(q))
        v['centuryOffset'] = any(x.end == len(q) for x in t)
    except Exception:
        pass
    try:
        t = exs['date_time_period_extractor'].match_duration('  past 3 hours', REF)
        v['dtpDurShift'] = any(x.start == 2 for x in t)
    except Exception:
        pass
    dx._S['rec'].frames.clear()
    dx._S['rec'].stack.clear()
    return v


def wstr():
    v = _S.get('variant2') or {}
    return '%s:%s:%s' % (b(v.get('yearPeriodEnd')), b(v.get('centuryOffset')), b(v.get('dtpDurShift')))


# ------------------------------------------------------------------ frame -> driver line

def ents(es):
    return lst(['%d:%d' % (e[0], e[1]) for e in es])


def ent_in(e, n):
    return 0 <= e[0] and 0 <= e[1] and e[0] + e[1] <= n


def subs(log, name=None):
    return [e for e in log if e[0] == 'sub' and e[2] == 'extract' and (name is None or e[1] == name)]


def conv_dp_simple(fr):
    from recognizers_date_time.date_time.constants import Constants
    ex, source = fr['args'][0], fr['args'][1]
    items, hyp = [], True
    for e in res(fr['log'], None, 'finditer'):
        if not e[1].startswith('simple_cases_regexes'):
            continue
        for m in e[4]:
            keep = True
            my = ex.config.year_regex.search(m.group())
            if my and len(my.group()) == len(m.group()):
                y = ex.config.date_point_extractor.get_year_from_text(my)
                if not (Constants.MIN_YEAR_NUM <= y <= Constants.MAX_YEAR_NUM):
                    keep = False
            if keep and (m.end() - m.start() == Constants.FOUR_DIGITS_YEAR_LENGTH) and \
                    0 < m.start() and m.end() < len(source) and source[m.start():m.end()] == m.group():
                if ex.config.illegal_year_regex.match(source[m.start() - 1: m.end() + 1]):
                    keep = False
            items.append('%d:%d:%s' % (m.start(), m.end(), b(keep)))
            hyp = hyp and mt_in(m, len(source))
    return {'op': 'dx.kept\t' + lst(items), 'hyp': {'matches_inside': hyp}}


def conv_dp_century(fr):
    text = fr['args'][1]
    ords = fr['ords']
    seq = res(fr['log'], 'century_suffix_regex', 'match')
    pos, items, hyp, made = 0, [], True, 0
    for (s, l, _, _, _) in ords:
        if s + l >= len(text):
            items.append('%d:%d:0:0:0:0:0' % (s, l))
            continue
        if pos >= len(seq):
            return {'problem': 'century suffix: missing regex call'}
        e = seq[pos]
        pos += 1
        after = text[s + l:]
        ws = len(after) - len(e[3])
        m = e[4]
        first = text.index(m.group()) if m is not None else 0
        made += 1 if m is not None else 0
        hyp = hyp and ent_in((s, l), len(text)) and mt_in(m, len(e[3])) and (m is None or m.start() == 0)
        items.append('%d:%d:%d:%s:%d' % (s, l, ws, omt(m), first))
    return {'op': 'dy.century\t%s\t%d\t%s' % (wstr(), len(text), lst(items)),
            'hyp': {'CenturyOK': hyp, 'century_token': made}}


def conv_dp_year(fr):
    from recognizers_date_time.date_time.constants import Constants
    ex, text = fr['args'][0], fr['args'][1]
    e = first_re(fr['log'], 'year_period_regex', 'finditer')
    items, hyp = [], True
    yr = ex.config.year_regex
    real_yr = yr.__dict__['_real'] if isinstance(yr, dx.PatProxy) else yr
    for m in (e[4] if e else []):
        keep = True
        my = real_yr.search(m.group())
        if my is not None and (my.end() - my.start()) == len(m.group()):
            y = ex.config.date_point_extractor.get_year_from_text(my)
            keep = Constants.MIN_YEAR_NUM <= y <= Constants.MAX_YEAR_NUM
        else:
            all_digit, valid = True, True
            for ym in real_yr.finditer(m.group()):
                y = ex.config.date_point_extractor.get_year_from_text(ym)
                if not (Constants.MIN_YEAR_NUM <= y <= Constants.MAX_YEAR_NUM):
                    valid = False
                elif len(ym) != Constants.FOUR_DIGITS_YEAR_LENGTH:
                    all_digit = False
            if not valid:
                keep = False
            elif all_digit:
                try:
                    keep = not ex.has_invalid_dash_context(m, text)
                except Exception:
                    return {'skipped': 'has_invalid_dash_context raised'}
        items.append('%d:%d:%s' % (m.start(), m.end(), b(keep)))
        hyp = hyp and mt_in(m, len(text))
    return {'op': 'dy.year\t%s\t%s' % (wstr(), lst(items)), 'hyp': {'matches_inside': hyp, 'year_period_token': len(fr['out'] or [])}}


def conv_dp_single(fr):
    ex, source = fr['args'][0], fr['args'][1]
    log = fr['log']
    sub = next(iter(subs(log, 'date_point_extractor')), None)
    if sub is None:
        return {'problem': 'single_time_point_with_patterns: no date_point_extractor call'}
    dates = sub[4]
    names = {'week_of_regex': True, 'month_of_regex': True, 'less_than_regex': False, 'more_than_regex': False,
             'within_next_prefix_regex': True}
    segs, cur, pending_within = [], None, None
    hyp = True
    for e in log:
        if e[0] != 're' or e[2] != 'search' or e[1] not in names:
            continue
        if e[1] == 'week_of_regex':
            cur = []
            segs.append(cur)
            pending_within = None
        if cur is None:
            continue
        if e[1] == 'within_next_prefix_regex':
            # first search = the gate of __extract_within_next_prefix, the second one the token builder's own
            if pending_within is None:
                pending_within = e
                continue
            pending_within = None
        src, m = e[3], e[4]
        in_prefix = names[e[1]]
        edge, rfind = False, 0
        if m is not None:
            g = m.group().strip()
            edge = src.strip().endswith(g) if in_prefix else src.strip().startswith(g)
            rfind = src.rfind(m.group())
            hyp = hyp and 0 <= rfind <= len(src)
        cur.append('%s:%s:%d:%s' % (omt(m), b(edge), rfind, b(in_prefix)))
    return {'op': 'dy.single\t%s\t%s\t%s' % (ents(dates), ents(fr['ords']), '|'.join(lst(s) for s in segs) if segs else '-'),
            'hyp': {'SingleOK': hyp and all(ent_in(x, len(source)) for x in dates),
                    'not_in_prefix_edge': sum(1 for s in segs for c in s if c.split(':')[3] == '1' and c.split(':')[5] == '0' and c[0] == '1')}}


def conv_dp_complex(fr):
    """the list handed to merge_multiple_extractions (its tokens are compared by dtextractcorr's dp.merge frame)"""
    log = fr['log']
    sub = next(iter(subs(log, 'date_point_extractor')), None)
    inner = next((e[1] for e in log if e[0] == 'frame' and e[1]['kind'] == 'dp.merge'), None)
    if sub is None or inner is None:
        return {'problem': 'match_complex_cases: no date_point_extractor / merge_multiple_extractions call'}
    n = len(fr['args'][1])
    return {'op': 'dy.complex\t%s\t%s' % (ents(sub[4]), ents(fr['ords'])), 'impl': ents(inner['ers']),
            'hyp': {'ComplexOK': all(ent_in(x, n) for x in sub[4]) and all(ent_in(x, n) for x in fr['ords'])},
            'n_results': len(inner['ers'])}


def conv_tp_simple(fr):
    from recognizers_text.utilities import RegExpUtility
    from recognizers_date_time.date_time.constants import Constants
    ex, source = fr['args'][0], fr['args'][1]
    items, hyp = [], True
    ge = res(fr['log'], 'general_ending_regex', 'match')
    gpos = 0
    for e in res(fr['log'], None, 'finditer'):
        for m in e[4]:
            idx = source.index(m.group())
            ln = m.end() - m.start()
            if RegExpUtility.get_group(m, Constants.MINUTE_GROUP_NAME) or RegExpUtility.get_group(m, Constants.SECOND_GROUP_NAME):
                if idx + ln == len(source):
                    keep = True
                else:
                    after = source[idx + ln:]
                    g = ge[gpos][4] if gpos < len(ge) else None
                    gpos += 1
                    keep = bool(g or RegExpUtility.get_group(m, Constants.RIGHT_AM_PM_GROUP_NAME) or
                                after.lstrip().startswith(ex.config.token_before_date))
            else:
                keep = bool(RegExpUtility.get_group(m, Constants.PM_GROUP_NAME) or
                            RegExpUtility.get_group(m, Constants.AM_GROUP_NAME) or
                            RegExpUtility.get_group(m, Constants.DESC_GROUP_NAME))
            items.append('%d:%d:%d:%s' % (idx, m.start(), m.end(), b(keep)))
            hyp = hyp and 0 <= idx <= m.start() and mt_in(m, len(source))
    return {'op': 'dy.first\t' + lst(items), 'hyp': {'FirstOccOK': hyp, 'first_occurrence_differs': sum(
        1 for it in items if it.split(':')[0] != it.split(':')[1] and it.endswith(':1'))}}


def conv_tp_tod(fr):
    source = fr['args'][1]
    e = first_re(fr['log'], 'time_of_day_regex', 'finditer')
    ms = e[4] if e else []
    items = ['%d:%d:%d:1' % (source.index(m.group()), m.start(), m.end()) for m in ms]
    return {'op': 'dy.first\t' + lst(items),
            'hyp': {'FirstOccOK': all(source.index(m.group()) <= m.start() and mt_in(m, len(source)) for m in ms)}}


def conv_tp_merge(fr):
    ex, source = fr['args'][0], fr['args'][1]
    if ex.config.check_both_before_after:
        return {'skipped': 'check_both_before_after is set'}
    log = fr['log']
    st = next(iter(subs(log, 'single_time_extractor')), None)
    si = next(iter(subs(log, 'integer_extractor')), None)
    if st is None or si is None:
        return {'problem': 'timeperiod merge_two_time_points: missing sub-extractor call'}
    times, nums = st[4], si[4]
    ev = [e for e in log if (e[0] == 're' and e[1] in ('till_regex', 'general_ending_regex') and e[2] == 'search') or e[0] == 'call']
    pos = 0
    ending = False
    if nums:
        last = nums[-1]
        if last[0] + last[1] == len(source):
            ending = True
        else:
            if pos < len(ev) and ev[pos][0] == 're' and ev[pos][1] == 'general_ending_regex':
                ending = ev[pos][4] is not None
                pos += 1
            else:
                return {'problem': 'timeperiod merge_two_time_points: missing general_ending search'}
    conns = []
    # the preamble: (till search, exact_match call, [is_connector_token call]) per number that has a later time point
    while pos + 1 < len(ev) and ev[pos][0] == 're' and ev[pos][1] == 'till_regex' and ev[pos + 1][0] == 'call' and \
            ev[pos + 1][1] == 'exact_match':
        ok = bool(ev[pos + 1][3])
        pos += 2
        if not ok:
            if pos < len(ev) and ev[pos][0] == 'call' and ev[pos][1] == 'is_connector_token':
                ok = bool(ev[pos][3])
                pos += 1
            else:
                return {'problem': 'timeperiod merge_two_time_points: missing is_connector_token (preamble)'}
        conns.append(ok)
    src_lead = len(source) - len(source.lstrip())

    def spos(arg, index):
        lost = src_lead - (len(arg) - len(arg.lstrip())) if arg else 0
        return index + lost

    facts, hyp = [], True
    while pos < len(ev):
        e = ev[pos]
        if not (e[0] == 're' and e[1] == 'till_regex'):
            return {'problem': 'timeperiod merge_two_time_points: unexpected event %r' % (e[:3],)}
        middle, m = e[3], e[4]
        pos += 1
        f = {'till': m is not None and m.start() == 0 and m.group() == middle, 'conn': False, 'from': (False, -1),
             'between': (False, -1), 'after': (False, -1), 'blen': 0}

        def take(name):
            nonlocal pos
            if pos < len(ev) and ev[pos][0] == 'call' and ev[pos][1] == name:
                r = ev[pos]
                pos += 1
                return r
            return None

        if f['till']:
            a, c, d = take('get_from_token_index'), take('get_between_token_index'), take('get_between_token_index')
            if a is None or c is None or d is None:
                return {'problem': 'timeperiod merge_two_time_points: missing from / between look-ups'}
            f['from'] = (bool(a[3].matched), spos(a[2], a[3].index) if a[3].matched else -1)
            f['between'] = (bool(c[3].matched), spos(c[2], c[3].index) if c[3].matched else -1)
            f['after'] = (bool(d[3].matched), d[3].index if d[3].matched else -1)
            f['blen'] = spos(a[2], len(a[2]))
        else:
            c = take('is_connector_token')
            if c is None:
                return {'problem': 'timeperiod merge_two_time_points: missing is_connector_token'}
            f['conn'] = bool(c[3])
            if f['conn']:
                d = take('get_between_token_index')
                if d is None:
                    return {'problem': 'timeperiod merge_two_time_points: missing between look-up'}
                f['between'] = (bool(d[3].matched), spos(d[2], d[3].index) if d[3].matched else -1)
                f['blen'] = spos(d[2], len(d[2]))
                if not d[3].matched:
                    take('get_between_token_index')      # the look-up in the after-string (unused: check_both is false)
        hyp = hyp and (not f['from'][0] or src_lead <= f['from'][1] <= f['blen']) and \
            (not f['between'][0] or src_lead <= f['between'][1] <= f['blen'])
        facts.append('%s:%s:%s:%d:%s:%d:%s:%d:%d' % (b(f['till']), b(f['conn']), b(f['from'][0]), f['from'][1],
                                                     b(f['between'][0]), f['between'][1], b(f['after'][0]), f['after'][1], src_lead))
    n = len(source)
    return {'op': 'dy.tpmerge\t%s\t%s\t%s\t%s\t%s\t%s' % (dx.vstr(), ents(times), ents(nums), b(ending),
                                                         lst([b(c) for c in conns]), lst(facts)),
            'hyp': {'TpOK': hyp and all(ent_in(x, n) for x in times) and all(ent_in(x, n) for x in nums),
                    'number_as_time_point': sum(1 for c in conns if c) + (1 if ending else 0),
                    'between_after_range': sum(1 for f in facts if f.split(':')[6] == '1')}}


def conv_dtp_merge2(fr):
    """the second loop ({Date} {TimePeriod}); the first loop's tokens come from dtextractcorr's own converter"""
    ex, source = fr['args'][0], fr['args'][1]
    if ex.config.check_both_before_after:
        return {'skipped': 'check_both_before_after is set'}
    inner = next((e[1] for e in fr['log'] if e[0] == 'frame' and e[1]['kind'] == 'dtp.merge'), None)
    if inner is None:
        return {'problem': 'datetimeperiod merge_two_time_points: inner frame missing'}
    if inner['exc'] is not None:
        return {'skipped': 'merge_two_time_points raised'}
    first = dx.conv_dtp_merge(inner)
    if 'op' not in first:
        return first
    sub = next(iter(subs(inner['log'], 'time_period_extractor')), None)
    if sub is None:
        return {'problem': 'datetimeperiod merge_two_time_points: no time_period_extractor call'}
    dates = [(x[0], x[1]) for x in fr['dates']]
    periods = [(x[0], x[1]) for x in sub[4] if not (x[5].meta_data and x[5].meta_data.is_mealtime)]
    pts = sorted([(s, l) for s, l in dates] + [(s, l) for s, l in periods], key=lambda x: x[0])
    tok = ex.config.token_before_date
    oks = []
    for i in range(len(pts) - 1):
        mid = source[pts[i][0] + pts[i][1]: pts[i + 1][0]]
        oks.append(b((not mid.strip()) or mid.strip().startswith(tok)))
    n = len(source)
    return {'op': 'dy.dtp2\t%s\t%s\t%s' % (ents(dates), ents(periods), lst(oks)), 'op_first': first['op'],
            'impl': toks(inner['out']) if isinstance(inner['out'], list) else None,
            'hyp': {'Dtp2OK': all(ent_in(x, n) for x in dates) and all(ent_in(x, n) for x in periods)}}


def conv_dtp_mdur(fr):
    ex = fr['args'][0]
    if ex.config.check_both_before_after:
        return {'skipped': 'check_both_before_after is set'}
    log = fr['log']
    sub = next(iter(subs(log, 'duration_extractor')), None)
    if sub is None:
        return {'problem': 'datetimeperiod match_duration: no duration_extractor call'}
    src = sub[3]            # the string the function works on (`source.strip().lower()`)
    orig = fr['args'][1]
    lead = len(orig) - len(orig.lstrip()) - (len(src) - len(src.lstrip()))
    tu = res(log, 'time_unit_regex', 'search')[:len(sub[4])]
    durs = [(x[0], x[1]) for x, e in zip(sub[4], tu) if e[4] is not None]
    rest = [e for e in log if (e[0] == 'frame' and e[1]['kind'] == 'dtp2.within') or
            (e[0] == 'cm' and e[2] in ('previous_prefix_regex', 'next_prefix_regex', 'future_suffix_regex')) or
            (e[0] == 'sub' and e[1] == 'cardinal_extractor') or
            (e[0] == 're' and e[1] == 'date_unit_regex' and e[2] == 'search')]
    pos, items, hyp, n = 0, [], True, len(src)
    nocm = '0:0:0:0'
    for (s, l) in durs:
        before, after = src[0:s].strip(), src[s + l:].strip()
        if not before and not after:
            items.append('/'.join([str(s), str(l), '1', '0:0:0', '0', '0', '0', nocm, nocm, '-', '0', '0', '0', nocm, nocm, nocm]))
            break
        if pos >= len(rest) or rest[pos][0] != 'frame':
            return {'problem': 'datetimeperiod match_duration: missing within-next frame'}
        wf = rest[pos][1]
        pos += 1
        wm = first_re(wf['log'], 'within_next_prefix_regex', 'match')
        m = wm[4] if wm else None
        sub_str = wf['args'][1]
        seg = bool(m is not None and sub_str[m.start():m.end()].strip() != '')
        first = src.index(m.group()) if m is not None else 0
        um = first_re(wf['log'], 'time_unit_regex', 'match')
        unit = bool(um and um[4] is not None)
        hyp = hyp and ent_in((s, l), n) and (m is None or 0 <= first <= s)
        prev = nxt = ps = ns = fs = None
        nums, plen, nid, dua = [], 0, False, False
        if not (m is not None and seg and unit and first >= 0):
            if pos < len(rest) and rest[pos][0] == 'cm' and rest[pos][1] == 'match_end' and rest[pos][2] == 'previous_prefix_regex':
                prev = rest[pos][4]
                pos += 1
            index = prev[0] if prev is not None and prev[2] else -1
            if index < 0 and pos < len(rest) and rest[pos][0] == 'cm' and rest[pos][1] == 'match_end' and rest[pos][2] == 'next_prefix_regex':
                nxt = rest[pos][4]
                pos += 1
                index = nxt[0] if nxt is not None and nxt[2] else -1
            hyp = hyp and cm_in(prev, s) and cm_in(nxt, s)
            if index >= 0:
                if pos + 1 < len(rest) and rest[pos][0] == 'sub' and rest[pos + 1][0] == 'sub':
                    nums = [(x[0], x[1]) for x in rest[pos][4]]
                    plen = len(rest[pos][3])
                    nid = bool(rest[pos + 1][4])
                    hyp = hyp and all(ent_in(x, plen) for x in nums) and plen <= index
                    pos += 2
                else:
                    return {'problem': 'datetimeperiod match_duration: missing cardinal extractions'}
            else:
                if pos < len(rest) and rest[pos][0] == 're' and rest[pos][1] == 'date_unit_regex':
                    dua = rest[pos][4] is not None
                    pos += 1
                else:
                    return {'problem': 'datetimeperiod match_duration: missing date_unit search on the after-string'}
                if not dua:
                    def take(name):
                        nonlocal pos
                        if pos < len(rest) and rest[pos][0] == 'cm' and rest[pos][1] == 'match_begin' and rest[pos][2] == name:
                            r = rest[pos][4]
                            pos += 1
                            return r
                        return None
                    ps = take('previous_prefix_regex')
                    if not (ps is not None and ps[2]):
                        ns = take('next_prefix_regex')
                        if not (ns is not None and ns[2]):
                            fs = take('future_suffix_regex')
                    hyp = hyp and cm_in(ps, n - s - l) and cm_in(ns, n - s - l) and cm_in(fs, n - s - l)
        items.append('/'.join([str(s), str(l), '0', omt(m), b(seg), str(first), b(unit), ocm(prev), ocm(nxt), ents(nums),
                               str(plen), b(nid), b(dua), ocm(ps), ocm(ns), ocm(fs)]))
        if m is not None and seg and unit:
            break
    return {'op': 'dy.dtpdur\t%s\t%d\t%s' % (wstr(), lead, '|'.join(items) if items else '-'),
            'hyp': {'DtpDurOK': hyp, 'tokens_with_leading_blanks': (len(fr['out'] or []) if lead else 0),
                    'previous_suffix': sum(1 for it in items if it.split('/')[13].endswith(':1'))}}


def conv_dtp_tod(fr):
    from recognizers_text.utilities import RegExpUtility
    from recognizers_date_time.date_time.constants import Constants
    source = fr['args'][1]
    n = len(source)
    log = fr['log']
    sp = first_re(log, 'specific_time_of_day_regex', 'finditer')
    spec = sp[4] if sp else []
    dates = [(x[0], x[1]) for x in fr['dates']]
    ev = [e for e in log if (e[0] == 're' and e[1] in ('period_time_of_day_with_date_regex', 'am_desc_regex', 'pm_desc_regex',
                                                       'general_ending_regex') and e[2] in ('search', 'match')) or
          (e[0] == 'call' and e[1] == 'is_exact_match')]
    pos, items, hyp = 0, [], True

    def nxt(kind, name):
        nonlocal pos
        if pos < len(ev) and ev[pos][0] == kind and ev[pos][1] == name:
            r = ev[pos]
            pos += 1
            return r
        return None

    no = '0:0:0'
    for (s, l) in dates:
        after_str = source[s + l:]
        e1 = nxt('re', 'period_time_of_day_with_date_regex')
        if e1 is None:
            return {'problem': 'match_time_of_day: missing after-string search'}
        m1 = e1[4]
        tod_s = tod_len = 0
        blank1 = pause1 = False
        if m1 is not None:
            tod_len = len(RegExpUtility.get_group(m1, Constants.TIME_OF_DAY_GROUP_NAME))
            tod_s = m1.start(Constants.TIME_OF_DAY_GROUP_NAME)
            head = after_str[0:m1.start()]
            blank1 = (not head) or head.isspace()
            hyp = hyp and mt_in(m1, len(after_str)) and 0 <= tod_s and tod_s + tod_len <= m1.end()
            if blank1:
                items.append('/'.join([str(s), str(l), omt(m1), str(tod_s), str(tod_len), '1', '0', no, no, no, '0', '0', '0']))
                break
            c = nxt('call', 'is_exact_match')
            if c is None:
                return {'problem': 'match_time_of_day: missing middle-pause test'}
            if c[3]:
                g = nxt('re', 'general_ending_regex')
                pause1 = bool(g is not None and g[4] is not None)
        am = pm = None
        if m1 is None:
            a = nxt('re', 'am_desc_regex')
            if a is None:
                return {'problem': 'match_time_of_day: missing am search'}
            am = a[4]
        cur = m1 if m1 is not None else am
        if cur is None or cur.start() > 0:
            p = nxt('re', 'pm_desc_regex')
            if p is None:
                return {'problem': 'match_time_of_day: missing pm search'}
            pm = p[4]
        hyp = hyp and mt_in(am, len(after_str)) and mt_in(pm, len(after_str)) and l >= 1
        e2 = nxt('re', 'period_time_of_day_with_date_regex')
        if e2 is None:
            return {'problem': 'match_time_of_day: missing prefix search'}
        m2 = e2[4]
        rest2 = mid2 = pause2 = False
        if m2 is not None:
            prefix_str = source[0:s]
            tail = prefix_str[m2.end():]
            rest2 = (not tail) or tail.isspace()
            hyp = hyp and mt_in(m2, s)
            if rest2:
                mid = source[m2.end():s]
                mid2 = bool(mid and mid.isspace())
            else:
                c = nxt('call', 'is_exact_match')
                if c is None:
                    return {'problem': 'match_time_of_day: missing middle-pause test (prefix)'}
                if c[3]:
                    g = nxt('re', 'general_ending_regex')
                    pause2 = bool(g is not None and g[4] is not None)
        items.append('/'.join([str(s), str(l), omt(m1), str(tod_s), str(tod_len), b(blank1), b(pause1),
                               omt(am) if am is not None else no, omt(pm) if pm is not None else no, omt(m2),
                               b(rest2), b(mid2), b(pause2)]))
    # adjacency: what the time-period extractor returned on the prefixes / suffixes, keyed by the cut position
    adj_b, adj_a = {}, {}
    for e in subs(log, 'time_period_extractor'):
        arg = e[3]
        if source.startswith(arg) and not (source.endswith(arg) and len(arg) == n and False):
            is_prefix = source[0:len(arg)] == arg
        else:
            is_prefix = False
        is_suffix = source[n - len(arg):] == arg
        recs_b = ['%d:%d:%d:%s' % (x[0], x[1], len(arg[x[0] + x[1]:]),
                                   b(((not arg[x[0] + x[1]:]) or arg[x[0] + x[1]:].isspace()) and not x[5].meta_data)) for x in e[4]]
        recs_a = ['%d:%d:%s' % (x[0], x[1], b(((not arg[0:x[0]]) or arg[0:x[0]].isspace()) and not x[5].meta_data)) for x in e[4]]
        # a string that is both a prefix and a suffix of the text (the whole text cannot be: before / after are proper)
        if is_prefix:
            adj_b.setdefault(len(arg), recs_b)
            hyp = hyp and all(ent_in(x, len(arg)) for x in e[4])
        if is_suffix:
            adj_a.setdefault(n - len(arg), recs_a)
            hyp = hyp and all(ent_in(x, len(arg)) for x in e[4])
    fb = '|'.join('%d/%s' % (k, lst(v)) for k, v in sorted(adj_b.items())) or '-'
    fa = '|'.join('%d/%s' % (k, lst(v)) for k, v in sorted(adj_a.items())) or '-'
    return {'op': 'dy.tod\t%d\t%s\t%s\t%s\t%s' % (n, mts(spec), '|'.join(items) if items else '-', fb, fa),
            'hyp': {'TodOK': hyp and all(mt_in(m, n) for m in spec) and all(ent_in(x, n) for x in dates),
                    'adjacent_period': sum(len(v) for v in adj_b.values()) + sum(len(v) for v in adj_a.values())}}


def conv_dtp_rel(fr):
    n = len(fr['args'][1])
    a = first_re(fr['log'], 'relative_time_unit_regex', 'finditer')
    c = first_re(fr['log'], 'rest_of_date_time_regex', 'finditer')
    ms = (a[4] if a else []) + (c[4] if c else [])
    return {'op': 'dy.rel\t%s\t%s' % (mts(a[4]) if a else '-', mts(c[4]) if c else '-'),
            'hyp': {'matches_inside': all(mt_in(m, n) for m in ms)}}


def conv_dtp_prefix(fr):
    source = fr['args'][1]
    seq = res(fr['log'], 'prefix_day_regex', 'search')
    dates = fr['dates']
    if len(seq) != len(dates):
        return {'problem': 'match_date_with_period_prefix: %d searches for %d dates' % (len(seq), len(dates))}
    items, hyp, shifted = [], True, 0
    for (s, l, _, _, _), e in zip(dates, seq):
        items.append('%d:%d:%s' % (s, l, omt(e[4])))
        hyp = hyp and ent_in((s, l), len(source)) and mt_in(e[4], len(e[3])) and len(e[3]) <= s
        lead = len(source[0:s]) - len(source[0:s].lstrip())
        lost = lead - (len(e[3]) - len(e[3].lstrip())) if e[3] else 0
        if e[4] is not None and lost > 0:
            shifted += 1
    return {'op': 'dy.prefix\t' + lst(items), 'hyp': {'PrefixOK': hyp, 'prefix_token_shifted_by_leading_blanks': shifted}}


def conv_dtp_dws(fr):
    text = fr['args'][1]
    dates, times = fr['dates'], fr['times']
    log = fr['log']
    valid, cur = [], None
    for e in log:
        if e[0] == 'call' and e[1] == 'is_exact_match':
            if e[2][0] == 'before_regex':
                cur = len(valid)
                valid.append(bool(e[3]))
            elif cur is not None:
                valid[cur] = valid[cur] or bool(e[3])
    wid = [omt(e[4]) for e in res(log, 'suffix_regex', 'search')]
    n = len(text)
    hyp = all(ent_in(x, n) for x in dates) and all(ent_in(x, n) for x in times) and \
        all(mt_in(e[4], 1) for e in res(log, 'suffix_regex', 'search'))
    return {'op': 'dy.dws\t%d\t%s\t%s\t%s\t%s' % (n, ents(dates), ents(times), lst([b(v) for v in valid]), lst(wid)),
            'hyp': {'DwsOK': hyp}}


def conv_set_eachdur(fr):
    source = fr['args'][1]
    sub = next(iter(subs(fr['log'], 'duration_extractor')), None)
    ers = sub[4] if sub else []
    ev = [e for e in fr['log'] if e[0] == 're' and e[1] in ('last_regex', 'each_prefix_regex') and e[2] == 'search']
    pos, items, hyp = 0, [], True
    for er in ers:
        if pos >= len(ev) or ev[pos][1] != 'last_regex':
            return {'problem': 'match_each_duration: unexpected call sequence'}
        skip = ev[pos][4] is not None
        pos += 1
        if skip:
            continue
        if pos >= len(ev) or ev[pos][1] != 'each_prefix_regex':
            return {'problem': 'match_each_duration: missing each-prefix search'}
        m = ev[pos][4]
        pos += 1
        hyp = hyp and ent_in(er, len(source)) and mt_in(m, er[0])
        items.append('%d:%d:%s' % (er[0], er[1], omt(m)))
    return {'op': 'dy.eachdur\t' + lst(items), 'hyp': {'EachDurOK': hyp}}


def conv_set_everyday(fr):
    ex, source = fr['args'][0], fr['args'][1]
    sub = next(iter(subs(fr['log'], 'time_extractor')), None)
    ers = sub[4] if sub else []
    ev = [e for e in fr['log'] if e[0] == 're' and e[1] in ('before_each_day_regex', 'each_day_regex') and e[2] == 'search']
    pos, items, hyp = 0, [], True
    for er in ers:
        after = source[er[0] + er[1]:]
        use_before = (not after) and ex.config.before_each_day_regex is not None
        want = 'before_each_day_regex' if use_before else 'each_day_regex'
        if pos >= len(ev) or ev[pos][1] != want:
            return {'problem': 'time_everyday: unexpected call sequence'}
        m = ev[pos][4]
        pos += 1
        hyp = hyp and ent_in(er, len(source)) and mt_in(m, er[0] if use_before else len(after))
        items.append('%d:%d:%s:%s' % (er[0], er[1], b(use_before), omt(m)))
    return {'op': 'dy.everyday\t' + lst(items), 'hyp': {'EverydayOK': hyp}}


def conv_set_each(fr):
    from recognizers_text.utilities import RegExpUtility
    from recognizers_date_time.date_time.constants import Constants
    source = fr['args'][2]
    n = len(source)
    log = [e for e in fr['log'] if (e[0] == 're' and e[2] == 'finditer') or (e[0] == 'sub' and e[2] == 'extract')]
    pos, cuts, wds, hyp, shape_bad = 0, [], [], True, 0
    if pos < len(log) and log[pos][0] == 're' and log[pos][1] == 'set_each_regex':
        ms = log[pos][4]
        pos += 1
        for m in ms:
            if pos >= len(log) or log[pos][0] != 'sub':
                return {'problem': 'match_each: missing extraction on the trimmed text'}
            ers = log[pos][4]
            pos += 1
            hyp = hyp and mt_in(m, n) and all(ent_in(x, n - (m.end() - m.start())) for x in ers)
            cuts.append('%d:%d/%s' % (m.start(), m.end(), ents(ers)))
    else:
        return {'problem': 'match_each: missing set_each_regex finditer'}
    if pos < len(log) and log[pos][0] == 're' and log[pos][1] == 'set_week_day_regex':
        ms = log[pos][4]
        pos += 1
        for m in ms:
            if pos >= len(log) or log[pos][0] != 'sub':
                return {'problem': 'match_each: missing extraction on the weekday text'}
            ers = log[pos][4]
            pos += 1
            wd = RegExpUtility.get_group(m, Constants.WEEKDAY_GROUP_NAME)
            prefix = RegExpUtility.get_group(m, Constants.PREFIX_GROUP_NAME)
            plen = len(prefix) if prefix else 0
            if not (plen + len(wd) + 1 <= m.end() - m.start()):
                shape_bad += 1
            hyp = hyp and mt_in(m, n) and all(ent_in(x, n - (m.end() - m.start()) + len(wd)) for x in ers)
            wds.append('%d:%d/%d/%s' % (m.start(), m.end(), plen, lst(['%d:%d:%s' % (x[0], x[1], b(wd in x[2])) for x in ers])))
    return {'op': 'dy.each\t%s\t%s' % ('|'.join(cuts) if cuts else '-', '|'.join(wds) if wds else '-'),
            'hyp': {'EachOK': hyp, 'weekday_match_shape_violated': shape_bad}}


def conv_all_matches(fr):
    src = fr['args'][1]
    ms = [m for e in fr['log'] if e[0] == 're' and e[2] == 'finditer' for m in e[4]]
    return {'op': 'dx.toks\t' + mts(ms), 'hyp': {'matches_inside': all(mt_in(m, len(src)) for m in ms)}}


CONV = {
    'dp2.simple': conv_dp_simple, 'dp2.century': conv_dp_century, 'dp2.year': conv_dp_year, 'dp2.single': conv_dp_single,
    'dp2.complex': conv_dp_complex,
    'tp2.simple': conv_tp_simple, 'tp2.tod': conv_tp_tod, 'tp2.merge': conv_tp_merge,
    'dtp2.merge': conv_dtp_merge2, 'dtp2.mdur': conv_dtp_mdur, 'dtp2.tod': conv_dtp_tod, 'dtp2.rel': conv_dtp_rel,
    'dtp2.prefix': conv_dtp_prefix, 'dtp2.dws': conv_dtp_dws,
    'set2.unit': conv_all_matches, 'set2.periodic': conv_all_matches, 'set2.eachdur': conv_set_eachdur,
    'set2.everyday': conv_set_everyday, 'set2.each': conv_set_each, 'hol.match': conv_all_matches,
}
# the root cause a token outside the text is attributed to (stable signatures of the reported findings)
ROOT_CAUSE = {'dp2.century': 'century-suffix-offset', 'dp2.year': 'year-period-negative-length'}


def frame_ops(fr):
    f = CONV.get(fr['kind'])
    if f is None:
        return []
    try:
        r = f(fr)
    except Exception as e:
        import traceback
        r = {'problem': 'converter raised %s: %s @ %s' % (type(e).__name__, e, traceback.format_exc().splitlines()[-3].strip())}
    out = r if isinstance(r, list) else [r]
    src = next((x for x in fr['args'][1:3] if isinstance(x, str)), '')
    for o in out:
        o['kind'] = fr['kind']
        o['src'] = src
        if 'op' in o and 'impl' not in o:
            if fr['exc'] is not None:
                o['impl'] = 'err:' + fr['exc']
            else:
                o['impl'] = toks(fr['out']) if isinstance(fr['out'], list) else None
        if isinstance(fr['out'], list) and fr['out'] and 'n_results' not in o:
            o['n_results'] = len(fr['out'])
        if fr['kind'] not in ('dp2.complex',) and isinstance(fr['out'], list):
            n = o.get('n_text', len(src))
            o['tokens_inside'] = all(isinstance(t, tuple) and 0 <= t[0] <= t[1] <= n for t in fr['out'])
            o['tokens'] = [list(t) for t in fr['out'] if isinstance(t, tuple)][:8]
    return out


# ------------------------------------------------------------------ worker side

def _init_worker():
    dx._init_worker()
    if 'init_error' in dx._S:
        _S['init_error'] = dx._S['init_error']
        return
    try:
        instrument2()
        _S['ex'] = {}
        _S['variant2'] = probe_variants2()
    except BaseException as e:
        import traceback
        _S['init_error'] = '%s: %s\n%s' % (type(e).__name__, e, traceback.format_exc())


def extractors(culture):
    if culture not in _S.setdefault('ex', {}):
        model = dx._S['recog'].get_model('DateTime', 'DateTimeModel', culture)
        cfg = model.extractor.config
        out = []
        for attr in EXTRACTOR_ATTRS:
            ex = getattr(cfg, attr, None)
            if ex is None or not hasattr(ex, 'config'):
                continue
            dx.instrument_config(ex.config, dx._S['rec'])
            out.append((attr, ex))
        _S['ex'][culture] = out
    return _S['ex'][culture]


def _chunk(args):
    tasks, timeout = args
    if 'init_error' in _S:
        raise common.InfraError('dtextract2 worker failed to initialise: ' + _S['init_error'])
    rec = dx._S['rec']
    out, seen, dropped = [], set(), 0
    for (cul, q, ref) in tasks:
        try:
            exs = extractors(cul)
        except Exception as e:
            out.append({'kind': 'setup', 'problem': 'cannot build extractors for %s: %s: %s' % (cul, type(e).__name__, e),
                        'task': (cul, q)})
            continue
        for attr, ex in exs:
            rec.frames.clear()
            rec.stack.clear()
            signal.setitimer(signal.ITIMER_REAL, timeout, 1.0)
            try:
                try:
                    ex.extract(q, ref)
                except dx.QueryTimeout:
                    raise
                except Exception:
                    pass
                signal.setitimer(signal.ITIMER_REAL, 0)
            except dx.QueryTimeout:
                signal.setitimer(signal.ITIMER_REAL, 0)
                dropped += 1
                rec.stack.clear()
                continue
            finally:
                signal.setitimer(signal.ITIMER_REAL, 0)
            for fr in list(rec.frames):
                for o in frame_ops(fr):
                    key = (o.get('op'), o.get('op_first'), o.get('impl'), o.get('problem'))
                    if key in seen:
                        continue
                    seen.add(key)
                    o['task'] = (cul, q)
                    o['ext'] = attr
                    out.append(o)
            rec.frames.clear()
    keep = ('kind', 'op', 'op_first', 'impl', 'src', 'hyp', 'problem', 'skipped', 'task', 'ext', 'n_results', 'tokens_inside',
            'tokens')
    return [{k: o[k] for k in keep if k in o} for o in out], dropped, dict(_S.get('variant2') or {}), dict(dx._S.get('variant') or {})


# ------------------------------------------------------------------ inputs

BOUNDARY = {
    'en-us': [
        "tel 138-2010-2015", "2010-2015", "from 2010 to 2015", "between 2014 and 2018", "in 1998 x", "the 21st century", "21st century",
        "week of the 18th", "week of x week of 18th", "month of may or month of 18th", "the month of june 3rd", "week of september.16th", "within 3 days from today", "less than 3 days from today",
        "Feb 1st 2018 to march 3rd", "from 3pm to 4pm", "from 3:30 to 4", "from 3:30 to 4 people", "3 to 4pm", "between 3 and 5pm",
        "from 3 to 4pm and x from 3 to 4pm", "5 to 6 in the afternoon", "in the morning", "3pm to 4pm between", "dinnertime",
        "  past 3 hours", " next 3 hours", "3 hours previous", "3 hours  previous", "within the next 3 hours", "next 5 minutes", "2 upcoming hours",
        "  late monday", "  tomorrow late in the day monday", "tomorrow late in the day monday", "early in the day monday",
        "today after 2:00pm", "1/1/2015 before 2:00 in the afternoon", "today after 2pm tomorrow before 4pm",
        "friday afternoon between 1pm and 4pm", "monday evening next week", "2015-9-23 1pm to 4", "1:30 to 4 2015-9-23",
        "monday pm", "monday, in the afternoon", "in the morning monday", "monday 1pm to 2pm tuesday 3pm to 4pm wednesday 5pm to 6pm",
        "tonight", "rest of the day", "next hour", "this morning from 9 to 10",
        "every day", "each monday", "every 3 days", "9am every day", "every day 9am", "on mondays", "mondays", "every monday at 9am",
        "weekly", "each morning", "christmas", "on thanksgiving day", "new year's eve 2019", "", " ",
    ],
    'es-es': ["del 2010 al 2015", "semana del 18", "de 3pm a 4pm", "mañana por la tarde", "cada lunes", "todos los dias", "navidad", "siglo 21", ""],
    'fr-fr': ["de 2010 à 2015", "de 15h à 16h", "lundi matin", "chaque lundi", "tous les jours", "noël", ""],
    'de-de': ["von 2010 bis 2015", "von 15 bis 16 uhr", "montag nachmittag", "jeden montag", "jeden tag", "weihnachten", ""],
    'pt-br': ["I'll be back at 9:00a.", "I'll be back at 9a.", "de 2010 a 2015", "das 15h às 16h", "segunda de manhã", "toda segunda", "natal", "o primeiro.", ""],
    'it-it': ["dal 2010 al 2015", "dalle 15 alle 16", "lunedì mattina", "ogni lunedì", "ogni giorno", "natale", ""],
}


def build_tasks(ctx, tasks):
    out = []
    for cul in CULTURES:
        for q in BOUNDARY.get(cul, []) + dx.BOUNDARY.get(cul, []):
            out.append((cul, q, REF))
    per = 300 if ctx.thorough else 70
    by_cul = {}
    for t in tasks or []:
        if t[0] == 'DateTime' and t[2] in CULTURES and isinstance(t[3], str) and len(t[3]) <= 160:
            by_cul.setdefault(t[2], []).append(t)
    import datetime
    for cul in CULTURES:
        ts = sorted(set((t[3], t[4]) for t in by_cul.get(cul, [])), key=lambda x: (x[0], str(x[1])))
        r = ctx.rng('dtextract2:' + cul)
        if len(ts) > per:
            ts = r.sample(ts, per)
        for q, ref in ts:
            out.append((cul, q, ref if isinstance(ref, datetime.datetime) else REF))
    seen, uniq = set(), []
    for t in out:
        k = (t[0], t[1])
        if k not in seen:
            seen.add(k)
            uniq.append(t)
    return uniq


def unit_ops(tasks, nproc=16, timeout=15.0):
    if not tasks:
        LAST['variants'] = []
        return [], 0
    by_cul = {}
    for t in tasks:
        by_cul.setdefault(t[0], []).append(t)
    chunks = []
    for cul, ts in sorted(by_cul.items()):
        k = max(1, min(len(ts), nproc // max(1, len(by_cul)) + 1))
        for i in range(k):
            part = ts[i::k]
            if part:
                chunks.append((part, timeout))
    mpctx = multiprocessing.get_context('fork')
    pool = mpctx.Pool(min(nproc, len(chunks)), initializer=_init_worker)
    try:
        parts = pool.map_async(_chunk, chunks, chunksize=1).get(3000)
    finally:
        pool.terminate()
        pool.join()
    ops, dropped, variants = [], 0, []
    for part, d, v2, v1 in parts:
        ops.extend(part)
        dropped += d
        if (v1, v2) not in variants:
            variants.append((v1, v2))
    LAST['variants'] = variants
    return ops, dropped


# ------------------------------------------------------------------ the check

WITNESSES = [
    ('dy.century\t0:0:0\t22\t18:3:0:1:0:1:21', '18:43', 'pt-br "I\'ll be back at 9:00a.": text.index(".") added to an absolute offset'),
    ('dy.century\t1:1:1\t22\t18:3:0:1:0:1:21', '18:22', 'repaired: ordinal + "."'),
    ('dy.year\t0:0:0\t8:17:1', '8:-1', '"tel 138-2010-2015": Token(start, start - length)'),
    ('dy.year\t1:0:0\t8:17:1', '8:17', 'repaired: the match'),
    ('dy.prefix\t27:6:1:9:24', '9:33', '"  tomorrow late in the day monday": match.start() of the stripped prefix used as a source offset'),
    ('dy.single\t10:17\t-\t1:0:9:1:0:0', 'err:AttributeError', 'less-than in front of a relative date: match.index on a Match'),
    ('dy.dtpdur\t0:0:0\t0\t0/7/0/0:0:0/0/0/0/0:0:0:0/0:0:0:0/-/0/0/0/1:0:8:1/0:0:0:0/0:0:0:0', '0:16', '"previous" suffix: + 1'),
    ('dy.dtpdur\t0:0:0\t2\t5/7/0/0:0:0/0/0/0/1:0:4:1/0:0:0:0/-/0/1/0/0:0:0:0/0:0:0:0/0:0:0:0', '0:12', '"  past 3 hours": offsets of the stripped text used as text offsets'),
    ('dy.dtpdur\t0:0:1\t2\t5/7/0/0:0:0/0/0/0/1:0:4:1/0:0:0:0/-/0/1/0/0:0:0:0/0:0:0:0/0:0:0:0', '2:14', 'repaired: moved right by the stripped leading blanks'),
    ('dy.dtp2\t0:3,12:3,30:3\t4:7,16:7,34:7\t1,1,1,1,1', '0:11,16:33', 'second loop: index += 3 after a token'),
    ('dy.dws\t10\t0:3,0:3\t4:6,4:3\t1,1\t-', None, 'merge_date_with_time_period_suffix replay'),
    ('dy.each\t-\t0:6/0/0:6:1', '0:7', 'set_week_day match without a plural ending: + 1 leaves the text'),
]

PROBES = [
    # (signature, property, culture, query)
    ('century-suffix-offset', 'C01', 'pt-br', "I'll be back at 9:00a."),
    ('year-period-negative-length', 'C01', 'en-us', 'tel 138-2010-2015'),
    ('period-prefix-leading-blank', 'C12', 'en-us', '  tomorrow late in the day monday'),
]


def replay_witnesses(ctx):
    ans = common.driver([w[0] for w in WITNESSES])
    for (line, exp, what), a in zip(WITNESSES, ans):
        ctx.count('dtextract2:witness')
        if (exp is not None and a != exp) or a.startswith('bad'):
            ctx.report('correspondence', 'dtextract2-witness', 'witness %r: model answers %s, expected %s (%s)' % (line, a, exp, what),
                       failing_input={'op': line}, property_fails=False)


def oracle(prop, q, spans):
    from . import spanpipe
    if prop == 'C12':
        return [(spans[i], spans[j]) for i, j in spanpipe.overlaps(spans)]
    return [(sp, why) for sp in spans for why in [spanpipe.span_ok(q, sp[0], sp[1], sp[2])] if why]


def probes(ctx, prop):
    """the reachable witnesses, on the recogniser itself"""
    common.setup_repo_imports()
    for sig, p, cul, q in PROBES:
        if p != prop:
            continue
        try:
            spans = dx.pipeline_spans(cul, q, REF)
        except Exception:
            continue
        ctx.count('dtextract2:probe-pipeline')
        bad = oracle(prop, q, spans)
        if bad:
            ctx.report('property', sig, '%s %r: recogniser output %r: %r' % (cul, q, spans, bad),
                       failing_input={'culture': cul, 'query': q, 'reference': REF.isoformat(), 'entities': spans},
                       property_fails=True)


def run_light(ctx, prop):
    replay_witnesses(ctx)
    probes(ctx, prop)


def run(ctx, prop, tasks=None):
    import time
    t0 = time.time()
    replay_witnesses(ctx)
    my = build_tasks(ctx, tasks)
    ops, dropped = unit_ops(my)
    info = ctx.extra['dtextract2'] = {'queries': len(my), 'dropped_timeouts': dropped, 'cultures': CULTURES,
                                      'tree_variant': LAST.get('variants')}
    if len(LAST.get('variants') or []) > 1:
        ctx.report('correspondence', 'dtextract2-variant-probe', 'workers disagree on the variant of the tree: %r' % (LAST['variants'],),
                   failing_input={'variants': LAST['variants']}, property_fails=False)
    lines, live = [], []
    for o in ops:
        if o.get('skipped'):
            ctx.count('dtextract2-skipped:' + o['kind'])
            continue
        if 'op' not in o:
            ctx.report('correspondence', 'dtextract2-instrumentation:' + o.get('kind', '?'), '%s on %r' % (o.get('problem', '?'), o.get('task')),
                       failing_input={'task': o.get('task')}, property_fails=False)
            continue
        live.append((o, len(lines), len(lines) + 1 if o.get('op_first') else None))
        lines.append(o['op'])
        if o.get('op_first'):
            lines.append(o['op_first'])
    ans = common.driver(lines) if lines else []
    hyp, outside = {}, []
    for o, i, j in live:
        a = ans[i]
        k = o['kind']
        ctx.count('dtextract2:' + k)
        if o.get('n_results'):
            ctx.nontriv(('dy', k, o['op'][:200]))
        for h, v in (o.get('hyp') or {}).items():
            d = hyp.setdefault(k + '.' + h, {'true': 0, 'false': 0, 'n': 0})
            if isinstance(v, bool):
                d['true' if v else 'false'] += 1
            else:
                d['n'] += v
        impl = o.get('impl')
        if impl is not None:
            if j is not None:
                parts = [x for x in (ans[j], a) if x != '-']
                a = ','.join(parts) if parts else '-'
            if a != impl:
                ctx.report('correspondence', 'dtextract2-' + k,
                           '%s (%s, %s) on %r: implementation %s, model %s' % (k, o.get('ext'), o['task'][0], o.get('src'), impl, a),
                           failing_input={'task': list(o['task']), 'op': o['op'], 'implementation': impl, 'model': a},
                           property_fails=False)
        if o.get('tokens_inside') is False:
            outside.append(o)
            hyp.setdefault(k + '.tokens_outside_text', {'true': 0, 'false': 0, 'n': 0})['n'] += 1
    info['monitored_hypotheses'] = hyp
    info['ops'] = len(lines)
    # follow-up: tokens outside the text -> does the property fail on the recogniser's output for that query?
    seen, samples = set(), []
    for o in outside:
        cul, q = o['task']
        sig = ROOT_CAUSE.get(o['kind'], 'subextractor2-token-outside-text:%s:%s' % (o['kind'], cul))
        if (sig, cul, q) in seen:
            continue
        seen.add((sig, cul, q))
        per_sig = sum(1 for s in samples if s['signature'] == sig)
        if per_sig < 6:
            samples.append({'signature': sig, 'culture': cul, 'query': q, 'function': o['kind'], 'tokens': o.get('tokens')})
    info['outside_token_samples'] = samples[:20]
    reported = set()
    common.setup_repo_imports()
    for smp in samples:
        if smp['signature'] in reported:
            continue
        try:
            spans = dx.pipeline_spans(smp['culture'], smp['query'], REF)
        except Exception:
            continue
        ctx.count('dtextract2:outside-token-pipeline')
        bad = oracle(prop, smp['query'], spans)
        if bad:
            reported.add(smp['signature'])
            ctx.report('property', smp['signature'],
                       '%s %r: %s handed out tokens %r that are not inside the text; recogniser output %r: %r' % (
                           smp['culture'], smp['query'], smp['function'], smp['tokens'], spans, bad),
                       failing_input={'culture': smp['culture'], 'query': smp['query'], 'reference': REF.isoformat(),
                                      'entities': spans}, property_fails=True)
    for sig, p, cul, q in PROBES:
        if p == prop and sig not in reported:
            probes_one(ctx, prop, sig, cul, q)
    if lines:
        ctx.sample({'op': lines[len(lines) // 2][:300], 'model': ans[len(ans) // 2][:200]})
    info['wall_s'] = round(time.time() - t0, 1)


def probes_one(ctx, prop, sig, cul, q):
    try:
        spans = dx.pipeline_spans(cul, q, REF)
    except Exception:
        return
    ctx.count('dtextract2:probe-pipeline')
    bad = oracle(prop, q, spans)
    if bad:
        ctx.report('property', sig, '%s %r: recogniser output %r: %r' % (cul, q, spans, bad),
                   failing_input={'culture': cul, 'query': q, 'reference': REF.isoformat(), 'entities': spans},
                   property_fails=True)


if __name__ == '__main__':
    # developer mode: python -m lib.dtextract2corr [culture]
    cul = sys.argv[1] if len(sys.argv) > 1 else None
    tasks = [(c, q, REF) for c in CULTURES for q in BOUNDARY.get(c, []) + dx.BOUNDARY.get(c, []) if cul in (None, c)]
    ops, dropped = unit_ops(tasks, nproc=8)
    lines = []
    for o in ops:
        if 'op' in o:
            o['_i'] = len(lines)
            lines.append(o['op'])
            if o.get('op_first'):
                lines.append(o['op_first'])
    ans = common.driver(lines)
    nbad = 0
    kinds = {}
    for o in ops:
        if 'op' not in o:
            print('PROBLEM' if 'problem' in o else 'SKIP', o)
            continue
        kinds[o['kind']] = kinds.get(o['kind'], 0) + 1
        a = ans[o['_i']]
        if o.get('op_first'):
            parts = [x for x in (ans[o['_i'] + 1], a) if x != '-']
            a = ','.join(parts) if parts else '-'
        impl = o.get('impl')
        if impl is not None and a != impl:
            nbad += 1
            print('DIFF', o['kind'], o['task'], '\n   op  ', o['op'], o.get('op_first'), '\n   impl', impl, '\n   lean', a)
        if o.get('tokens_inside') is False:
            print('OUTSIDE', o['kind'], o['task'], o.get('tokens'))
        for h, v in (o.get('hyp') or {}).items():
            if v is False:
                print('HYP-FALSE', o['kind'], h, o['task'])
    print('ops', len(lines), 'bad', nbad, 'dropped', dropped, 'variants', LAST.get('variants'))
    print(kinds)
