"""Regex correspondence: validates the regex translator (harness/translate/regexes.py) and the Lean matcher
(RTV.Re.findAll, through the driver) against the real `regex` module on the same (pattern, string) pairs.

Strings are built from each pattern's own character classes (both ends of every range and the code points just
outside, members and non-members of `\\d \\w \\s` incl. non-ASCII ones, case variants), from strings sampled out of
the pattern itself (so that matches are frequent), mutated and embedded in boundary contexts.  Compared: the list of
`finditer` spans."""
import regex

from lib import common
from lib.common import cps
from translate import regexes as T

EXTRA = ['٤', '５', 'é', '_', ' ', '\n', '\t', 'K', 'ſ', 'İ', 'ı', '中', '.', ':', '-', 'z', 'Z', '0', '\x1c']


def alphabet(ast, acc=None):
    acc = acc if acc is not None else set()
    k = ast[0]
    if k == 'cls':
        for it in ast[1]:
            if it[0] == 'range':
                for c in (it[1], it[2], it[1] - 1, it[2] + 1, (it[1] + it[2]) // 2):
                    if 0 < c < 0x110000 and not 0xD800 <= c <= 0xDFFF:
                        acc.add(chr(c))
            else:
                acc.update({'5', '٤', 'a', '_', 'é', ' ', '\n', '-', '²'})
    elif k in ('seq', 'alt'):
        for x in ast[1]:
            alphabet(x, acc)
    elif k == 'rep':
        alphabet(ast[1], acc)
    elif k == 'grp':
        alphabet(ast[2], acc)
    elif k == 'look':
        alphabet(ast[3], acc)
    return acc


def members(item, r):
    if item[0] == 'range':
        return chr(r.choice([item[1], item[2], r.randint(item[1], item[2])]))
    return {'digit': '7٤', 'word': 'a_9é', 'space': ' \n\t', 'ndigit': 'a .', 'nword': ' .-', 'nspace': 'a.1'}[item[1]][
        r.randrange(2)]


def sample(ast, r, alpha):
    """a string of the pattern's language (assertions ignored) — not necessarily a match in context"""
    k = ast[0]
    if k == 'cls':
        if ast[2] or not ast[1]:
            return r.choice(alpha)
        return members(r.choice(ast[1]), r)
    if k == 'seq':
        return ''.join(sample(x, r, alpha) for x in ast[1])
    if k == 'alt':
        return sample(r.choice(ast[1]), r, alpha)
    if k == 'rep':
        mx = ast[3] if ast[3] is not None else ast[2] + 3
        n = r.choice([ast[2], mx, r.randint(ast[2], mx)])
        return ''.join(sample(ast[1], r, alpha) for _ in range(n))
    if k == 'grp':
        return sample(ast[2], r, alpha)
    return ''


def strings_for(ast, r, n):
    alpha = sorted(alphabet(ast) | set(EXTRA))
    out = ['', alpha[0]]
    for _ in range(n):
        mode = r.random()
        if mode < 0.25:
            s = ''.join(r.choice(alpha) for _ in range(r.randint(1, 12)))
        else:
            s = sample(ast, r, alpha)
            if mode < 0.6 and s:                      # mutate 1-2 positions
                s = list(s)
                for _ in range(r.randint(1, 2)):
                    p = r.randrange(len(s))
                    op = r.random()
                    if op < 0.5:
                        s[p] = r.choice(alpha)
                    elif op < 0.75:
                        del s[p]
                        if not s:
                            break
                    else:
                        s.insert(p, r.choice(alpha))
                s = ''.join(s)
            pre = ''.join(r.choice(alpha) for _ in range(r.choice([0, 0, 1, 1, 2, 3])))
            post = ''.join(r.choice(alpha) for _ in range(r.choice([0, 0, 1, 1, 2, 3])))
            s = pre + s + post
            if r.random() < 0.15:
                s = s + r.choice(alpha) + sample(ast, r, alpha)
        out.append(s[:120])
    return out


def fmt_spans(spans):
    return ';'.join('%d:%d' % (a, b) for a, b in spans)


def run(ctx, names=None, per_pattern=None):
    """regex correspondence for the translated patterns (all, or those in `names`)."""
    ok, raw, bad = T.translated()
    for name, pat, why in bad:
        if names is None or name in names:
            ctx.report('proof', 'regex-untranslatable-' + name, 'pattern %r is outside the translator: %s' % (pat, why))
    n = per_pattern or (6000 if ctx.thorough else 1200)
    lines, impl, meta = [], [], []
    for name, ast, pat, flags, origin in ok:
        if names is not None and name not in names and not name.startswith('t_'):
            continue
        rx = regex.compile(pat, flags)
        r = ctx.rng('recorr', name)
        for s in strings_for(ast, r, n if not name.startswith('t_') else max(n // 4, 300)):
            spans = [m.span() for m in rx.finditer(s)]
            lines.append('re.find\t%s\treal\t%s' % (name, cps(s)))
            impl.append(fmt_spans(spans))
            meta.append((name, pat, s, bool(spans)))
    model = common.driver(lines)
    ctx.count('regex-correspondence', len(lines))
    nmatch = 0
    for (name, pat, s, hit), a, b in zip(meta, impl, model):
        if hit:
            nmatch += 1
            ctx.nontriv(('re', name, s))
        if a != b:
            ctx.report('correspondence', 'regex-' + name,
                       'finditer(%s, %r): regex module %s, Lean matcher on the translated RE %s' % (name, s, a, b),
                       failing_input={'op': 're.find', 'pattern_name': name, 'pattern': pat, 'string': s,
                                      'implementation': a, 'model': b})
    ctx.extra['regex_correspondence'] = {'pairs': len(lines), 'with_match': nmatch}
    if lines:
        ctx.sample({'op': lines[len(lines) // 3], 'implementation': impl[len(lines) // 3]})


def run_captures(ctx, per_pattern=None):
    """capture correspondence: for every translated pattern with named groups, the span of each named group of
    every `finditer` match (regex module) against `RTV.Re.findAllCap` (Lean, one group at a time)."""
    ok, raw, bad = T.translated()
    n = per_pattern or (2500 if ctx.thorough else 600)
    lines, impl, meta = [], [], []
    for name, ast, pat, flags, origin in ok:
        groups = T.GROUPS.get(name) or {}
        if not groups:
            continue
        rx = regex.compile(pat, flags)
        r = ctx.rng('recorr-cap', name)
        for s in strings_for(ast, r, n):
            ms = list(rx.finditer(s))
            for gname, gnum in sorted(groups.items()):
                lines.append('re.findcap\t%s\t%d\treal\t%s' % (name, gnum, cps(s)))
                impl.append(';'.join('%d:%d:%s' % (m.start(), m.end(), ('%d:%d' % m.span(gname)) if m.span(gname) != (-1, -1)
                                                     else '-:-') for m in ms))
                meta.append((name, gname, pat, s, bool(ms)))
    if not lines:
        return
    model = common.driver(lines)
    ctx.count('regex-capture-correspondence', len(lines))
    for (name, gname, pat, s, hit), a, b in zip(meta, impl, model):
        if hit:
            ctx.nontriv(('recap', name, gname, s))
        if a != b:
            ctx.report('correspondence', 'regex-capture-' + name,
                       'finditer(%s, %r) group %s: regex module %s, Lean findAllCap %s' % (name, s, gname, a, b),
                       failing_input={'op': 're.findcap', 'pattern_name': name, 'group': gname, 'pattern': pat, 'string': s,
                                      'implementation': a, 'model': b})
