"""Shared plumbing of the C14 / C15 checks (layer L7 `Timex`).

* canonical dumps of the working tree's `Timex` objects / resolver entries, identical to `RTV/Drv/Timex.lean`;
* `run_ops(ops)`: executes operations against the TREE's `datatypes_timex_expression` in worker processes
  (RLIMIT_AS + a wall-clock limit per operation enforced inside the worker with `setitimer`, and a hard limit in
  the parent) — `TimexRangeResolver.evaluate` can loop for ever with a growing list; such a call answers `hang`
  and is a finding with its input, never an infrastructure error;
* `drive(lines)`: the Lean driver on several shards in parallel."""
import multiprocessing as mp
import os
import resource
import signal
import sys
from concurrent.futures import ThreadPoolExecutor

from lib import common
from lib.common import cps, InfraError

NPROC = min(16, os.cpu_count() or 4)
AS_LIMIT = 3 << 30


class _Timeout(BaseException):
    pass


def _alarm(signum, frame):
    raise _Timeout()


def err_kind(e):
    n = type(e).__name__
    return 'err:' + (n if n in ('TypeError', 'AttributeError', 'ValueError', 'OverflowError', 'KeyError', 'IndexError',
                              'NotImplementedError') else 'Other:' + n)


def show_num(x):
    import decimal
    if x is None:
        return 'N'
    if isinstance(x, bool):
        return 'b%r' % x
    if isinstance(x, int):
        return 'i%d' % x
    if isinstance(x, decimal.Decimal):
        if not x.is_finite():
            return 'd?%s' % x
        sign, digits, exp = x.as_tuple()
        return 'd%d:%d:%d' % (sign, int(''.join(map(str, digits)) or '0'), exp)
    if isinstance(x, float):
        return 'f%d' % int(x) if x == int(x) and abs(x) < 1e15 else 'f?%r' % x
    return '?%r' % (x,)


def show_os(s):
    return 'N' if s is None else 'S' + cps(s)


def show_timex(t):
    tm = getattr(t, '__time', None)
    time = 'N' if tm is None else '%s,%s,%s' % (show_num(tm.hour), show_num(tm.minute), show_num(tm.second))
    we = {None: 'N', True: 'T', False: 'F'}.get(t.weekend, '?%r' % (t.weekend,))
    fields = ['T' if t.now is True else ('F' if t.now is False else '?%r' % (t.now,)),
              show_num(t.years), show_num(t.months), show_num(t.weeks), show_num(t.days), show_num(t.hours),
              show_num(t.minutes), show_num(t.seconds), show_num(t.year), show_num(t.month),
              show_num(t.day_of_month), show_num(t.day_of_week), show_os(t.season), show_num(t.week_of_year), we,
              show_num(t.week_of_month), show_os(t.part_of_day), time]
    try:
        v = 'S' + cps(t.timex_value())
    except _Timeout:
        raise
    except Exception as e:  # noqa
        v = err_kind(e)
    return '|'.join(fields) + ' ## ' + ','.join(sorted(t.types)) + ' ## ' + v


def show_pv(e, name):
    if not hasattr(e, name):
        return 'U'
    v = getattr(e, name)
    return 'N' if v is None else 'S' + cps(str(v))


def show_entry(e):
    return ','.join(show_pv(e, n) for n in ('timex', 'type', 'value', 'start', 'end'))


# ------------------------------------------------------------------ the operations (run inside a worker)

_PKG = {}


def _init_worker():
    resource.setrlimit(resource.RLIMIT_AS, (AS_LIMIT, AS_LIMIT))
    signal.signal(signal.SIGALRM, _alarm)
    common.setup_repo_imports()
    import warnings
    warnings.simplefilter('ignore')
    import datatypes_timex_expression as d
    common.assert_tree_modules(d)
    _PKG['d'] = d


def _ord(o):
    import datetime
    return datetime.date.fromordinal(o)


def _do(op):
    """op = tuple; returns the canonical answer string (same text as the Lean driver's)."""
    import datetime
    d = _PKG['d']
    k = op[0]
    if k == 'parse':
        return show_timex(d.Timex(op[1]))
    if k == 'fromdate':
        return show_timex(d.Timex.from_date(datetime.datetime(op[1], op[2], op[3])))
    if k == 'fromdt':
        return show_timex(d.Timex.from_date_time(datetime.datetime(*op[1:7])))
    if k == 'fromtime':
        return show_timex(d.Timex.from_time(d.Time(op[1], op[2], op[3])))
    if k == 'resolve':
        r = d.TimexResolver.resolve([op[1]], datetime.datetime(op[2], op[3], op[4], *op[5:]))
        return ';'.join(show_entry(e) for e in r.values)
    if k == 'eval':
        res = d.TimexRangeResolver.evaluate(list(op[1]), list(op[2]))
        out = []
        for t in res:
            out.append('S' + cps(t.timex_value()))
        return 'ok ' + ';'.join(out)
    if k == 'evalraw':  # for the oracles: timex_value + fields of every result
        res = d.TimexRangeResolver.evaluate(list(op[1]), list(op[2]))
        return [(t.timex_value(), t.year, t.month, t.day_of_month, t.hour, t.minute, t.second, sorted(t.types))
                for t in res]
    if k in ('collapseD', 'collapseT'):
        fuel, pairs = op[1], op[2]
        h = d.TimexConstraintsHelper()
        if k == 'collapseD':
            rs = [d.DateRange(_ord(a), _ord(b)) for a, b in pairs]
        else:
            rs = [d.TimeRange(d.Time.from_seconds(a), d.Time.from_seconds(b)) for a, b in pairs]
        # `collapse` is `while self.inner_collapse(ranges): True` + sort_range; replayed here step by step so that
        # the unit comparison never hangs: FUEL steps of the tree's own inner_collapse
        for _ in range(fuel):
            if not h.inner_collapse(rs):
                rs = h.sort_range(rs)
                if k == 'collapseD':
                    return ';'.join('%d:%d' % (r.start.toordinal(), r.end.toordinal()) for r in rs)
                return ';'.join('%d:%d' % (int(r.start.get_time()), int(r.end.get_time())) for r in rs)
        return 'hang'
    if k == 'daterange':
        r = d.TimexHelpers.daterange_from_timex(d.Timex(op[1]))
        return '%d:%d' % (r.start.toordinal(), r.end.toordinal())
    if k == 'timerange':
        r = d.TimexHelpers.timerange_from_timex(d.Timex(op[1]))
        a, b = r.start.get_time(), r.end.get_time()
        if a != int(a) or b != int(b):
            return 'nonintegral'
        return '%d:%d' % (int(a), int(b))
    if k == 'expand':
        x = d.TimexHelpers.expand_datetime_range(d.Timex(op[1]))
        c = 'N' if x.duration is None else 'S' + cps(x.duration.timex_value())
        return 'S%s|S%s|%s' % (cps(x.start.timex_value()), cps(x.end.timex_value()), c)
    if k in ('lastday', 'nextday'):
        f = d.TimexDateHelpers.date_of_last_day if k == 'lastday' else d.TimexDateHelpers.date_of_next_day
        r = f(op[1], datetime.datetime(op[2], op[3], op[4], 13, 14, 15))
        return '%d-%d-%d' % (r.year, r.month, r.day)
    if k == 'matching':
        r = d.TimexDateHelpers.dates_matching_day(op[1], _ord(op[2]), _ord(op[3]))
        return ','.join(str(x.toordinal()) for x in r)
    if k == 'weekrange':
        a, b = d.TimexResolver.week_date_range(op[1], op[2])
        return 'S%s,S%s' % (cps(a), cps(b))
    if k == 'monthrange':
        a, b = d.TimexResolver.month_date_range(op[1], op[2])
        return 'S%s,S%s' % (cps(a), cps(b))
    if k == 'yearrange':
        a, b = d.TimexResolver.year_date_range(op[1])
        return 'S%s,S%s' % (cps(a), cps(b))
    if k == 'dateadd':
        return show_timex(d.TimexHelpers.timex_date_add(d.Timex(op[1]), d.Timex(op[2])))
    if k == 'timeadd':
        return show_timex(d.TimexHelpers.timex_time_add(d.Timex(op[1]), d.Timex(op[2])))
    if k == 'durvalue':
        return 'S' + cps(d.TimexValue.duration_value(d.Timex(op[1])))
    if k == 'tostr':
        return 'S' + cps(d.Timex(op[1]).to_string())
    if k == 'settostr':
        return 'S' + cps(d.TimexConvert.convert_timex_set_to_string(d.TimexSet(op[1])))
    if k == 'torel':
        ref = datetime.datetime(op[2], op[3], op[4]) + datetime.timedelta(seconds=op[5])
        return 'S' + cps(d.Timex(op[1]).to_natural_language(ref))
    if k == 'creator':
        f = getattr(d.TimexCreator, op[1])
        ref = datetime.datetime(op[2], op[3], op[4], 13, 14, 15)
        v = f(op[5], ref) if op[1] == 'next_weeks_from_today' else f(ref)
        return 'N' if v is None else 'S' + cps(v)
    if k == 'ctorseq':  # several constructions formatted one after the other IN THIS ORDER in one process
        return [d.Timex(**dict(kw)).timex_value() for kw in op[1]]
    if k == 'ctor':  # regex-independent direction: fields -> Timex(...) -> format -> parse back
        import decimal
        kw = {}
        for name, v in op[1]:
            kw[name] = decimal.Decimal(v[2:]) if isinstance(v, str) and v.startswith('D:') else v
        t = d.Timex(**kw)
        f1 = show_timex(t).split(' ## ')[0]
        v = t.timex_value()
        t2 = d.Timex(v)
        return (v, f1, show_timex(t2).split(' ## ')[0], t2.timex_value())
    if k == 'roundtrip':  # property oracle data for C14: (value, fields(s), fields(value), value2)
        t = d.Timex(op[1])
        f1 = show_timex(t)
        v = t.timex_value()
        t2 = d.Timex(v)
        return (v, f1.split(' ## ')[0], show_timex(t2).split(' ## ')[0], t2.timex_value())
    raise ValueError('unknown op %r' % (k,))


def _guarded(op, limit):
    signal.setitimer(signal.ITIMER_REAL, limit)
    try:
        return _do(op)
    except _Timeout:
        return 'hang'
    except MemoryError:
        return 'hang'
    except RecursionError:
        return 'err:Other:RecursionError'
    except Exception as e:  # noqa
        return err_kind(e)
    finally:
        signal.setitimer(signal.ITIMER_REAL, 0)


def _run_chunk(args):
    chunk, limit = args
    return [_guarded(op, limit) for op in chunk]


_POOL = {}


def pool():
    if 'p' not in _POOL:
        ctx = mp.get_context('fork')
        _POOL['p'] = ctx.Pool(NPROC, initializer=_init_worker)
    return _POOL['p']


def close_pool():
    p = _POOL.pop('p', None)
    if p is not None:
        p.terminate()
        p.join()


def run_ops(ops, limit=5.0, chunk=None):
    """Run ops on the tree's package in the worker pool; per-op wall-clock `limit` seconds ('hang' when exceeded).
    The parent adds a hard limit: a worker that does not come back (a hang the in-worker timer cannot break)
    makes the whole pool restart and the chunk is retried op by op."""
    ops = list(ops)
    if not ops:
        return []
    n = chunk or max(1, min(2000, len(ops) // (NPROC * 4) + 1))
    chunks = [ops[i:i + n] for i in range(0, len(ops), n)]
    p = pool()
    asyncs = [p.apply_async(_run_chunk, ((c, limit),)) for c in chunks]
    out = []
    for c, a in zip(chunks, asyncs):
        hard = 60 + limit * len(c) * 1.5
        try:
            out.extend(a.get(timeout=hard))
        except mp.TimeoutError:
            close_pool()
            # isolate: one op per task with a hard limit each
            p = pool()
            for op in c:
                try:
                    out.extend(p.apply_async(_run_chunk, (([op], limit),)).get(timeout=limit * 3 + 20))
                except mp.TimeoutError:
                    out.append('hang')
                    close_pool()
                    p = pool()
    if len(out) != len(ops):
        raise InfraError('worker pool answered %d of %d operations' % (len(out), len(ops)))
    return out


def drive(lines, shards=None):
    """The Lean driver over `lines`, several processes in parallel (the driver is single-threaded)."""
    lines = list(lines)
    if not lines:
        return []
    k = shards or max(1, min(NPROC, len(lines) // 2000 + 1))
    size = (len(lines) + k - 1) // k
    parts = [lines[i:i + size] for i in range(0, len(lines), size)]
    with ThreadPoolExecutor(max_workers=len(parts)) as ex:
        res = list(ex.map(common.driver, parts))
    return [x for r in res for x in r]


def line_of(op):
    """operation tuple -> driver line"""
    k = op[0]
    if k in ('parse', 'daterange', 'timerange', 'expand', 'durvalue'):
        return 'tx.%s\t%s' % (k, cps(op[1]))
    if k in ('fromdate', 'fromdt', 'fromtime', 'lastday', 'nextday', 'matching', 'weekrange', 'monthrange',
             'yearrange'):
        return 'tx.%s\t%s' % (k, '\t'.join(str(x) for x in op[1:]))
    if k == 'resolve':
        return 'tx.resolve\t%s\t%d\t%d\t%d' % (cps(op[1]), op[2], op[3], op[4])
    if k == 'eval':
        return 'tx.eval\t%d\t%d\t%s\t%d\t%s' % (op[3] if len(op) > 3 else 64, len(op[1]),
                                                 '\t'.join(cps(c) for c in op[1]), len(op[2]),
                                                 '\t'.join(cps(c) for c in op[2]))
    if k in ('collapseD', 'collapseT'):
        return 'tx.%s\t%d\t%d\t%s' % (k, op[1], len(op[2]), '\t'.join('%d\t%d' % p for p in op[2]))
    if k in ('dateadd', 'timeadd'):
        return 'tx.%s\t%s\t%s' % (k, cps(op[1]), cps(op[2]))
    if k in ('tostr', 'settostr'):
        return 'tx.%s\t%s' % (k, cps(op[1]))
    if k == 'torel':
        return 'tx.torel\t%s\t%d\t%d\t%d\t%d' % (cps(op[1]), op[2], op[3], op[4], op[5])
    if k == 'creator':
        return 'tx.creator\t%s\t%d\t%d\t%d' % (op[1], op[2], op[3], op[4]) + ('\t%d' % op[5] if len(op) > 5 else '')
    raise ValueError(k)


def report(ctx, kind, signature, detail, failing_input=None, property_fails=None, cap=6):
    """ctx.report with a per-signature cap for signatures that are not (yet) listed as known findings, so that one
    frequent finding cannot use up the 200 slots of the verdict and hide a different one; every case is counted in
    the evidence (`finding_counts`)."""
    counts = ctx.extra.setdefault('finding_counts', {})
    key = '%s:%s' % (kind, signature)
    counts[key] = counts.get(key, 0) + 1
    known = any(f.get('property') == ctx.prop and f.get('signature') == signature for f in ctx.known.get('findings', []))
    if known or counts[key] <= cap:
        ctx.report(kind, signature, detail, failing_input=failing_input, property_fails=property_fails)
