"""Unit correspondence of RTV.Model.ZhDateTime (Lean driver ops `zh.*`) against the real Chinese parser objects
(ChineseDateParser, ChineseDatePeriodParser, ChineseDurationParser, ChineseDateTimeParser — built the way
chinese/merged_parser_config.py builds them), called directly with constructed texts x boundary-first references, and
pipeline-level property oracles for the Chinese expressions of C08 (`recognize_datetime(text, 'zh-cn', R)`).

The model takes the regex outcomes as inputs; here they are known by construction of the text (numbers, days, units) or
read from the same configuration calls the method makes (`day_of_month[...]`, `unit_map[...]`, `get_swift_day`, the regex
objects), never from the method's result. The string classifiers of the two configuration classes are modelled on the
strings themselves and compared on every alternative of the patterns plus seeded strings.
Used by corr/c08.py: `run(ctx)`."""
import datetime as dt

import regex

from . import common, calcorr, dtpipe, dtcorpus
from .calcorr import fmt_dt, ref_fields, at
from .common import cps

WEEK_PREFIX = {'this': ['这个', '这', '本', '这一'], 'next': ['下', '下个', '下一个', '下一'], 'last': ['上', '上个', '上一个', '上一']}
SPECIAL_WORDS = ['最近', '前天', '后天', '昨天', '明天', '今天', '今日', '明日', '昨日', '大后天', '大前天', '後天', '大後天']
ONE_PREFIX = ['这个', '这一个', '这', '这一', '本', '上上', '上上个', '上个', '上一个', '上', '上一', '下下', '下下个', '下个', '下一个',
              '下', '下一']
ONE_TAIL = ['周末', '週末', '周', '週', '月', '年']
KNOWN = {
    'zh-this-year-to-date': "今年 ('this year') resolves to [1 January, reference) — is_year_to_date('今年') — not to the whole year",
    'zh-ago-month-year-number-ignored': 'N个月前 / N年后: the number is not used (reference.replace(month=month∓1) / replace(year=year∓1))',
    'zh-simple-cases-relative-month': '这个月/下个月/上个月 D1日到D2日: month window of 0-based months on 1-based months, definite TIMEX with '
                                      'values of another year',
    'zh-quarter-4-end': '第四季度: the end is safe_create_from_min_value(year, 13, 1) = 0001-01-01',
}


def show_d(r):
    if not r.success:
        return 'none'
    return '%s\t%s\t%s' % (r.timex, fmt_dt(r.future_value), fmt_dt(r.past_value))


def show_r(r):
    if not r.success:
        return 'none'
    if r.future_value is None:
        return r.timex or ''
    return '%s\t%s\t%s\t%s\t%s' % (r.timex or '', fmt_dt(r.future_value[0]), fmt_dt(r.future_value[1]),
                                fmt_dt(r.past_value[0]), fmt_dt(r.past_value[1]))


def guarded(fn):
    try:
        return fn()
    except (OverflowError, ValueError):
        return 'err:Other'


def opt(v):
    return '-' if v is None else str(v)


def full(rx, text):
    m = regex.search(rx, text)
    return m if m and m.start() == 0 and len(m.group()) == len(text) else None


class Parsers:
    def __init__(self):
        from recognizers_date_time.date_time.chinese.merged_parser_config import ChineseMergedParserConfiguration
        from recognizers_date_time.date_time.chinese import date_parser, dateperiod_parser
        common.assert_tree_modules(date_parser, dateperiod_parser)
        cfg = ChineseMergedParserConfiguration()
        self.dp, self.pp, self.durp, self.dtp = cfg.date_parser, cfg.date_period_parser, cfg.duration_parser, cfg.date_time_parser
        self.tp = cfg.time_parser
        self.variants = probe(self)


PROBE_R = dt.datetime(2020, 1, 31, 14, 30, 0)
PROBE_R2 = dt.datetime(2020, 12, 15, 0, 0, 0)
PREFIX_ANSWER = {'ago': '2019-01-31\t2019-1-31@52200\t2019-1-31@52200',
                 'simple': '(2021-11-01,2021-11-05,P4D)\t2021-11-1@0\t2021-11-5@0\t2020-11-1@0\t2020-11-5@0',
                 'quarter': '(2019-10-01,0001-01-01,P3M)\t2019-10-1@0\t1-1-1@0\t2019-10-1@0\t1-1-1@0'}


def probe(P):
    """Which variant of the three repaired functions does the tree follow?  Each is asked on the input of its regression
    witness (RTV/Props/C08Zh.lean): the pre-fix answer selects the labelled pre-fix model (`zh.*prefix` driver ops), anything
    else is compared with the model of the repaired code."""
    got = {'ago': guarded(lambda: show_d(P.dp.parser_duration_with_ago_and_later('2年前', PROBE_R))),
           'simple': guarded(lambda: show_r(P.pp._parse_simple_cases('这个月1日到5日', PROBE_R2))),
           'quarter': guarded(lambda: show_r(P.pp._parse_quarter('2019年第四季度', PROBE_R)))}
    return {k: ('prefix' if got[k] == PREFIX_ANSWER[k] else 'fixed') for k in got}


def op(P, name):
    return 'zh.' + name + ('prefix' if P.variants.get(name) == 'prefix' else '')


def refs_for(ctx, tag, n_b, n_s, must=()):
    r = ctx.rng(tag)
    bdays = calcorr.boundary_days()
    days = list(must) + r.sample(bdays, min(n_b, len(bdays))) + calcorr.seeded_days(r, n_s)
    return [at(d, calcorr.TIMES[i % 3]) for i, d in enumerate(days)]


MUST = [dt.date(2020, 1, 31), dt.date(2020, 12, 15), dt.date(2020, 2, 29), dt.date(2021, 1, 3), dt.date(2020, 12, 31),
        dt.date(2019, 3, 31), dt.date(2021, 1, 1), dt.date(2024, 2, 29)]
EDGE = [dt.datetime(1, 1, 1), dt.datetime(1, 1, 2, 5), dt.datetime(9999, 12, 31, 1), dt.datetime(9999, 12, 30), dt.datetime(1, 3, 31),
        dt.datetime(9999, 1, 31)]


# ------------------------------------------------------------------ classifiers

def classifier_cases(ctx, P):
    dc, pc = P.dp.config, P.pp.config
    r = ctx.rng('zh-classifiers')
    words = list(SPECIAL_WORDS) + ['明年', '昨晚', '大大后天', '今', '后', '前', '明', '昨', '今天天', '后天天', '大后', '大後天天', '最近的']
    out = []
    for w in words:
        out.append(('zh.swiftday\t%s' % cps(w), (lambda w=w: str(dc.get_swift_day(w))), 'get_swift_day(%r)' % w))
    pw = [p + t for p in ONE_PREFIX for t in ONE_TAIL] + ['周末', '週末', '今年', '明年', '去年', '前年', '后年', '今年3月', '明年五月',
                                                         '去年12月', '五月', '下个星期', '这个星期', '上半年', '下半年', '这月', '本年',
                                                         '下个月', '上个月', '这个月', '上上个月', '下下周', '']
    alphabet = '这本下上个一周週末月年去明前后今星期半3五'
    for _ in range(300 if ctx.thorough else 80):
        pw.append(''.join(r.choice(alphabet) for _ in range(r.randint(1, 5))))
    for w in pw:
        out.append(('zh.sdm\t%s' % cps(w), (lambda w=w: str(pc.get_swift_day_or_month(w))), 'get_swift_day_or_month(%r)' % w))
        out.append(('zh.sy\t%s' % cps(w), (lambda w=w: str(pc.get_swift_year(w))), 'get_swift_year(%r)' % w))
        out.append(('zh.cls\t%s' % cps(w), (lambda w=w: ' '.join('1' if x else '0' for x in (
            pc.is_year_to_date(w), pc.is_week_only(w), pc.is_weekend(w), pc.is_month_only(w), pc.is_year_only(w), pc.is_future(w)))),
            'classifiers(%r)' % w))
    return out


# ------------------------------------------------------------------ date parser

def date_cases(ctx, P, refs):
    dp = P.dp
    dc = dp.config
    r = ctx.rng('zh-date')
    out = []
    dow_words = sorted(dc.day_of_week)
    day_forms = [d for d in ['1号', '15日', '28号', '29日', '30号', '31日', '十二日', '三十一号', '初一', '三十', '二十九日', '5号'] if d in dc.day_of_month]
    month_pre = [(None, None), ('这个月', 0), ('本月', 0), ('下个月', 1), ('上个月', -1)]
    year_pre = [(None, None), ('今年', 0), ('明年', 1), ('去年', -1)]
    unit_code = {'D': 'D', 'W': 'W', 'MON': 'MON', 'Y': 'Y'}
    for i, R in enumerate(list(refs) + EDGE):
        rf = ref_fields(R)
        edge = i >= len(refs)
        for w in (SPECIAL_WORDS if (i % 3 == 0 or edge) else r.sample(SPECIAL_WORDS, 4)):
            out.append(('zh.special\t%s\t%d' % (rf, dc.get_swift_day(w)), (lambda w=w, R=R: show_d(dp.parse_implicit_date(w, R))),
                        'parse_implicit_date(%r, %s)' % (w, R)))
        for rel in ('this', 'next', 'last'):
            for wd in (dow_words if i % 8 == 0 else r.sample(dow_words, 5)):
                t = WEEK_PREFIX[rel][i % len(WEEK_PREFIX[rel])] + wd
                out.append(('zh.wd\t%s\t%s\t%d' % (rel, rf, dc.day_of_week[wd]), (lambda t=t, R=R: show_d(dp.parse_implicit_date(t, R))),
                            'parse_implicit_date(%r, %s)' % (t, R)))
        for wd in (dow_words if i % 8 == 0 else r.sample(dow_words, 5)):
            out.append(('zh.bare\t%s\t%d' % (rf, dc.day_of_week[wd]), (lambda t=wd, R=R: show_d(dp.parse_implicit_date(t, R))),
                        'parse_implicit_date(%r, %s)' % (wd, R)))
        if not edge:
            for dform in (day_forms if i % 4 == 0 else r.sample(day_forms, 4)):
                for (mw, mk) in month_pre:
                    for (yw, yk) in (year_pre if mw else year_pre[:1]):
                        if yw and (i + len(dform)) % 2:
                            continue
                        t = (yw or '') + (mw or '') + dform
                        out.append(('zh.sdate\t%s\t%d\t%s\t%s' % (rf, dc.day_of_month[dform], opt(mk), opt(yk)),
                                    (lambda t=t, R=R: show_d(dp.parse_implicit_date(t, R))), 'parse_implicit_date(%r, %s)' % (t, R)))
        # N天前 / N周后 / N个月前 / N年后
        ns = [1, 2, 3, 7, 10, 30, 100, 365, 1000, 5000] if i % 5 == 0 else [r.randint(1, 5000), r.choice([1, 2, 12, 100])]
        for n in ns:
            for uw in ('天', '周', '週', '个月', '年'):
                if uw in ('个月', '年') and i % 2 and n > 3:
                    continue
                for sw, (b, a) in (('前', (1, 0)), ('以前', (1, 0)), ('后', (0, 1)), ('之后', (0, 1)), ('後', (0, 1))):
                    if sw in ('以前', '之后', '後') and (i + n) % 3:
                        continue
                    t = '%d%s%s' % (n, uw, sw)
                    if not dp.duration_extractor.extract(t, R):
                        continue
                    out.append((op(P, 'ago') + '\t%s\t%s\t%d\t%d\t%d' % (rf, unit_code.get(dc.unit_map.get(uw), 'O'), n, b, a),
                                (lambda t=t, R=R: show_d(dp.parser_duration_with_ago_and_later(t, R))),
                                'parser_duration_with_ago_and_later(%r, %s)' % (t, R)))
        if i % 6 == 0:
            for t, n, uw, b, a in (('三天前', 3, '天', 1, 0), ('两周后', 2, '周', 0, 1), ('十天后', 10, '天', 0, 1), ('二十五天前', 25, '天', 1, 0),
                                   ('一百天前', 100, '天', 1, 0), ('半年前', -1, '年', 1, 0), ('3天', 3, '天', 0, 0), ('两年后', 2, '年', 0, 1)):
                ers = dp.duration_extractor.extract(t, R)
                m = dc._unit_regex.search(t)
                if not ers or not m:
                    continue
                # the number as the method reads it (a separate method of the parser: an input of the modelled function)
                n = dp.parse_chinese_written_number_to_value(t[ers[-1].start:m.start()])
                out.append((op(P, 'ago') + '\t%s\t%s\t%d\t%d\t%d' % (rf, unit_code.get(dc.unit_map.get(uw), 'O'), n, b, a),
                            (lambda t=t, R=R: show_d(dp.parser_duration_with_ago_and_later(t, R))),
                            'parser_duration_with_ago_and_later(%r, %s)' % (t, R)))
    return out


def year_cases(ctx, P):
    """convert_chinese_year_to_number / _convert_year: `whole` and the per-character values come from the same extractor
    and parser objects the methods use."""
    from recognizers_number import Constants as NC
    dp, pp = P.dp, P.pp
    out = []

    def val(ext, par, s):
        er = next(iter(ext.extract(s)), None)
        if er and er.type == NC.SYS_NUM_INTEGER:
            return int(par.parse(er).value)
        return None
    texts = ['二零一九', '二〇二〇', '一九九八', '两千', '二千零一', '九八', '零五', '一二三', '二零零零', '一九', '零零', '五', '二零一九年', '九', '一零',
             '壹玖玖捌', '二千', '三十', '二零二']
    for s in texts:
        w = val(dp.config.integer_extractor, dp.config.number_parser, s) or 0
        ds = ','.join((lambda v: 'x' if v is None else str(v))(val(dp.config.integer_extractor, dp.config.number_parser, c)) for c in s)
        out.append(('zh.cyd\t%d\t%s' % (w, ds), (lambda s=s: str(dp.convert_chinese_year_to_number(s))), 'convert_chinese_year_to_number(%r)' % s))
        w = val(pp.integer_extractor, pp.number_parser, s) or 0
        ds = ','.join((lambda v: 'x' if v is None else str(v))(val(pp.integer_extractor, pp.number_parser, c)) for c in s)
        out.append(('zh.cyp\t%d\t%s' % (w, ds), (lambda s=s: str(pp._convert_year(s, True))), '_convert_year(%r, True)' % s))
    return out


# ------------------------------------------------------------------ date period parser

def period_cases(ctx, P, refs):
    pp = P.pp
    pc = pp.config
    r = ctx.rng('zh-period')
    out = []
    one_words = [p + t for p in ONE_PREFIX for t in ONE_TAIL] + ['周末', '週末', '今年', '明年', '去年', '前年', '后年', '今年3月', '明年五月',
                                                                '去年12月', '五月', '12月', '正月', '上半年', '明年正月', '2月']
    one_words = [w for w in one_words if full(pc.one_word_period_regex, w)]
    core_words = ['这周', '下周', '上周', '本周', '这个月', '下个月', '上个月', '本月', '今年', '明年', '去年', '本年', '下周末', '周末']
    punit = {'D': 'D', 'W': 'W', 'MON': 'M', 'Y': 'Y'}
    months = ['1月', '2月', '5月', '12月', '十二月', '正月']
    seps = ['到', '至', '-']
    for i, R in enumerate(refs):
        rf = ref_fields(R)
        # ---- one word period
        for w in (one_words if i % 6 == 0 else core_words + r.sample(one_words, 6)):
            m = full(pc.one_word_period_regex, w)
            ms = m.group('month') if m and 'month' in m.groupdict() else ''
            mg = pc.month_of_year.get(ms) if ms else None
            out.append(('zh.oneword\t%s\t%s\t%s' % (rf, cps(w), opt(mg)), (lambda w=w, R=R: show_r(pp._parse_one_word_period(w, R))),
                        '_parse_one_word_period(%r, %s)' % (w, R)))
        # ---- simple cases
        pairs = [(1, 5), (1, 31), (28, 31), (29, 30), (22, 4), (R.day, min(R.day + 1, 31)), (r.randint(1, 31), r.randint(1, 31))]
        for (b, e) in pairs[: (7 if i % 4 == 0 else 3)]:
            forms = [(months[(i + b) % len(months)], None)] + [(rel, rel) for rel in ('这个月', '下个月', '上个月')]
            for (mw, rel) in forms:
                for yw, yv in ((None, None), ('2019年', 2019), ('%d年' % R.year, R.year)):
                    if yw and (b + i) % 3:
                        continue
                    t = (yw or '') + mw + '%d日' % b + seps[(i + e) % 3] + '%d日' % e
                    if not full(pc.simple_cases_regex, t) or ('%d日' % b) not in pc.day_of_month:
                        continue
                    mn = None if rel else pc.month_of_year[mw]
                    sw = pc.get_swift_day_or_month(rel) if rel else 0
                    out.append((op(P, 'simple') + '\t%s\t%d\t%d\t%s\t%d\t%d\t%s' % (rf, pc.day_of_month['%d日' % b], pc.day_of_month['%d日' % e], opt(mn), sw,
                                                                      1 if pc.is_future(mw) else 0, opt(yv)),
                                (lambda t=t, R=R: show_r(pp._parse_simple_cases(t, R))), '_parse_simple_cases(%r, %s)' % (t, R)))
        # ---- number with unit / duration
        for n in ([1, 2, 3, 10, 100] if i % 4 == 0 else [r.randint(1, 400)]):
            for uw in ('天', '周', '週', '个月', '月', '年'):
                if uw in ('个月', '月', '年') and n > 40:
                    continue
                for pre in ('前', '过去', '近', '上', '未来', '之后', '后', '下', '未来的'):
                    if (i + n + len(pre)) % 3 and pre not in ('前', '未来'):
                        continue
                    t = '%s%d%s' % (pre, n, uw)
                    u = punit.get(pc.unit_map.get(uw), 'O')
                    m = regex.search(pp.number_combined_with_unit_regex, t)
                    if m and m.group('unit') == uw:
                        before = t[:m.start()].strip().lower()
                        hp, hf = full(pc.past_regex, before) is not None, full(pc.future_regex, before) is not None
                        out.append(('zh.dur\t%s\t%s\t%d\t%d\t%d' % (rf, u, n, hp, hf), (lambda t=t, R=R: show_r(pp._parse_number_with_unit(t, R))),
                                    '_parse_number_with_unit(%r, %s)' % (t, R)))
                    ers = pc.duration_extractor.extract(t, R)
                    if ers and regex.search(pp.unit_regex, ers[0].text) and ers[0].text == '%d%s' % (n, uw):
                        before = t[:ers[0].start].strip().lower()
                        hp, hf = _len_match(pc.past_regex, before), _len_match(pc.future_regex, before)
                        out.append(('zh.dur\t%s\t%s\t%d\t%d\t%d' % (rf, u, n, hp, hf), (lambda t=t, R=R: show_r(pp._parse_duration(t, R))),
                                    '_parse_duration(%r, %s)' % (t, R)))
        if i % 5 == 0:
            for t, n, uw in (('未来两周', 2, '周'), ('前两年', 2, '年'), ('后三年', 3, '年'), ('过去十天', 10, '天')):
                ers = pc.duration_extractor.extract(t, R)
                if ers and regex.search(pp.unit_regex, ers[0].text):
                    before = t[:ers[0].start].strip().lower()
                    hp, hf = _len_match(pc.past_regex, before), _len_match(pc.future_regex, before)
                    out.append(('zh.dur\t%s\t%s\t%d\t%d\t%d' % (rf, punit.get(pc.unit_map.get(uw), 'O'), n, hp, hf),
                                (lambda t=t, R=R: show_r(pp._parse_duration(t, R))), '_parse_duration(%r, %s)' % (t, R)))
        # ---- week of month (the Chinese overrides, called with numbers)
        if i % 3 == 0:
            for c in (1, 2, 3, 4, 5):
                mo = (i + c) % 12 + 1
                for ny in (True, False):
                    out.append(('zh.wom\t%s\t%d\t%d\t%d\t%d' % (rf, c, mo, R.year, 1 if ny else 0),
                                (lambda c=c, mo=mo, ny=ny, R=R: show_r(pp._get_week_of_month(c, mo, R.year, R, ny))),
                                '_get_week_of_month(%d, %d, %d, %s, %s)' % (c, mo, R.year, R, ny)))
    # ---- reference-independent: year, year to year, year and month, quarter, season
    R = refs[0]
    for t in ['2019年', '2019', '1998年', '98年', '05年', '30年', '29年', '二零一九年', '九八年', '一九九八年', '二零年', '2100年', '1500年', '9999年']:
        ys = t.strip()
        m = full(pc.year_regex, ys)
        is_ch = False
        if not m:
            m = full(pp.year_in_chinese_regex, ys)
            is_ch = m is not None
        if not m:
            continue
        s = m.group()
        if pc.is_year_only(s):
            s = s[:-1].strip()
        y0 = pp._convert_year(s, is_ch)
        out.append(('zh.year\t%d\t%d' % (len(s), y0), (lambda t=t: show_r(pp._parse_year(t, R))), '_parse_year(%r)' % t))
    for t, b, e in (('2010年到2012年', 2010, 2012), ('2010到2012', 2010, 2012), ('98年到05年', 98, 5), ('2019年至2019年', 2019, 2019),
                    ('2012年到2010年', 2012, 2010), ('从2000年到2020年', 2000, 2020), ('15年到19年', 15, 19)):
        out.append(('zh.y2y\t%d\t%d' % (b, e), (lambda t=t: guarded(lambda: show_r(pp._parse_year_to_year(t, R)))), '_parse_year_to_year(%r)' % t))
    for t, y0, ms in (('2019年5月', 2019, '5月'), ('19年5月', 19, '5月'), ('98年12月', 98, '12月'), ('2019年12月', 2019, '12月'),
                      ('2019年正月', 2019, '正月'), ('50年5月', 50, '5月'), ('2019-05', 2019, '05'), ('5/2019', 2019, '5'), ('9999年12月', 9999, '12月')):
        out.append(('zh.ym\t%d\t%d' % (y0, pc.month_of_year.get(ms, 0)), (lambda t=t: show_r(pp._parse_year_and_month(t, R))),
                    '_parse_year_and_month(%r)' % t))
    for rel, k in (('明年', 1), ('去年', -1), ('今年', 0)):
        for Rk in refs[:12]:
            t = rel + '3月'
            out.append(('zh.ym\t%d\t%d' % (Rk.year + pc.get_swift_day_or_month(rel), pc.month_of_year.get('3月', 0)),
                        (lambda t=t, Rk=Rk: show_r(pp._parse_year_and_month(t, Rk))), '_parse_year_and_month(%r, %s)' % (t, Rk)))
            for q, qw in ((1, '一'), (2, '2'), (3, '三'), (4, '4')):
                t = '%s第%s季度' % (rel, qw)
                out.append((op(P, 'quarter') + '\t%d\t%d' % (Rk.year + pc.get_swift_day_or_month(rel), pc.cardinal_map[qw]),
                            (lambda t=t, Rk=Rk: show_r(pp._parse_quarter(t, Rk))), '_parse_quarter(%r, %s)' % (t, Rk)))
    for y in (2019, 1998, 19, 95, 50, 2100):
        for q, qw in ((1, '一'), (2, '二'), (3, '3'), (4, '四')):
            t = '%d年第%s季度' % (y, qw)
            if full(pc.quarter_regex, t):
                out.append((op(P, 'quarter') + '\t%d\t%d' % (y, pc.cardinal_map[qw]), (lambda t=t: show_r(pp._parse_quarter(t, R))), '_parse_quarter(%r)' % t))
        for sw_, code in (('夏天', 'SU'), ('春', 'SP'), ('秋季', 'FA'), ('冬', 'WI')):
            t = '%d年%s' % (y, sw_)
            if full(pp.season_with_year_regex, t):
                out.append(('zh.season\t%d\t%s' % (y, code), (lambda t=t: show_r(pp._parse_season(t, R))), '_parse_season(%r)' % t))
    out.append(('zh.season\t-\tWI', (lambda: show_r(pp._parse_season('冬天', R))), "_parse_season('冬天')"))
    return out


def _len_match(rx, s):
    """`m = regex.search(rx, s); m and len(m.group()) == len(s)` (the test of __parse_common_duration_with_unit)."""
    m = regex.search(rx, s)
    return 1 if (m and len(m.group()) == len(s)) else 0


# ------------------------------------------------------------------ duration parser, datetime parser

def duration_cases(ctx, P):
    from recognizers_date_time.date_time.chinese.duration_extractor import ChineseDurationExtractor
    ex = ChineseDurationExtractor()
    durp = P.durp
    r = ctx.rng('zh-duration')
    R = dt.datetime(2020, 1, 31, 14, 30)
    out = []
    units = [('天', 'D'), ('日', 'D'), ('小时', 'H'), ('个小时', 'H'), ('分钟', 'M'), ('秒', 'S'), ('秒钟', 'S'), ('周', 'W'), ('个星期', 'W'),
             ('个月', 'MON'), ('年', 'Y')]
    for n in [1, 2, 3, 7, 10, 24, 30, 60, 100, 365, 1000, 5000] + [r.randint(1, 5000) for _ in range(40 if ctx.thorough else 8)]:
        for uw, code in units:
            t = '%d%s' % (n, uw)
            ers = [e for e in ex.extract(t, R) if e.text == t]
            if not ers:
                continue
            uv = durp.config.unit_value_map.get(code)
            if uv is None:
                continue

            def run(er=ers[0]):
                pr = durp.parse(er, R)
                if pr.value is None:
                    return 'none'
                return '%s\t%s' % (pr.timex_str, pr.value.future_value)
            lt = 1 if durp.is_less_than_day(code) else 0
            out.append(('zh.dtimex\t%d\t%d\t%d' % (lt, n, ord(code[0])), run, 'ChineseDurationParser.parse(%r)' % t, n * uv))
    return out


def datetime_cases(ctx, P, refs):
    dtp = P.dtp
    cfg = dtp.config
    out = []
    texts = ['明天下午3点', '今天8点', '昨天晚上9点30分', '后天上午10点', '明天早上8点15分', '2020年5月1日上午10点', '5月1日下午2点', '大后天中午12点']
    today = ['今晚8点', '明早7点', '今天早上9点', '明晚10点30分', '今晨5点', '昨晚11点']
    for i, R in enumerate(refs):
        for t in texts[i % 2::2] if i % 3 else texts:
            er1 = cfg.date_extractor.extract(t, R)
            er2 = cfg.time_extractor.extract(t, R)
            if not er1 or not er2:
                continue
            pr1 = cfg.date_parser.parse(er1[0], R)
            pr2 = cfg.time_parser.parse(er2[0], R)
            if pr1.value is None or pr2.value is None:
                continue
            tm = pr2.value.future_value
            line = 'zh.merge\t%s\t%s\t%d\t%d\t%d\t%d\t%d' % (fmt_dt(pr1.value.future_value), fmt_dt(pr1.value.past_value), tm.hour, tm.minute,
                                                         tm.second, 1 if cfg.pm_time_regex.search(t) else 0, 1 if cfg.am_time_regex.search(t) else 0)

            def run(t=t, R=R):
                x = dtp._merge_date_and_time(t, R)
                return '%s\t%s' % (fmt_dt(x.future_value), fmt_dt(x.past_value)) if x.success else 'none'
            out.append((line, run, '_merge_date_and_time(%r, %s)' % (t, R)))
        for t in today[i % 2::2] if i % 3 else today:
            ers = cfg.time_extractor.extract(t, R)
            if len(ers) != 1:
                continue
            pr = cfg.time_parser.parse(ers[0], R)
            ms = list(cfg.specific_time_of_day_regex.finditer(t))
            if pr.value is None or not ms:
                continue
            tm = pr.value.future_value
            w = ms[-1].group().lower()
            line = 'zh.tot\t%s\t%d\t%d\t%d\t%d' % (ref_fields(R), cfg.get_swift_day(w), cfg.get_hour(w, tm.hour), tm.minute, tm.second)

            def run2(t=t, R=R):
                x = dtp._parse_time_of_today(t, R)
                return '%s\t%s' % (x.timex[:10], fmt_dt(x.future_value)) if x.success and x.future_value == x.past_value else 'none'
            out.append((line, run2, '_parse_time_of_today(%r, %s)' % (t, R)))
    return out


# ------------------------------------------------------------------ unit level driver

def unit(ctx, P):
    n_b, n_s = (600, 500) if ctx.thorough else (70, 30)
    refs = refs_for(ctx, 'zh-refs', n_b, n_s, MUST)
    cs = classifier_cases(ctx, P) + date_cases(ctx, P, refs) + year_cases(ctx, P) + period_cases(ctx, P, refs) + \
        datetime_cases(ctx, P, refs[:: (1 if ctx.thorough else 2)])
    dcs = duration_cases(ctx, P)
    impl = [guarded(c[1]) for c in cs]
    model = common.driver([c[0] for c in cs])
    hist, shown = {}, {}
    for (line, _f, desc), a, b in zip(cs, impl, model):
        op = line.split('\t')[0].replace('prefix', '')
        hist[op] = hist.get(op, 0) + 1
        if a not in ('none', 'err:Other'):
            ctx.nontriv(('zh', desc))
        if a != b:
            shown[op] = shown.get(op, 0) + 1
            if shown[op] <= 3:
                ctx.report('correspondence', 'zh-' + op[3:], '%s: implementation %s, model %s' % (desc, a, b),
                           failing_input={'op': line, 'call': desc, 'implementation': a, 'model': b})
    # duration parser: TIMEX from the model, value = N x unit (the C10 statement) on the real output
    dimpl = [guarded(c[1]) for c in dcs]
    dmodel = common.driver([c[0] for c in dcs]) if dcs else []
    for (line, _f, desc, want), a, b in zip(dcs, dimpl, dmodel):
        hist['zh.dtimex'] = hist.get('zh.dtimex', 0) + 1
        if a != '%s\t%d' % (b, want):
            shown['zh.dtimex'] = shown.get('zh.dtimex', 0) + 1
            if shown['zh.dtimex'] <= 3:
                ctx.report('correspondence', 'zh-duration', '%s: implementation %s, model %s value %d' % (desc, a, b, want),
                           failing_input={'op': line, 'call': desc, 'implementation': a, 'model': '%s\t%d' % (b, want)})
    for op, n in sorted(hist.items()):
        ctx.count('zh-unit:' + op, n)
    ctx.extra['zh_variants'] = dict(P.variants)
    ctx.sample({'op': cs[len(cs) // 2][0], 'call': cs[len(cs) // 2][2], 'implementation': impl[len(cs) // 2]})
    # the negative witnesses proved in RTV/Props/C08Zh.lean, replayed on the implementation
    witnesses(ctx, P)


def witnesses(ctx, P):
    dp, pp = P.dp, P.pp
    R = dt.datetime(2020, 1, 31, 14, 30, 0)
    r = pp._parse_one_word_period('今年', R)
    if r.success and r.future_value[1] == R:           # zh_this_year_is_year_to_date
        ctx.report('property', 'zh-this-year-to-date', "_parse_one_word_period('今年', %s) -> %s .. %s; the property states the year "
                   '[2020-01-01, 2021-01-01)' % (R, r.future_value[0], r.future_value[1]),
                   failing_input={'op': '_parse_one_word_period', 'expression': '今年', 'reference': str(R), 'implementation': show_r(r),
                                  'property_expects': '2020\t2020-1-1@0\t2021-1-1@0'}, property_fails=True)
    r = guarded(lambda: show_d(dp.parser_duration_with_ago_and_later('2年前', R)))
    if r == PREFIX_ANSWER['ago']:                                        # zh_months_years_prefix_regression
        ctx.report('property', 'zh-ago-month-year-number-ignored', "parser_duration_with_ago_and_later('2年前', %s) -> %s; two years before "
                   'the reference is 2018-01-31' % (R, r),
                   failing_input={'op': 'parser_duration_with_ago_and_later', 'expression': '2年前', 'reference': str(R), 'implementation': r,
                                  'property_expects': '2018-01-31'}, property_fails=True)
    R2 = dt.datetime(2020, 12, 15, 0, 0, 0)
    r = guarded(lambda: show_r(pp._parse_simple_cases('这个月1日到5日', R2)))
    if r.startswith('(2021-11-01,2021-11-05,P4D)'):                     # zh_simple_cases_prefix_regression
        ctx.report('property', 'zh-simple-cases-relative-month', "_parse_simple_cases('这个月1日到5日', %s) -> %s; this month is December 2020" % (R2, r),
                   failing_input={'op': '_parse_simple_cases', 'expression': '这个月1日到5日', 'reference': str(R2), 'implementation': r,
                                  'property_expects': '(2020-12-01,2020-12-05,P4D)'}, property_fails=True)
    r = guarded(lambda: show_r(pp._parse_quarter('2019年第四季度', R)))
    if r.startswith('(2019-10-01,0001-01-01,P3M)'):                     # zh_quarter4_prefix_regression
        ctx.report('property', 'zh-quarter-4-end', "_parse_quarter('2019年第四季度') -> %s; the fourth quarter ends on 2020-01-01" % r,
                   failing_input={'op': '_parse_quarter', 'expression': '2019年第四季度', 'implementation': r,
                                  'property_expects': '(2019-10-01,2020-01-01,P3M)'}, property_fails=True)


# ------------------------------------------------------------------ pipeline level

WD = [('一', 1), ('二', 2), ('三', 3), ('四', 4), ('五', 5), ('六', 6), ('日', 7), ('天', 7)]


def pipeline_cases(ctx):
    """(text, reference, family, params) — the Chinese words of the C08 families."""
    r = ctx.rng('zh-pipeline')
    n_b, n_s = (500, 400) if ctx.thorough else (45, 20)
    refs = refs_for(ctx, 'zh-pipeline-refs', n_b, n_s, MUST[:6])
    cases = []
    special = [('今天', 0), ('明天', 1), ('后天', 2), ('大后天', 3), ('昨天', -1), ('前天', -2), ('大前天', -3), ('今日', 0), ('明日', 1), ('昨日', -1),
               ('後天', 2), ('大後天', 3)]
    for i, R in enumerate(refs):
        for w, k in (special if i % 4 == 0 else special[:7]):
            cases.append((w, R, 'special', k))
        for pre, k in (('下', 1), ('上', -1), ('这', 0), ('本', 0), ('下个', 1), ('上个', -1)):
            for wi, (wc, wd) in enumerate(WD):
                if ctx.thorough or (wi + i + len(pre)) % 3 == 0:
                    stem = ['周', '星期', '礼拜'][(i + wi) % 3]
                    if stem == '周' and wc == '天' and False:
                        continue
                    cases.append((pre + stem + wc, R, 'weekday', (k, wd)))
        for w, fam, k in (('这周', 'week', 0), ('本周', 'week', 0), ('下周', 'week', 1), ('上周', 'week', -1), ('这个月', 'month', 0),
                          ('本月', 'month', 0), ('下个月', 'month', 1), ('上个月', 'month', -1), ('今年', 'year', 0), ('明年', 'year', 1),
                          ('去年', 'year', -1), ('下周末', 'weekend', 1), ('上周末', 'weekend', -1), ('这周末', 'weekend', 0),
                          ('前年', 'year', -2), ('后年', 'year', 2), ('本年', 'year', 0)):
            cases.append((w, R, fam, k))
        ns = [1, 2, 7, 30, 100, 365, 5000] if i < 6 else [r.choice([1, 2, 7, 30, 365, 5000]), r.randint(1, 5000)]
        for n in ns:
            for t, par in (('%d天前' % n, ('day', n, -1)), ('%d天后' % n, ('day', n, 1)), ('%d周前' % n, ('week', n, -1)),
                           ('%d周后' % n, ('week', n, 1)), ('%d天以后' % n, ('day', n, 1)), ('%d天之前' % n, ('day', n, -1))):
                cases.append((t, R, 'ago', par))
        for n in ([1, 2, 3] if i < 6 else [r.randint(1, 12)]):
            cases.append(('%d年前' % n, R, 'agoY', (n, -1)))
            cases.append(('%d年后' % n, R, 'agoY', (n, 1)))
            cases.append(('%d个月前' % n, R, 'agoM', (n, -1)))
            cases.append(('%d个月后' % n, R, 'agoM', (n, 1)))
        for n in ([1, 3, 30] if i < 6 else [r.randint(1, 400)]):
            for pre, hp in (('前', 1), ('过去', 1), ('未来', 0), ('之后', 0)):
                for uw, u in (('天', 'D'), ('周', 'W')):
                    if i >= 6 and (len(pre) + n + (u == 'W')) % 2:
                        continue
                    cases.append(('%s%d%s' % (pre, n, uw), R, 'nwu', (u, n, hp, 1 - hp)))
        for b, e in ((1, 5), (10, 20)):
            for mw in ('5月', '这个月', '下个月', '上个月'):
                cases.append(('%s%d日到%d日' % (mw, b, e), R, 'simple', (mw, b, e)))
        cases.append(('%d年第四季度' % R.year, R, 'quarter', (R.year, 4)))
    return cases


def _pad(s):
    y, m, d = s.split('@')[0].split('-')
    return '%04d-%02d-%02d' % (int(y), int(m), int(d))


def ago_my_oracle(fam, par, R):
    """R shifted by N calendar months / years (day of month kept; None when that day does not exist)."""
    n, sign = par
    y, m = (R.year, R.month)
    if fam == 'agoM':
        y, m = calcorr.shift_month(y, m, sign * n)
    else:
        y += sign * n
    try:
        v = dt.date(y, m, R.day)
    except ValueError:
        return None
    return [{'timex': calcorr.iso(v), 'type': 'date', 'value': calcorr.iso(v)}]


def pipeline(ctx, P=None):
    cases = pipeline_cases(ctx)
    ago_fixed = P is not None and P.variants.get('ago') == 'fixed'
    agomy = [i for i, c in enumerate(cases) if c[2] in ('agoM', 'agoY')] if ago_fixed else []
    agomy_model = dict(zip(agomy, common.driver(['zh.ago\t%s\t%s\t%d\t%d\t%d' % (
        ref_fields(cases[i][1]), 'MON' if cases[i][2] == 'agoM' else 'Y', cases[i][3][0], 1 if cases[i][3][1] < 0 else 0,
        1 if cases[i][3][1] > 0 else 0) for i in agomy]))) if agomy else {}
    res = dtpipe.run([('zh-cn', c[0], c[1]) for c in cases])
    triple_ents, triple_idx = [], []
    nwu = [i for i, c in enumerate(cases) if c[2] == 'nwu']
    nwu_model = dict(zip(nwu, common.driver(['zh.dur\t%s\t%s\t%d\t%d\t%d' % ((ref_fields(cases[i][1]),) + cases[i][3]) for i in nwu]))) if nwu else {}
    for i, ((text, R, fam, par), got) in enumerate(zip(cases, res)):
        ctx.count('zh-pipeline:' + fam)
        ent = None
        if not isinstance(got, str):
            for e in got:
                if e['start'] == 0 and e['end'] == len(text) - 1 and e['values'] is not None:
                    ent = e
        vals = [{k: v for k, v in x.items() if k != 'Mod'} for x in ent['values']] if ent else None
        fi = {'op': 'recognize_datetime', 'query': text, 'culture': 'zh-cn', 'reference': R.strftime('%Y-%m-%d %H:%M:%S'), 'family': fam,
              'params': par, 'implementation': vals if ent else got}
        if ent:
            ctx.nontriv(('zh-pipeline', fam, text, str(R)))
        if fam in ('special', 'weekday', 'week', 'month', 'year', 'weekend', 'ago'):
            want = calcorr.c08_oracle(fam, par, R)
            fi['property_expects'] = want
            if vals == want:
                continue
            if fam == 'year' and par == 0 and vals == calcorr.c08_oracle('ytd', None, R):
                sig = 'zh-this-year-to-date'
            elif vals is None:
                if fam == 'ago' and not (text.endswith('天前') or text.endswith('天后') or text.endswith('周前') or text.endswith('周后')):
                    continue      # 以后 / 之前 …: the extractor is not bound to take the longer suffix; checked when it does
                sig = 'zh-unrecognized-' + fam
            else:
                sig = 'zh-relative-' + fam
            ctx.report('property', sig, '%r (zh-cn) at %s: got %r, the property states %r' % (text, fi['reference'], vals, want),
                       failing_input=fi, property_fails=True)
        elif fam in ('agoM', 'agoY'):
            want = ago_my_oracle(fam, par, R)
            fi['property_expects'] = want
            if i in agomy_model:      # repaired variant: the pipeline prints what the model computes (datedelta semantics included)
                f = agomy_model[i].split('\t')
                mv = [{'timex': f[0], 'type': 'date', 'value': _pad(f[1])}] if len(f) == 3 else None
                fi['model'] = mv
                if vals != mv:
                    ctx.report('correspondence', 'zh-pipeline-ago', '%r (zh-cn) at %s: implementation %r, model %r' % (
                        text, fi['reference'], vals, mv), failing_input=fi)
            if want is None or vals == want:
                continue          # the day does not exist in the target month: nothing demanded
            ctx.report('property', 'zh-ago-month-year-number-ignored', '%r (zh-cn) at %s: got %r, %d %s %s the reference is %r' % (
                text, fi['reference'], vals, par[0], 'months' if fam == 'agoM' else 'years', 'before' if par[1] < 0 else 'after', want),
                failing_input=fi, property_fails=True)
        elif ent:
            if fam == 'nwu':      # pipeline vs the model's prediction (the resolution prints the dates of the values)
                f = nwu_model[i].split('\t')
                mv = [{'timex': f[0], 'type': 'daterange', 'start': _pad(f[1]), 'end': _pad(f[2])}] if len(f) == 5 else nwu_model[i]
                fi['model'] = mv
                if vals != mv:
                    ctx.report('correspondence', 'zh-pipeline-nwu', '%r (zh-cn) at %s: implementation %r, model %r' % (text, fi['reference'], vals, mv),
                               failing_input=fi)
            triple_ents.append(ent)
            triple_idx.append((i, fi))
    for (i, fi), e, (tn, vs) in zip(triple_idx, triple_ents, dtcorpus.evaluate_wf(triple_ents)):
        fam = cases[i][2]
        bad = [v for v, (_s, _d, t) in zip(e['values'], vs) if not t]
        unresolved = [v for v in e['values'] if v.get('value') == 'not resolved' or str(v.get('start', '')).startswith('0001') or
                      str(v.get('end', '')).startswith('0001')]
        if not bad and not unresolved:
            continue
        sig = 'zh-simple-cases-relative-month' if fam == 'simple' and cases[i][3][0] != '5月' else ('zh-quarter-4-end' if fam == 'quarter' else 'zh-triple-' + fam)
        ctx.report('property', sig, '%r (zh-cn) at %s: TIMEX and values disagree: %r' % (cases[i][0], fi['reference'], (bad or unresolved)[:2]),
                   failing_input=fi, property_fails=True)
    ctx.extra['zh_pipeline_cases'] = len(cases)
    ctx.sample({'query': cases[3][0], 'reference': str(cases[3][1]), 'implementation': res[3]})


def run(ctx):
    common.setup_repo_imports()
    P = Parsers()
    unit(ctx, P)
    pipeline(ctx, P)
