"""Access to the working tree's recognisers: all registered (recognizer, model_type, culture) pairs, and calling
a model by name.  Call common.setup_repo_imports() before importing this module's functions' dependencies."""
from . import common

_RECOGNIZERS = None


def recognizers():
    """{name: Recognizer instance (lazy_initialization=False so nothing is built until asked)}"""
    global _RECOGNIZERS
    if _RECOGNIZERS is None:
        common.setup_repo_imports()
        import recognizers_text
        common.assert_tree_modules(recognizers_text)
        from recognizers_number import NumberRecognizer
        from recognizers_number_with_unit import NumberWithUnitRecognizer
        from recognizers_date_time import DateTimeRecognizer
        from recognizers_sequence import SequenceRecognizer
        from recognizers_choice import ChoiceRecognizer
        _RECOGNIZERS = {
            'Number': NumberRecognizer(lazy_initialization=False),
            'NumberWithUnit': NumberWithUnitRecognizer(lazy_initialization=False),
            'DateTime': DateTimeRecognizer(lazy_initialization=False),
            'Sequence': SequenceRecognizer(lazy_initialization=False),
            'Choice': ChoiceRecognizer(lazy_initialization=False),
        }
    return _RECOGNIZERS


def all_pairs():
    """[(recognizer name, model_type_name, culture)] for every registration of the five recognisers."""
    out = []
    for name, rec in recognizers().items():
        for key in rec.model_factory.model_factories:
            out.append((name, key.model_type, key.culture))
    return out


# Specs model name -> model_type_name
SPEC_MODEL = {
    ('Number', 'Number'): 'NumberModel', ('Number', 'Ordinal'): 'OrdinalModel', ('Number', 'Percent'): 'PercentModel',
    ('Number', 'NumberRange'): 'NumberRangeModel',
    ('NumberWithUnit', 'Age'): 'AgeModel', ('NumberWithUnit', 'Currency'): 'CurrencyModel',
    ('NumberWithUnit', 'Dimension'): 'DimensionModel', ('NumberWithUnit', 'Temperature'): 'TemperatureModel',
    ('DateTime', 'DateTime'): 'DateTimeModel',
    ('Sequence', 'PhoneNumber'): 'PhoneNumberModel', ('Sequence', 'IpAddress'): 'IpAddressModel',
    ('Sequence', 'Mention'): 'MentionModel', ('Sequence', 'Hashtag'): 'HashtagModel', ('Sequence', 'Email'): 'EmailModel',
    ('Sequence', 'URL'): 'URLModel', ('Sequence', 'GUID'): 'GUIDModel',
    ('Choice', 'Boolean'): 'BooleanModel',
}


def get_model(recognizer, model_type, culture, fallback=False):
    return recognizers()[recognizer].get_model(model_type, culture, fallback)


def parse(recognizer, model_type, culture, query, reference=None):
    """Run one registered model on a query; date-time models get the explicit reference."""
    model = get_model(recognizer, model_type, culture)
    if recognizer == 'DateTime':
        return model.parse(query, reference)
    return model.parse(query)


def result_tuple(r):
    return (r.start, r.end, r.text, r.type_name, r.resolution)
