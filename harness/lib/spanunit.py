"""Unit-level correspondence for the L2 `Span` layer (C01, C12): run the REAL extractors of the working tree with
their regex calls recorded, and turn every recorded call of a modelled function into one driver operation line
plus the implementation's canonical answer.

Instrumented (inside worker processes only, never in the process that runs the plain pipeline):
  recognizers_number.number.extractors.regex / recognizers_sequence.sequence.extractors.re  -> RegexProxy
  BaseNumberExtractor.extract, BasePercentageExtractor.extract (+ its private preprocess),
  BaseMergedNumberExtractor.extract, SequenceExtractor.extract, BaseIpExtractor.extract,
  BasePhoneNumberExtractor.extract, merge_all_tokens (every importing module), BaseMergedExtractor.add_to

unit_ops(tasks) -> list of dicts {op, impl, kind, note, hyp}: `op` = driver line, `impl` = what the code returned
in the driver's output format, `hyp` = monitored hypotheses of the theorems evaluated on this call."""
import multiprocessing
import signal
import warnings

from . import common
from .common import cps
from .spanpipe import QueryTimeout, _on_alarm

_S = {}


class Recorder:
    def __init__(self):
        self.stack = []
        self.frames = []

    def log(self, entry):
        if self.stack:
            self.stack[-1]['calls'].append(entry)


class RegexProxy:
    """Stands in for the `regex` module object inside one extractor module: same attributes, but finditer/search
    report what they returned."""

    def __init__(self, real, rec):
        self.__dict__['_real'] = real
        self.__dict__['_rec'] = rec

    def __getattr__(self, name):
        return getattr(self._real, name)

    def finditer(self, pattern, string, *a, **k):
        ms = list(self._real.finditer(pattern, string, *a, **k))
        self._rec.log(('finditer', pattern, string, ms))
        return iter(ms)

    def search(self, pattern, string, *a, **k):
        m = self._real.search(pattern, string, *a, **k)
        self._rec.log(('search', pattern, string, m))
        return m


def snap(er):
    return {'start': er.start, 'length': er.length, 'text': er.text, 'type': er.type,
            'data': er.data if isinstance(er.data, str) else None, 'id': id(er), 'meta': getattr(er, 'meta_data', None)}


def _wrap(rec, owner, name, kind, is_method=True, pre=None):
    orig = owner.__dict__[name] if is_method else getattr(owner, name)

    def wrapper(*a, **k):
        fr = {'kind': kind, 'args': a, 'calls': [], 'children': [], 'result': None}
        if pre:
            pre(fr, a)
        if rec.stack:
            rec.stack[-1]['children'].append(fr)
        rec.stack.append(fr)
        try:
            out = orig(*a, **k)
        finally:
            rec.stack.pop()
        fr['raw'] = out
        if isinstance(out, list):
            fr['result'] = [snap(e) for e in out]
            fr['result_ids'] = [id(e) for e in out]
        elif kind in ('mparse', 'presult') and out is not None and hasattr(out, 'start'):
            fr['span'] = (out.start, out.length, out.text, bool(getattr(out, 'value', None)))
        rec.frames.append(fr)
        return out

    wrapper._verif_orig = orig
    return wrapper


def instrument():
    """Install the recorders (idempotent per process). Returns the Recorder."""
    if 'rec' in _S:
        return _S['rec']
    common.setup_repo_imports()
    warnings.filterwarnings('ignore')
    import regex as real_regex
    import importlib
    import sys
    import recognizers_date_time  # noqa: F401
    # NB `import a.b.c as x` would pick up package attributes shadowed by star-imports; go through sys.modules
    NE = importlib.import_module('recognizers_number.number.extractors')
    SE = importlib.import_module('recognizers_sequence.sequence.extractors')
    DU = importlib.import_module('recognizers_date_time.date_time.utilities')
    BM = importlib.import_module('recognizers_date_time.date_time.base_merged')
    common.assert_tree_modules(NE, SE, DU, BM)
    rec = Recorder()
    NE.regex = RegexProxy(real_regex, rec)
    SE.re = RegexProxy(real_regex, rec)
    NE.BaseNumberExtractor.extract = _wrap(rec, NE.BaseNumberExtractor, 'extract', 'num')
    NE.BasePercentageExtractor.extract = _wrap(rec, NE.BasePercentageExtractor, 'extract', 'pct')
    NE.BaseMergedNumberExtractor.extract = _wrap(rec, NE.BaseMergedNumberExtractor, 'extract', 'grp')
    priv = '_BasePercentageExtractor__preprocess_with_number_extracted'
    if priv in NE.BasePercentageExtractor.__dict__:
        NE.BasePercentageExtractor.__dict__  # noqa
        setattr(NE.BasePercentageExtractor, priv, _wrap(rec, NE.BasePercentageExtractor, priv, 'pctpre'))
    SE.SequenceExtractor.extract = _wrap(rec, SE.SequenceExtractor, 'extract', 'seq')
    SE.BaseIpExtractor.extract = _wrap(rec, SE.BaseIpExtractor, 'extract', 'ip')
    SE.BasePhoneNumberExtractor.extract = _wrap(rec, SE.BasePhoneNumberExtractor, 'extract', 'phone')

    def pre_mat(fr, a):
        fr['tokens'] = [(t.start, t.end, t.metadata) if t else None for t in a[0]]

    mat = _wrap(rec, DU, 'merge_all_tokens', 'mat', is_method=False, pre=pre_mat)
    orig_mat = DU.merge_all_tokens
    for name, mod in list(sys.modules.items()):
        if name.startswith('recognizers_date_time') and mod is not None and getattr(mod, 'merge_all_tokens', None) is orig_mat:
            mod.merge_all_tokens = mat

    def pre_addto(fr, a):
        fr['dst'] = [(e.start, e.length, id(e)) for e in a[1]]
        fr['src'] = [(e.start, e.length, id(e)) for e in a[2]]
        fr['keep'] = list(a[1]) + list(a[2])      # keep the objects alive so that ids stay unique

    BM.BaseMergedExtractor.add_to = _wrap(rec, BM.BaseMergedExtractor, 'add_to', 'addto', pre=pre_addto)

    # ---- merged extractor pipeline, Chinese add_to, merged parser push/pop (RTV.Model.Merged)
    def pre_ids(fr, a):
        fr['in'] = [(id(e), e.start, e.length, e.text) for e in a[1]]
        fr['keep'] = list(a[1])

    def pre_src(fr, a):
        fr['keep'] = list(a[1:2])

    BM.BaseMergedExtractor.extract = _wrap(rec, BM.BaseMergedExtractor, 'extract', 'mext')
    for nm, kind in (('filter_unespecific_date_period', 'unspec'), ('_filter_ambiguity', 'amb'),
                     ('add_mod', 'addmod'), ('check_calendar_filter_list', 'cal')):
        if nm in BM.BaseMergedExtractor.__dict__:
            setattr(BM.BaseMergedExtractor, nm, _wrap(rec, BM.BaseMergedExtractor, nm, kind, pre=pre_ids))
    try:
        ZM = importlib.import_module('recognizers_date_time.date_time.chinese.merged_extractor')
        common.assert_tree_modules(ZM)

        def pre_zh(fr, a):
            fr['dst'] = [(e.start, e.length, id(e), e.text) for e in a[1]]
            fr['src'] = [(e.start, e.length, id(e), e.text) for e in a[2]]
            fr['keep'] = list(a[1]) + list(a[2])

        if 'add_to' in ZM.ChineseMergedExtractor.__dict__:
            ZM.ChineseMergedExtractor.add_to = _wrap(rec, ZM.ChineseMergedExtractor, 'add_to', 'zhaddto', pre=pre_zh)
    except ImportError:
        pass
    U = importlib.import_module('recognizers_text.utilities')
    for nm in ('match_begin', 'match_end'):
        orig_fn = U.RegExpUtility.__dict__[nm].__func__

        def logged(pattern, text, trim, _orig=orig_fn, _nm=nm):
            r = _orig(pattern, text, trim)
            rec.log((_nm, pattern, text, None if r is None else (r.index, r.length, bool(r.success))))
            return r

        setattr(U.RegExpUtility, nm, staticmethod(logged))

    def pre_parse(fr, a):
        er = a[1]
        fr['er'] = (er.start, er.length, er.text, er.type, bool(er.meta_data and er.meta_data.has_mod))

    def pre_presult(fr, a):
        er = a[1]
        fr['pushed'] = (er.start, er.length, er.text)

    BM.BaseMergedParser.parse = _wrap(rec, BM.BaseMergedParser, 'parse', 'mparse', pre=pre_parse)
    BM.BaseMergedParser.parse_result = _wrap(rec, BM.BaseMergedParser, 'parse_result', 'presult', pre=pre_presult)
    _S['rec'] = rec
    _S['NE'], _S['SE'] = NE, SE
    return rec


# ------------------------------------------------------------------ frame -> (op line, implementation answer)

def fmt_items(items):
    return ','.join(':'.join(str(x) for x in it) for it in items) if items else '-'


def fmt_ers(rs, tag_of):
    return ';'.join('%d:%d:%s:%s' % (r['start'], r['length'], tag_of(r), cps(r['text'])) for r in rs)


def same_pattern(a, b):
    return a is b or a == b


def conv_num(fr):
    ext, src = fr['args'][0], fr['args'][1]
    if src is None or fr['result'] is None:
        return None
    regexes = list(ext.regexes)
    negp = ext._negative_number_terms
    fi = [c for c in fr['calls'] if c[0] == 'finditer' and not (negp is not None and c[1] is negp)]
    blank = len(src.strip()) == 0
    if blank:
        main = []
    else:
        main = fi[:len(regexes)]
        if len(main) != len(regexes) or any(not same_pattern(c[1], r.re) or c[2] is not src and c[2] != src
                                            for c, r in zip(main, regexes)):
            return {'kind': 'num', 'problem': 'unexpected regex call sequence in BaseNumberExtractor.extract'}
    vals = []
    for r in regexes:
        if r.val not in vals:
            vals.append(r.val)
    ms = [(m.start(), len(m.group()), vals.index(regexes[i].val)) for i, c in enumerate(main) for m in c[3]]
    negs = []
    if negp is not None:
        # what the code took as the negative-term match for the run starting at len(prefix): the result of
        # regex.search (current code) or, when the code scans with finditer, the match ending at the run
        for c in fr['calls']:
            if c[1] is not negp:
                continue
            if c[0] == 'search' and c[3] is not None:
                negs.append((len(c[2]), c[3].start(), c[3].end()))
            elif c[0] == 'finditer':
                m = next((m for m in c[3] if m.end() == len(c[2])), None)
                if m is not None:
                    negs.append((len(c[2]), m.start(), m.end()))
    ambs = [[(m.start(), m.end()) for m in c[3]] for c in fi[len(main):]]
    op = '\t'.join(['sp.num', cps(src), fmt_items(ms), fmt_items(negs),
                    '|'.join(fmt_items(a) for a in ambs) if ambs else '_'])
    bad_type = [r for r in fr['result'] if r['type'] != ext._extract_type]
    impl = fmt_ers(fr['result'], lambda r: str(vals.index(r['data'])) if r['data'] in vals else 'x')
    # monitored hypotheses of sweep_disjoint_number / sweep_spans_number
    neg_inside = all(a <= b <= s for s, a, b in negs)
    runs = merged_runs([(s, l) for s, l, _ in ms], len(src))
    neg_clear = all(not (rs + rl <= s and rs + rl > a) for s, a, b in negs for rs, rl in runs)
    return {'kind': 'num', 'op': op, 'impl': impl, 'src': src, 'n_results': len(fr['result']),
            'hyp': {'NegInside': neg_inside, 'NegClear': neg_clear, 'neg_fired': len(negs)},
            'problem': 'result type is not _extract_type' if bad_type else None,
            'ext': type(ext).__name__}


def merged_runs(spans, n):
    marked = [False] * n
    for s, l in spans:
        for j in range(s, min(s + l, n)):
            marked[j] = True
    out, i = [], 0
    while i < n:
        if marked[i]:
            j = i
            while j < n and marked[j]:
                j += 1
            out.append((i, j - i))
            i = j
        else:
            i += 1
    return out


def conv_seq(fr, kind):
    ext, src = fr['args'][0], fr['args'][1]
    if fr['result'] is None:
        return None
    regexes = list(ext.regexes)
    fi = [c for c in fr['calls'] if c[0] == 'finditer']
    if len(src) == 0:
        main = []
    else:
        main = fi[:len(regexes)]
        if len(main) != len(regexes) or any(not same_pattern(c[1], r.re) for c, r in zip(main, regexes)):
            return {'kind': kind, 'problem': 'unexpected regex call sequence in %s.extract' % type(ext).__name__}
    vals = []
    for r in regexes:
        if r.val not in vals:
            vals.append(r.val)
    ms = []
    for i, c in enumerate(main):
        for m in c[3]:
            if kind == 'ip' or ext._is_valid_match(m):
                ms.append((m.start(), len(m.group()), vals.index(regexes[i].val)))
    op = '\t'.join(['sp.' + kind, cps(src), fmt_items(ms)])
    impl = fmt_ers(fr['result'], lambda r: str(vals.index(r['data'])) if r['data'] in vals else 'x')
    bad_type = [r for r in fr['result'] if r['type'] != ext._extract_type]
    return {'kind': kind, 'op': op, 'impl': impl, 'src': src, 'n_results': len(fr['result']), 'hyp': {},
            'problem': 'result type is not _extract_type' if bad_type else None, 'ext': type(ext).__name__}


def conv_pct(fr):
    ext, src = fr['args'][0], fr['args'][1]
    if fr['result'] is None or len(src) == 0:
        return None
    pre = next((c for c in fr['children'] if c['kind'] == 'pctpre'), None)
    if pre is None or pre.get('raw') is None:
        return None
    child = next((c for c in pre['children'] if c['kind'] in ('num', 'grp')), None)
    if child is None or child['result'] is None:
        return {'kind': 'pct', 'skipped': 'number extractor of %s is not a modelled class' % type(ext).__name__}
    from recognizers_number.resources.base_numbers import BaseNumbers
    tok = BaseNumbers.NumberReplaceToken
    nums = [(r['start'], r['length']) for r in child['result']]
    fi = [c for c in fr['calls'] if c[0] == 'finditer']
    regexes = list(ext.regexes)
    if len(fi) != len(regexes):
        return {'kind': 'pct', 'problem': 'unexpected regex call sequence in BasePercentageExtractor.extract'}
    ms = [(m.start(), len(m.group()), 0) for c in fi for m in c[3]]
    op = '\t'.join(['sp.pct', cps(src), fmt_items(nums), cps(tok), fmt_items(ms)])
    masked, pm = pre['raw'].source, pre['raw'].position
    pml = [pm.get(i) for i in range(len(masked) + 1)]
    impl = '%s|%s|%s' % (cps(masked), ','.join(str(x) for x in pml), fmt_ers(fr['result'], lambda r: '0'))
    bad_type = [r for r in fr['result'] if r['type'] != ext._extract_type]
    return {'kind': 'pct', 'op': op, 'impl': impl, 'src': src, 'n_results': len(fr['result']),
            'hyp': {'nonempty': all(r['length'] > 0 for r in fr['result'])},
            'problem': 'result type is not _extract_type' if bad_type else None, 'ext': type(ext).__name__}


def conv_grp(fr):
    import regex
    ext, src = fr['args'][0], fr['args'][1]
    if fr['result'] is None:
        return None
    child = next((c for c in fr['children'] if c['kind'] == 'num'), None)
    if child is None or child['result'] is None:
        return None
    ers = child['result']
    if not ers:
        return None
    joins = []
    for idx in range(len(ers) - 1):
        a, b = ers[idx], ers[idx + 1]
        if a['data'] is None or b['data'] is None or not a['data'].startswith('Integer') or not b['data'].startswith('Integer'):
            joins.append(0)
            continue
        m = regex.search(ext._round_number_integer_regex_with_locks, a['text'])
        if not m or m.endpos != a['length']:
            joins.append(0)
            continue
        middle = src[a['start'] + a['length']:b['start']].strip()
        if not middle:
            joins.append(1)
            continue
        m = regex.search(ext._connector_regex, middle)
        joins.append(1 if (m and m.pos == 0 and m.endpos == len(middle)) else 0)
    op = '\t'.join(['sp.grp', cps(src), fmt_items([(r['start'], r['length'], i) for i, r in enumerate(ers)]),
                    ','.join(str(j) for j in joins) if joins else '-'])
    # the model re-slices member texts from the source; the code keeps the member's own (stripped) text for
    # singletons: canonicalise singletons on both sides by comparing spans + stripped text
    impl = ';'.join('%d:%d:%s' % (r['start'], r['length'], cps(r['text'].strip())) for r in fr['result'])
    return {'kind': 'grp', 'op': op, 'impl': impl, 'src': src, 'n_results': len(fr['result']), 'hyp': {},
            'problem': None, 'ext': type(ext).__name__, 'strip_text': True}


def conv_mat(fr):
    toks, src = fr['tokens'], fr['args'][1]
    if fr['result'] is None:
        return None
    live = [t for t in toks if t is not None]
    if any(t[0] < 0 or t[1] < 0 for t in live):
        return {'kind': 'mat', 'skipped': 'token with a negative offset'}
    metas = []

    def cls(m):
        for i, x in enumerate(metas):
            if x is m:
                return i
        metas.append(m)
        return len(metas) - 1

    items = [(t[0], t[1], cls(t[2])) for t in live]
    op = '\t'.join(['sp.mat', cps(src), fmt_items(items)])
    impl = fmt_ers(fr['result'], lambda r: str(cls(r['meta'])))
    name = fr['args'][2]
    bad_type = [r for r in fr['result'] if r['type'] != name]
    spans = [(r['start'], r['length']) for r in fr['result']]
    disjoint = all(a[0] + a[1] <= b[0] or b[0] + b[1] <= a[0] for i, a in enumerate(spans) for b in spans[i + 1:])
    return {'kind': 'mat', 'op': op, 'impl': impl, 'src': src, 'n_results': len(fr['result']),
            'hyp': {'start_le_end': all(t[0] <= t[1] for t in live), 'disjoint_out': disjoint,
                    'inside': all(t[1] <= len(src) for t in live),
                    # non-emptiness on the date-time path (C01.mergeAllTokens_nonempty / C12.mergedExtract_disjoint_of_tokens):
                    # nothing in the merge code forbids an empty token — monitored here
                    'nonempty_tokens': all(t[0] < t[1] for t in live),
                    'nonempty_out': all(r['length'] > 0 for r in fr['result'])},
            'problem': 'result type is not the extractor name' if bad_type else None, 'ext': name}


def conv_addto(fr):
    if fr.get('raw') is None:
        return None
    dst, src = fr['dst'], fr['src']
    tags = {}
    for i, (_, _, oid) in enumerate(dst + src):
        tags.setdefault(oid, i)
    op = '\t'.join(['sp.addto', fmt_items([(s, l, tags[o]) for s, l, o in dst]),
                    fmt_items([(s, l, tags[o]) for s, l, o in src])])
    # the snapshot taken when the call returned: add_to returns the destinations list itself, which later calls
    # append to in place
    out = fr['result']
    impl = ';'.join('%d:%d:%s' % (e['start'], e['length'], tags.get(e['id'], 'x')) for e in out)
    opts = getattr(fr['args'][0], 'options', 0)
    try:
        from recognizers_date_time.date_time.utilities import DateTimeOptions
        skipping = bool(opts & DateTimeOptions.SKIP_FROM_TO_MERGE)
    except Exception:
        skipping = False
    if skipping:
        return {'kind': 'addto', 'skipped': 'SKIP_FROM_TO_MERGE set'}
    return {'kind': 'addto', 'op': op, 'impl': impl, 'src': fr['args'][3] if len(fr['args']) > 3 else '',
            'n_results': len(out), 'hyp': {}, 'problem': None, 'ext': 'BaseMergedExtractor'}


def conv_phone(fr):
    """prefix re-spanning: a returned result whose span differs from what SequenceExtractor.extract returned."""
    src = fr['args'][1]
    if fr['result'] is None:
        return []
    inner = next((c for c in fr['children'] if c['kind'] == 'seq'), None)
    if inner is None or inner['result'] is None:
        return []
    before = {r['id']: r for r in inner['result']}
    out = []
    for r in fr['result']:
        b = before.get(r['id'])
        if b is None or (b['start'], b['length']) == (r['start'], r['length']):
            continue
        ms = r['start']
        me = r['length'] - b['length'] + ms - 1
        op = '\t'.join(['sp.phone', cps(src), str(b['start']), str(b['length']), str(ms), str(me)])
        impl = '%d:%d:%s' % (r['start'], r['length'], cps(r['text']))
        out.append({'kind': 'phone', 'op': op, 'impl': impl, 'src': src, 'n_results': 1,
                    'hyp': {'prefix_inside': 0 <= ms <= me <= b['start'] - 1}, 'problem': None, 'ext': 'phone'})
    return out



def _laminar(spans):
    """RTV.Merged.Laminar for every pair: disjoint, or one inside the other"""
    for i, (a, al) in enumerate(spans):
        for (b, bl) in spans[i + 1:]:
            if a + al <= b or b + bl <= a:
                continue
            if (a <= b and b + bl <= a + al) or (b <= a and a + al <= b + bl):
                continue
            return False
    return True


def conv_mext(fr):
    """the whole BaseMergedExtractor.extract as one model call: inputs = the src of every add_to step."""
    ext, src = fr['args'][0], fr['args'][1]
    if fr['result'] is None or getattr(ext, 'options', 0):
        return None
    steps = [c for c in fr['children'] if c['kind'] == 'addto']
    if not steps or any(c.get('raw') is None for c in steps):
        return None
    tags = {}

    def tag(oid):
        return tags.setdefault(oid, len(tags))

    inputs = [[(s_, l_, tag(o)) for s_, l_, o in c['src']] for c in steps]
    chain_ok = all([(x[0], x[1], x[2]) for x in steps[i + 1]['dst']] ==
                   [(r['start'], r['length'], r['id']) for r in steps[i]['result']] for i in range(len(steps) - 1))
    if not chain_ok or steps[0]['dst']:
        return {'kind': 'mext', 'problem': 'add_to steps do not chain (a step\'s destinations are not the previous result)'}
    un = next((c for c in fr['children'] if c['kind'] == 'unspec'), None)
    am = next((c for c in fr['children'] if c['kind'] == 'amb'), None)
    mo = next((c for c in fr['children'] if c['kind'] == 'addmod'), None)
    ca = next((c for c in fr['children'] if c['kind'] == 'cal'), None)
    unspec, ambig, cal, ops = [], [], [], []
    if un is not None:
        rx = ext.config.unspecified_date_period_regex
        unspec = [tag(o) for o, s_, l_, t in un['in'] if rx.search(t) is not None]
    if am is not None and am['result'] is not None:
        left = {r['id'] for r in am['result']}
        ambig = [tag(o) for o, s_, l_, t in am['in'] if o not in left]
    if mo is not None and mo['result'] is not None:
        after = {r['id']: r for r in mo['result']}
        for o, s_, l_, t in mo['in']:
            r = after.get(o)
            if r is None:
                continue
            if r['start'] != s_:
                ops.append((tag(o), 'p', r['start']))
            grow = (r['start'] + r['length']) - (s_ + l_)
            if grow:
                ops.append((tag(o), 'e', grow))
    if ca is not None and ca['result'] is not None:
        left = {r['id'] for r in ca['result']}
        cal = [tag(o) for o, s_, l_, t in ca['in'] if o not in left]
    # which value crossed which destination (for the mechanism note): replay add_to on spans + types
    crossings = []
    objs = {}
    for c in steps:
        for e in c.get('keep', []):
            objs[id(e)] = e
    cur = []
    for c in steps:
        for s_, l_, o in c['src']:
            ov = [d for d in cur if d[0] < s_ + l_ and s_ < d[0] + d[1]]
            cov = [d for d in ov if (s_ < d[0] and d[0] + d[1] <= s_ + l_) or (s_ <= d[0] and d[0] + d[1] < s_ + l_)]
            if not ov:
                cur.append((s_, l_, o))
            elif cov:
                for d in ov:
                    if d not in cov:
                        crossings.append([getattr(objs.get(o), 'type', '?'), [s_, l_], getattr(objs.get(d[2]), 'type', '?'), [d[0], d[1]]])
                i0 = cur.index(cov[0])
                cur = [d for d in cur if d not in cov]
                cur.insert(i0, (s_, l_, o))
    op = '\t'.join(['mg.ext', cps(src), '|'.join(fmt_items(i) for i in inputs) if inputs else '_',
                    fmt_items([(t,) for t in unspec]), fmt_items([(t,) for t in ambig]), fmt_items(ops),
                    fmt_items([(t,) for t in cal])])
    impl = fmt_ers(fr['result'], lambda r: str(tags.get(r['id'], 'x')))
    spans = [(r['start'], r['length']) for r in fr['result']]
    disjoint = all(a[0] + a[1] <= b[0] or b[0] + b[1] <= a[0] for i, a in enumerate(spans) for b in spans[i + 1:])
    inside = all(0 <= r['start'] and r['start'] + r['length'] <= len(src) and
                 r['text'] == src[r['start']:r['start'] + r['length']] for r in fr['result'])
    return {'kind': 'mext', 'op': op, 'impl': impl, 'src': src, 'n_results': len(fr['result']),
            'hyp': {'disjoint_out': disjoint, 'inside_and_slice_out': inside, 'mods': len(ops),
                    # hypotheses hp / hl of mergedExtract_disjoint_of_laminar on this call: every candidate non-empty,
                    # any two candidates nested or apart; and the output non-empty (C01.mergedExtract_nonempty)
                    'inputs_nonempty': all(l_ > 0 for i in inputs for (s_, l_, _t) in i),
                    'laminar_inputs': _laminar([(s_, l_) for i in inputs for (s_, l_, _t) in i]),
                    'nonempty_out': all(r['length'] > 0 for r in fr['result'])},
            'problem': None, 'ext': type(ext).__name__, 'crossings': crossings,
            'out_spans': [[r['start'], r['length'], r['type']] for r in fr['result']], 'n_mods': len(ops)}


def conv_zhaddto(fr):
    if fr.get('raw') is None:
        return None
    dst, src = fr['dst'], fr['src']
    tags = {}
    for i, x in enumerate(dst + src):
        tags.setdefault(x[2], i)
    texts = {tags[x[2]]: x[3] for x in dst + src}
    incl = [(tags[v[2]], tags[d[2]]) for v in src for d in dst + src
            if tags[d[2]] != tags[v[2]] and texts[tags[d[2]]] in texts[tags[v[2]]]]
    op = '\t'.join(['mg.zh', fmt_items([(s_, l_, tags[o]) for s_, l_, o, _ in dst]),
                    fmt_items([(s_, l_, tags[o]) for s_, l_, o, _ in src]), fmt_items(incl)])
    impl = ';'.join('%d:%d:%s' % (e['start'], e['length'], tags.get(e['id'], 'x')) for e in fr['result'])
    spans = [(r['start'], r['length']) for r in fr['result']]
    disjoint = all(a[0] + a[1] <= b[0] or b[0] + b[1] <= a[0] for i, a in enumerate(spans) for b in spans[i + 1:])
    return {'kind': 'zhaddto', 'op': op, 'impl': impl, 'src': fr['args'][3] if len(fr['args']) > 3 else '',
            'n_results': len(fr['result']), 'hyp': {'disjoint_out': disjoint}, 'problem': None,
            'ext': 'ChineseMergedExtractor'}


def conv_mparse(fr):
    """BaseMergedParser.parse: the recorded match facts -> model push / pop; compared with the span the sub-parser
    was given and with the span finally returned."""
    parser = fr['args'][0]
    if getattr(parser, 'options', 0) or 'er' not in fr:
        return None
    start, length, text, typ, has_mod = fr['er']
    inner = next((c for c in fr['children'] if c['kind'] == 'presult'), None)
    if inner is None or 'span' not in inner or 'span' not in fr:
        return None
    cfg = parser.config
    log = [c for c in fr['calls'] if c[0] in ('match_begin', 'match_end')]

    def first(nm, pat):
        return next((c[3] for c in log if c[0] == nm and c[1] is pat), None)

    facts = {'kind': 'none', 'ki': 0, 'kl': 0, 'kb': 0, 'ar': 0, 'ai': 0, 'al': 0, 'ia': 0}
    if has_mod:
        res, is_after = {}, False
        for name, pat in (('before', cfg.before_regex), ('after', cfg.after_regex), ('since', cfg.since_regex),
                          ('around', cfg.around_regex), ('equal', cfg.equal_regex)):
            b = first('match_begin', pat)
            begin_ok = bool(b and b[2])
            fin = b
            if b is not None and not b[2]:
                fin = first('match_end', pat)
                if fin is not None and fin[2]:
                    is_after = True
            res[name] = (begin_ok, fin)
        facts['ia'] = int(is_after)
        ar = res['around'][1]
        if ar is not None and ar[2]:
            facts.update(ar=1, ai=ar[0], al=ar[1])
        for name in ('before', 'after', 'since', 'equal'):
            fin = res[name][1]
            if fin is not None and fin[2]:
                facts.update(kind=name, ki=fin[0], kl=fin[1], kb=int(res[name][0]))
                break
        else:
            sa = first('match_end', getattr(cfg, 'suffix_after', None))
            if sa is not None and sa[2]:
                facts.update(kind='dateAfter', ki=sa[0], kl=sa[1])
    ps, pl, pt = inner['pushed']
    rs, rl, rt, rv = inner['span']
    fs, fl, ft, _ = fr['span']
    if min(start, length, ps, pl, rl) < 0:
        return {'kind': 'mparse', 'skipped': 'negative offset before the pop'}
    op = '\t'.join(['mg.pp', facts['kind'], str(facts['ki']), str(facts['kl']), str(facts['kb']), str(facts['ar']),
                    str(facts['ai']), str(facts['al']), str(facts['ia']), '1' if rv else '0', '1',
                    str(start), str(length), cps(text), str(rs), str(rl), cps(rt)])
    impl = '%d:%d:%s|%d:%d:%s' % (ps, pl, cps(pt), fs, fl, cps(ft))
    extra = []
    if facts['kind'] in ('before', 'after', 'since') and not facts['ar'] and rv and not (facts['ia'] and facts['kind'] != 'before'):
        # one modifier, no `around`, the inner parser resolved: exactly the case the single-modifier functions of RTV.Span
        # (pushPrefix / popPrefix, pushSuffix / popSuffix — theorems push_pop_* of Props/C01) describe; same recorded call,
        # same expected spans (audit item 35: these functions had no correspondence op)
        op2 = '\t'.join(['sp.pushpop', str(facts['ia']), str(facts['ki']), str(facts['kl']), str(start), str(length), cps(text),
                         str(rs), str(rl), cps(rt)])
        extra.append({'kind': 'spushpop', 'op': op2, 'impl': impl, 'src': text, 'n_results': 1, 'problem': None,
                      'ext': type(parser).__name__, 'hyp': {'suffix': bool(facts['ia'])}})
        # modelEnd: `end = start + length - 1` of the result the model reports (Model.parse)
        extra.append({'kind': 'smend', 'op': 'sp.mend\t%d\t%d' % (fs, fl), 'impl': str(fs + fl - 1), 'src': text, 'n_results': 0,
                      'problem': None, 'ext': type(parser).__name__})
    return extra + [{'kind': 'mparse', 'op': op, 'impl': impl, 'src': text, 'n_results': 1 if facts['kind'] != 'none' or facts['ar'] else 0,
            'hyp': {'modifier': facts['kind'] != 'none' or bool(facts['ar']),
                    'two_modifiers': facts['kind'] in ('before', 'after', 'since') and bool(facts['ar']),
                    'sub_parser_keeps_span': (rs, rl, rt) == (ps, pl, pt),
                    'restored_equals_original': (fs, fl, ft) == (start, length, text) or not rv},
            'problem': None, 'ext': type(parser).__name__}]


CONV = {'mext': conv_mext, 'zhaddto': conv_zhaddto, 'mparse': conv_mparse, 'num': conv_num, 'seq': lambda f: conv_seq(f, 'seq'), 'ip': lambda f: conv_seq(f, 'ip'),
        'pct': conv_pct, 'grp': conv_grp, 'mat': conv_mat, 'addto': conv_addto}


def frames_to_ops(frames):
    out = []
    for fr in frames:
        if fr['kind'] == 'phone':
            out.extend(conv_phone(fr))
            continue
        f = CONV.get(fr['kind'])
        if not f:
            continue
        try:
            r = f(fr)
        except Exception as e:     # a converter that cannot read a frame is reported, not hidden
            r = {'kind': fr['kind'], 'problem': 'converter raised %s: %s' % (type(e).__name__, e)}
        if isinstance(r, list):
            out.extend(r)
        elif r:
            out.append(r)
    return out


# ------------------------------------------------------------------ NumberWithUnit b_add filter

def nwu_op(model, query):
    from recognizers_text.utilities import QueryProcessor
    q2 = QueryProcessor.preprocess(query, True)
    items, flat = [], []
    for item in model.extractor_parser:
        prs = []
        for er in item.extractor.extract(q2):
            r = item.parser.parse(er)
            if r.value is not None:
                if isinstance(r.value, list):
                    prs.extend(r.value)
                else:
                    prs.append(r)
        items.append(prs)
    n = 0
    parts = []
    for prs in items:
        its = []
        for p in prs:
            its.append((p.start, p.start + p.length - 1, n))
            flat.append((p.start, p.start + p.length - 1, p.text))
            n += 1
        parts.append(fmt_items(its))
    op = 'sp.nwu\t' + ('|'.join(parts) if parts else '_')
    op2 = 'sp.nwusym\t' + ('|'.join(parts) if parts else '_')
    res = model.parse(query)
    impl = [(r.start, r.end, r.text) for r in res]
    return {'kind': 'nwu', 'op': op, 'op2': op2, 'impl_spans': impl, 'flat': flat, 'src': query, 'n_results': len(res),
            'hyp': {}, 'problem': None, 'ext': type(model).__name__, 'n_items': len(items)}


# ------------------------------------------------------------------ worker side

def _init_worker():
    try:
        common.setup_repo_imports()
        warnings.filterwarnings('ignore')
        from . import recog
        # models inherited from the parent process were built from module objects that setup_repo_imports() has
        # just dropped; build the recognisers again from the freshly imported (and instrumented) modules
        recog._RECOGNIZERS = None
        instrument()
        recog.recognizers()
        _S['recog'] = recog
        signal.signal(signal.SIGALRM, _on_alarm)
    except BaseException as e:     # a raising initializer makes Pool respawn workers forever
        import traceback
        _S['init_error'] = '%s: %s\n%s' % (type(e).__name__, e, traceback.format_exc())


def _strip_ops(ops):
    """keep only picklable, small fields"""
    keep = ('kind', 'op', 'impl', 'src', 'n_results', 'hyp', 'problem', 'ext', 'skipped', 'impl_spans', 'flat',
            'n_items', 'strip_text', 'crossings', 'out_spans', 'n_mods', 'op2')
    return [{k: o[k] for k in keep if k in o} for o in ops]


def _unit_chunk(args):
    tasks, timeout = args
    if 'init_error' in _S:
        raise common.InfraError('unit worker failed to initialise: ' + _S['init_error'])
    recog = _S['recog']
    rec = _S['rec']
    out = []
    seen = set()
    dropped = 0
    for (rcg, mt, cul, q, ref) in tasks:
        rec.frames.clear()
        rec.stack.clear()
        try:
            model = recog.get_model(rcg, mt, cul)
        except Exception:
            continue
        signal.setitimer(signal.ITIMER_REAL, timeout, 1.0)   # repeats: a raise swallowed by a __del__ fires again
        try:
            if rcg == 'NumberWithUnit':
                try:
                    o = nwu_op(model, q)
                    o['task'] = (rcg, mt, cul, q)
                    out.append(o)
                except QueryTimeout:
                    raise
                except Exception:
                    pass
            elif rcg == 'DateTime':
                model.parse(q, ref)
            else:
                model.parse(q)
            signal.setitimer(signal.ITIMER_REAL, 0)
        except QueryTimeout:
            signal.setitimer(signal.ITIMER_REAL, 0)
            dropped += 1
            rec.stack.clear()
            continue
        finally:
            signal.setitimer(signal.ITIMER_REAL, 0)
        for o in frames_to_ops(rec.frames):
            key = (o.get('op'), o.get('impl'))
            if 'op' in o and key in seen:
                continue
            seen.add(key)
            o['task'] = (rcg, mt, cul, q)
            out.append(o)
        rec.frames.clear()
    res = _strip_ops(out)
    for o, s in zip(out, res):
        s['task'] = o.get('task')
    return res, dropped


class UnitRun:
    """The instrumented pass, started asynchronously so that it overlaps the plain pipeline pass."""

    def __init__(self, tasks, nproc=16, timeout=10.0, cache=True):
        import sys
        from . import spanpipe
        self.spanpipe = spanpipe
        self.pool = self.async_res = self.hit = self.key = None
        self.tasks = tasks
        if not tasks:
            self.hit = {'ops': [], 'dropped': 0}
            return
        if cache:
            self.key = spanpipe.cache_key('unit', [[t[0], t[1], t[2], t[3], str(t[4])] for t in tasks] + [timeout],
                                          sys.modules[__name__], spanpipe)
            self.hit = spanpipe.cache_get(self.key)
            if self.hit is not None:
                return
        bins = spanpipe.plan_bins(tasks, nproc, scale=2.0)
        chunks = [([tasks[i] for i in idxs], timeout) for idxs in bins]
        mpctx = multiprocessing.get_context('fork')
        self.pool = mpctx.Pool(min(nproc, len(chunks)), initializer=_init_worker)
        self.async_res = self.pool.map_async(_unit_chunk, chunks, chunksize=1)

    def get(self):
        if self.hit is not None:
            return self.hit['ops'], self.hit['dropped'], 'hit'
        try:
            parts = self.async_res.get(3000)
        finally:
            self.pool.terminate()
            self.pool.join()
        ops, dropped = [], 0
        for part, d in parts:
            ops.extend(part)
            dropped += d
        if self.key and not dropped:
            self.spanpipe.cache_put(self.key, {'ops': ops, 'dropped': dropped})
        return ops, dropped, 'miss'


def unit_ops(tasks, nproc=16, timeout=10.0, cache=True):
    ops, dropped, _ = UnitRun(tasks, nproc, timeout, cache).get()
    return ops, dropped
