"""Shared plumbing of the /verif checks: paths, the tie to /repo's working tree, the Lean build / audit /
driver calls, evidence and replay files, known findings, verdict.  Runs under /venv/bin/python (the interpreter
the repository's code runs in)."""
import fcntl
import hashlib
import json
import os
import random
import re
import subprocess
import sys
import time

VERIF = os.path.dirname(os.path.dirname(os.path.dirname(os.path.abspath(__file__))))
REPO = os.environ.get('VERIF_REPO', '/repo')
LEAN = os.path.join(VERIF, 'lean')
GEN = os.path.join(LEAN, 'RTV', 'Gen')
SHIMS = os.path.join(VERIF, 'harness', 'shims')
LIBS = ['recognizers-text', 'recognizers-number', 'recognizers-number-with-unit', 'recognizers-date-time',
        'recognizers-sequence', 'recognizers-choice', 'datatypes-timex-expression']
GUARD = 'RECOGNIZERS_TEXT_VERIF'
ALLOWED_AXIOMS = {'propext', 'Classical.choice', 'Quot.sound'}
TRUSTED_BASE = [
    'Lean 4.33.0 kernel (lake build; thorough tier also leanchecker)',
    'axioms allowed in property theorems: propext, Classical.choice, Quot.sound (audited with Lean.collectAxioms on the compiled modules every run); no native_decide / bv_decide / sorry / own axioms',
    'translator harness/translate/*.py (data of the working tree -> RTV/Gen/*.lean, regenerated every run)',
    'correspondence harness harness/corr/*.py + Lean driver (model vs implementation on the same operations)',
    'shims harness/shims (datedelta, grapheme, ruamel.yaml: third-party packages absent from the sandbox)',
    'CPython 3.12 / regex module behaviour (str methods, Unicode tables exported from the running interpreter)',
]


def repo_paths():
    return [SHIMS] + [os.path.join(REPO, 'Python', 'libraries', l) for l in LIBS]


def setup_repo_imports():
    """Make `import recognizers_*` resolve to /repo's working tree (never site-packages) with the shims."""
    os.environ[GUARD] = '1'
    for p in reversed(repo_paths()):
        if p in sys.path:
            sys.path.remove(p)
        sys.path.insert(0, p)
    root = os.path.realpath(REPO) + os.sep
    for name in list(sys.modules):
        if name.split('.')[0] in ('recognizers_text', 'recognizers_number', 'recognizers_number_with_unit',
                                  'recognizers_date_time', 'recognizers_sequence', 'recognizers_choice',
                                  'datatypes_timex_expression', 'recognizers_suite'):
            f = os.path.realpath(getattr(sys.modules[name], '__file__', '') or '')
            if not f.startswith(root):   # only evict copies that did not come from the working tree (idempotent)
                del sys.modules[name]
    import warnings
    warnings.filterwarnings('ignore', category=SyntaxWarning)


def child_env():
    env = dict(os.environ)
    env['PYTHONPATH'] = os.pathsep.join(repo_paths() + [os.path.join(VERIF, 'harness')])
    env['PYTHONHASHSEED'] = '0'
    env[GUARD] = '1'
    return env


def assert_tree_modules(*mods):
    """Refuse to run when a module came from anywhere but the working tree (site-packages trap)."""
    for m in mods:
        f = os.path.realpath(getattr(m, '__file__', '') or '')
        if not f.startswith(os.path.realpath(REPO) + os.sep):
            raise InfraError('module %s loaded from %s, not from %s' % (m.__name__, f, REPO))


class InfraError(Exception):
    pass


# ---------------------------------------------------------------- strings on the wire

def cps(s):
    """str -> space separated decimal code points ('-' for the empty string)."""
    return ' '.join(str(ord(c)) for c in s) if s else '-'


def uncps(f):
    return '' if f == '-' or f == '' else ''.join(chr(int(x)) for x in f.split(' '))


# ---------------------------------------------------------------- Lean: lock, translate, build, audit, driver

class LakeLock:
    def __init__(self):
        self.path = os.path.join(LEAN, '.lake-lock')

    def __enter__(self):
        self.f = open(self.path, 'w')
        fcntl.flock(self.f, fcntl.LOCK_EX)
        return self

    def __exit__(self, *a):
        fcntl.flock(self.f, fcntl.LOCK_UN)
        self.f.close()


def write_if_changed(path, text):
    try:
        with open(path, encoding='utf-8') as f:
            if f.read() == text:
                return False
    except FileNotFoundError:
        pass
    os.makedirs(os.path.dirname(path), exist_ok=True)
    tmp = path + '.tmp%d' % os.getpid()
    with open(tmp, 'w', encoding='utf-8') as f:
        f.write(text)
    os.replace(tmp, path)
    return True


def run(cmd, cwd=None, timeout=3600, env=None, input=None):
    p = subprocess.run(cmd, cwd=cwd, env=env, input=input, stdout=subprocess.PIPE, stderr=subprocess.STDOUT,
                       timeout=timeout, text=True)
    return p.returncode, p.stdout


def translate(which=None):
    """Regenerate RTV/Gen/*.lean from /repo's working tree (write-if-changed). `which`: list of generator
    names (modules of harness/translate) or None for all."""
    from translate import ALL
    changed = []
    errors = []
    index_path = os.path.join(GEN, '.index.json')
    with LakeLock():
        try:
            index = json.load(open(index_path))
        except Exception:
            index = {}
        for name, fn in ALL.items():
            if which is not None and name not in which:
                # the compiled driver imports every layer, so every generated file must at least EXIST: a generator that
                # has never run in this workspace (fresh restore, a translator added since setup) runs once here
                paths = index.get(name)
                if paths and all(os.path.exists(os.path.join(LEAN, q)) for q in paths):
                    continue
            try:
                outs = []
                for path, text in fn():
                    outs.append(os.path.relpath(path, LEAN))
                    if write_if_changed(path, text):
                        changed.append(os.path.relpath(path, LEAN))
                index[name] = outs
            except Exception as e:  # a translator that cannot read the tree is reported, not hidden
                errors.append('%s: %s: %s' % (name, type(e).__name__, e))
        try:
            os.makedirs(GEN, exist_ok=True)
            with open(index_path + '.tmp', 'w') as f:
                json.dump(index, f)
            os.replace(index_path + '.tmp', index_path)
        except OSError:
            pass
    return changed, errors



def gens_imported_by(modules):
    """Translator names whose generated files lie in the import closure of the given Lean modules (read off the `import`
    lines of lean/RTV/**.lean and the translator -> files index written by `translate`). A check regenerates AT LEAST these:
    a theorem must never be re-checked against a stale copy of data it imports."""
    import re as _re
    seen, todo, gen_files = set(), list(modules), set()
    while todo:
        m = todo.pop()
        if m in seen or not m.startswith('RTV'):
            continue
        seen.add(m)
        path = os.path.join(LEAN, *m.split('.')) + '.lean'
        if m.startswith('RTV.Gen.'):
            gen_files.add(os.path.relpath(path, LEAN))
        try:
            with open(path, encoding='utf-8') as f:
                for line in f:
                    mm = _re.match(r'\s*import\s+(\S+)', line)
                    if mm:
                        todo.append(mm.group(1))
                    elif line.strip() and not line.startswith(('import', '--', '/-', ' ', '-/')):
                        break
        except OSError:
            pass
    try:
        index = json.load(open(os.path.join(GEN, '.index.json')))
    except Exception:
        return None            # no index yet (fresh workspace): regenerate everything
    return sorted(name for name, outs in index.items() if set(outs) & gen_files)

def lake_build(targets, timeout=3000):
    with LakeLock():
        rc, out = run(['lake', 'build'] + list(targets), cwd=LEAN, timeout=timeout)
    return rc, out


def audit(modules):
    """-> (theorems: {name: [axioms]}, suspects: [str], raw)"""
    with LakeLock():
        rc, out = run(['lake', 'env', 'lean', '--run', 'Audit.lean'] + list(modules), cwd=LEAN, timeout=600)
    thms, suspects = {}, []
    for line in out.splitlines():
        m = re.match(r'THEOREM (\S+) (\S+) AXIOMS (.*)$', line)
        if m:
            thms[m.group(1) + ':' + m.group(2)] = [a for a in m.group(3).split(',') if a]
        elif line.startswith('SUSPECT'):
            suspects.append(line)
    if rc != 0:
        raise InfraError('audit failed: ' + out[-2000:])
    return thms, suspects, out


FORBIDDEN = re.compile(r'\b(sorry|admit|native_decide|bv_decide|implemented_by|unsafe|axiom|maxHeartbeats\s+0|skipKernelTC|extern|ofReduceBool|reduceBool)\b|\+native\b')


def grep_forbidden(files):
    """Source-level scan (comments stripped) for constructs the trusted base excludes."""
    hits = []
    for f in files:
        try:
            src = open(f, encoding='utf-8').read()
        except FileNotFoundError:
            continue
        src = re.sub(r'/-.*?-/', lambda m: '\n' * m.group(0).count('\n'), src, flags=re.S)
        for i, line in enumerate(src.splitlines(), 1):
            line = line.split('--')[0]
            if FORBIDDEN.search(line):
                hits.append('%s:%d: %s' % (os.path.relpath(f, LEAN), i, line.strip()))
    return hits


def module_files(mod):
    return os.path.join(LEAN, *mod.split('.')) + '.lean'


def transitive_local_imports(mod, seen=None):
    seen = seen if seen is not None else []
    if mod in seen:
        return seen
    seen.append(mod)
    try:
        src = open(module_files(mod), encoding='utf-8').read()
    except FileNotFoundError:
        return seen
    for m in re.finditer(r'^import\s+(RTV\.\S+)', src, flags=re.M):
        transitive_local_imports(m.group(1), seen)
    return seen


def no_correspondence_marks(props_modules):
    """`-- no correspondence: <names>: <reason>` lines of the local Lean modules in the import closure of the given modules
    -> ['<module>: <names>: <reason>', …]"""
    mods = []
    for m in props_modules:
        transitive_local_imports(m, mods)
    out = []
    for m in mods:
        try:
            with open(module_files(m), encoding='utf-8') as f:
                for line in f:
                    mm = re.search(r'--\s*no correspondence:\s*(.+?)\s*(-/)?\s*$', line)
                    if mm:
                        out.append('%s: %s' % (m, mm.group(1)))
        except OSError:
            pass
    return out


DRIVER_EXE = os.path.join(LEAN, '.lake', 'build', 'bin', 'rtvdriver')


def driver(lines, timeout=3000):
    """Pipe operation lines to the Lean model driver, return its answer lines (same count)."""
    data = '\n'.join(lines) + '\n'
    if os.path.exists(DRIVER_EXE):
        cmd = [DRIVER_EXE]
    else:
        cmd = ['lake', 'env', 'lean', '--run', 'Driver.lean']
    p = subprocess.run(cmd, cwd=LEAN, input=data, stdout=subprocess.PIPE, stderr=subprocess.PIPE, text=True,
                       timeout=timeout)
    out = p.stdout.split('\n')
    if out and out[-1] == '':
        out.pop()
    if p.returncode != 0 or len(out) != len(lines):
        raise InfraError('driver failed rc=%s answered %d of %d lines: %s' % (
            p.returncode, len(out), len(lines), p.stderr[-1500:]))
    # a malformed numeric field (Drv/Proto.lean parseNat / parseInt) or another panic is answered `err:BadArg` / `err:Panic`
    # (never a value computed from a silently defaulted 0): counted for the evidence (`driver_bad_arguments`)
    for l, o in zip(lines, out):
        if o in ('err:BadArg', 'err:Panic'):
            op = l.split('\t', 1)[0]
            DRIVER_BAD['count'] += 1
            DRIVER_BAD['by_operation'][o + ' ' + op] = DRIVER_BAD['by_operation'].get(o + ' ' + op, 0) + 1
            if len(DRIVER_BAD['examples']) < 8:
                DRIVER_BAD['examples'].append(l[:300])
    if p.stderr and DRIVER_BAD['count'] and len(DRIVER_BAD['messages']) < 8:
        DRIVER_BAD['messages'].extend(p.stderr.splitlines()[:8 - len(DRIVER_BAD['messages'])])
    return out


DRIVER_BAD = {'count': 0, 'by_operation': {}, 'examples': [], 'messages': []}


# ---------------------------------------------------------------- findings, replay, evidence

def load_known():
    try:
        return json.load(open(os.path.join(VERIF, 'known_findings.json'), encoding='utf-8'))
    except FileNotFoundError:
        return {'findings': [], 'fixed': []}


ERR_OTHER = {}     # exception type -> count of the exceptions a check canonicalised to `err:Other[:Type]` (main process)
REQUIRED = os.path.join(VERIF, 'harness', 'required')


def load_required(prop):
    """harness/required/<Cxx>.txt -> list of `Module:Full.Theorem.Name` (or None when there is no list)."""
    try:
        with open(os.path.join(REQUIRED, prop + '.txt'), encoding='utf-8') as f:
            return [l.strip() for l in f if l.strip() and not l.startswith('#')]
    except FileNotFoundError:
        return None


SETS = os.path.join(VERIF, 'findings', 'sets')


def set_file_name(signature):
    """File name of the failing set of a recorded signature (findings/sets/<property>/<this>.json)."""
    return re.sub(r'[^A-Za-z0-9._:+=-]', '_', signature) + '.json'


def load_sets(prop):
    """The committed per-signature failing sets of a property: {signature: {'failing': set(keys), 'file': path, ...}}.
    A recorded finding with a failing set exempts exactly the inputs (keys) of the set: the same signature on an input
    outside the set is a new violation; an input of the set that passes today is listed as stale (never an alarm)."""
    out = {}
    d = os.path.join(SETS, prop)
    try:
        names = sorted(os.listdir(d))
    except OSError:
        return out
    for n in names:
        if not n.endswith('.json') or n == NARROW_FILE:
            continue
        try:
            with open(os.path.join(d, n), encoding='utf-8') as f:
                j = json.load(f)
        except (OSError, ValueError) as e:
            raise InfraError('unreadable failing set %s: %s' % (os.path.join(d, n), e))
        if j.get('property') != prop or 'signature' not in j or not isinstance(j.get('failing'), list):
            raise InfraError('malformed failing set %s (property / signature / failing)' % os.path.join(d, n))
        j['file'] = os.path.relpath(os.path.join(d, n), VERIF)
        j['failing'] = set(j['failing'])
        out[j['signature']] = j
    return out


NARROW_FILE = 'narrow.json'


def load_narrow(prop):
    """findings/sets/<property>/narrow.json: {recorded input-keyed signature (old spelling, no WHAT): [new-style signatures
    observed for it on the unchanged tree]}.  An entry recorded under the old spelling then matches only these."""
    path = os.path.join(SETS, prop, NARROW_FILE)
    try:
        with open(path, encoding='utf-8') as f:
            j = json.load(f)
    except FileNotFoundError:
        return {}
    except (OSError, ValueError) as e:
        raise InfraError('unreadable %s: %s' % (path, e))
    if j.get('property') != prop or not isinstance(j.get('narrow'), dict):
        raise InfraError('malformed %s (property / narrow)' % path)
    return j['narrow']


def input_key(failing_input):
    """Default key of an input in a failing set: culture|query[|reference] of the usual failing_input dict."""
    if isinstance(failing_input, dict) and 'query' in failing_input:
        k = '%s|%s' % (failing_input.get('culture', ''), failing_input['query'])
        ref = failing_input.get('reference', failing_input.get('ref'))
        if ref is not None:
            k += '|' + (ref if isinstance(ref, str) else ','.join(str(x) for x in ref))
        return k
    if isinstance(failing_input, str):
        return failing_input
    return None if failing_input is None else json.dumps(failing_input, sort_keys=True, ensure_ascii=False, default=str)


def seed_from_env():
    try:
        return int(os.environ.get('VERIF_SEED', '1'))
    except ValueError:
        return 1


def rng_for(seed, *tags):
    h = hashlib.sha256(('%d|' % seed + '|'.join(str(t) for t in tags)).encode()).hexdigest()
    return random.Random(int(h[:16], 16))


def write_replay(prop, payload):
    os.makedirs(os.path.join(VERIF, 'replays'), exist_ok=True)
    blob = json.dumps(payload, ensure_ascii=False, sort_keys=True, indent=1, default=str)
    name = '%s-%s.json' % (prop, hashlib.sha256(blob.encode()).hexdigest()[:12])
    path = os.path.join(VERIF, 'replays', name)
    with open(path, 'w', encoding='utf-8') as f:
        f.write(blob)
    return path


def write_evidence(prop, tier, seed, level, coverage, wall_s, violations, assumptions=None):
    os.makedirs(os.path.join(VERIF, 'evidence'), exist_ok=True)
    ev = {'property_id': prop, 'tier': tier, 'seed': seed, 'level': level, 'coverage': coverage,
          'assumptions': assumptions or [], 'wall_s': round(wall_s, 2), 'violations': violations}
    path = os.path.join(VERIF, 'evidence', prop + '.json')
    tmp = path + '.tmp%d' % os.getpid()
    with open(tmp, 'w', encoding='utf-8') as f:
        json.dump(ev, f, ensure_ascii=False, indent=1, default=str)
    os.replace(tmp, path)
    return path
