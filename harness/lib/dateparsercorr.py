"""Unit correspondence of RTV.Model.DateParser (Lean driver ops `dk.*`) against the real methods of BaseDateParser
(`parse_implicit_date`, `parse_weekday_of_month`, `_compute_date`, `parse_single_number`, `parse`) of the English, French
and German configurations (+ Spanish / Italian / Dutch texts where the patterns accept them), called directly with
constructed texts on boundary-first references (month ends, leap days, the stated day = the reference's day, the
December / January turn, all weekdays), then seeded ones.

The model takes the regex outcomes as inputs. `matches_of` / `wom_of` / `single_of` compute them here by running the SAME
configuration patterns, tables, extractors and number parser the method runs, with the method's own acceptance conditions
(never read from the method's result). For English the outcome is also known by construction of the text (day, weekday,
cardinal, month) and compared with what the patterns said (`dateparser-dispatch`).

  dk.implicit   parse_implicit_date: which of the eleven branches decides + that branch's computation
  dk.wom        parse_weekday_of_month            dk.cd   _compute_date on EVERY (cardinal, weekday, month) x years
  dk.single     parse_single_number               dk.parse   parse(): order of the six sub-parsers (lazy), resolution

Pipeline level: recognize_datetime on the same families x references; the entity covering the whole text is compared with
the model's prediction (values past-first, `min_value` dropped as the merged parser does). When the two differ the
family's own statement (the k-th weekday of a month really is that weekday inside that month; a stated day is that day of
a neighbouring month; "Friday 15" is a 15th that is a Friday, nearest on each side) is evaluated on the implementation's
answer: if it fails the report carries that input as a property failure, otherwise it is a correspondence break.
Deviations of the unchanged code that the model mirrors (and Props/C09DateParser.lean states as witness theorems) are
replayed and recorded under `ctx.extra['dateparser_witnesses']`, never reported.
Used by corr/c09.py: `run(ctx)`."""
import calendar
import datetime as dt

from . import common, calcorr
from .calcorr import fmt_dt, ref_fields, at

WEEKDAYS_EN = ['monday', 'tuesday', 'wednesday', 'thursday', 'friday', 'saturday', 'sunday']
MONTHS_EN = ['january', 'february', 'march', 'april', 'may', 'june', 'july', 'august', 'september', 'october',
             'november', 'december']
NUMWORDS_EN = {1: 'one', 2: 'two', 3: 'three', 4: 'four', 5: 'five', 6: 'six', 7: 'seven', 9: 'nine', 12: 'twelve',
               20: 'twenty', 31: 'thirty one'}
ORDWORDS_EN = {1: 'first', 2: 'second', 3: 'third', 5: 'fifth', 12: 'twelfth', 15: 'fifteenth', 20: 'twentieth',
               28: 'twenty eighth', 29: 'twenty ninth', 30: 'thirtieth', 31: 'thirty first'}
CARD_EN = [('first', 1), ('1st', 1), ('second', 2), ('third', 3), ('3rd', 3), ('fourth', 4), ('fifth', 5), ('last', 5)]

WEEKDAYS_FR = ['lundi', 'mardi', 'mercredi', 'jeudi', 'vendredi', 'samedi', 'dimanche']
MONTHS_FR = ['janvier', 'février', 'mars', 'avril', 'mai', 'juin', 'juillet', 'août', 'septembre', 'octobre', 'novembre',
             'décembre']
WEEKDAYS_DE = ['montag', 'dienstag', 'mittwoch', 'donnerstag', 'freitag', 'samstag', 'sonntag']
MONTHS_DE = ['januar', 'februar', 'märz', 'april', 'mai', 'juni', 'juli', 'august', 'september', 'oktober', 'november',
             'dezember']
WEEKDAYS_ES = ['lunes', 'martes', 'miércoles', 'jueves', 'viernes', 'sábado', 'domingo']
MONTHS_ES = ['enero', 'febrero', 'marzo', 'abril', 'mayo', 'junio', 'julio', 'agosto', 'septiembre', 'octubre',
             'noviembre', 'diciembre']

EXC = (KeyError, IndexError, ValueError, OverflowError, TypeError, AttributeError)


def ordsuf(d):
    if 10 <= d % 100 <= 20:
        return 'th'
    return {1: 'st', 2: 'nd', 3: 'rd'}.get(d % 10, 'th')


def opt(v):
    return '-' if v is None else str(v)


def inner(v):
    return '~' if v is None else str(v)


def show(r):
    if not r.success:
        return 'none'
    return '%s\t%s\t%s' % (r.timex, fmt_dt(r.future_value), fmt_dt(r.past_value))


def guarded(fn):
    try:
        return fn()
    except EXC:
        return 'err:Other'


def res_field(r):
    """A sub-parser's real outcome as an input field of `dk.parse`."""
    if r == 'err:Other':
        return 'raises'
    if r == 'none':
        return 'none'
    return r.replace('\t', '|')


# ------------------------------------------------------------------ the regex outcomes, computed as the code computes them

class Culture:
    def __init__(self, cul, dp):
        self.cul, self.dp, self.cfg = cul, dp, dp.config


def cultures():
    from recognizers_date_time.date_time.base_date import BaseDateParser
    import importlib
    out = []
    for cul, mod, cls in (('en-us', 'english', 'English'), ('fr-fr', 'french', 'French'), ('de-de', 'german', 'German'),
                          ('es-es', 'spanish', 'Spanish')):
        m = importlib.import_module('recognizers_date_time.date_time.%s.common_configs' % mod)
        common.assert_tree_modules(m)
        dp = getattr(m, cls + 'CommonDateTimeParserConfiguration')().date_parser
        if type(dp) is BaseDateParser:
            out.append(Culture(cul, dp))
    return out


def _first_int(cfg, t):
    ers = cfg.integer_extractor.extract(t)
    if not ers or not ers[0].text:
        return None
    return int(cfg.number_parser.parse(ers[0]).value)


def _group_number(cfg, s):
    from recognizers_text.extractor import ExtractResult
    return int(cfg.number_parser.parse(ExtractResult.get_from_text(s)).value)


def matches_of(C, source):
    """The acceptance conditions of parse_implicit_date, branch by branch, in the order of the code."""
    import regex
    from recognizers_date_time.date_time.constants import Constants
    cfg = C.cfg
    t = source.strip()
    M = {}
    hit = False

    def full(m):
        return bool(m) and m.start() == 0 and len(m.group()) == len(t)

    def put(key, fn):
        nonlocal hit
        try:
            M[key] = fn()
        except EXC:
            if not hit:
                raise
            M[key] = None           # a later branch the code never reaches
        if M[key] is not None:
            hit = True

    def on():
        m = regex.search(cfg.on_regex, cfg.date_token_prefix + t)
        if m and m.start() == len(cfg.date_token_prefix) and len(m.group()) == len(t):
            return cfg.day_of_month.get(m.group(Constants.DAY_GROUP_NAME))

    def special():
        m = regex.match(cfg.special_day_regex, t)
        return cfg.get_swift_day(m.group()) if full(m) else None

    def sdn():
        m = regex.match(cfg.special_day_with_num_regex, t)
        if m:
            return (_first_int(cfg, t), cfg.get_swift_day(m.group(Constants.DAY_GROUP_NAME)))

    def rel():
        m = regex.match(cfg.relative_week_day_regex, t)
        if m:
            return (_first_int(cfg, t), cfg.day_of_week.get(m.group(Constants.WEEKDAY_GROUP_NAME)))

    def wd(rx):
        def f():
            m = regex.match(rx, t)
            return cfg.day_of_week.get(m.group(Constants.WEEKDAY_GROUP_NAME)) if full(m) else None
        return f

    def forthe():
        m = regex.match(cfg.for_the_regex, t)
        return _group_number(cfg, m.group(Constants.DAY_OF_MONTH)) if m else None

    def wdom():
        m = regex.match(cfg.week_day_and_day_of_month_regex, t)
        return _group_number(cfg, m.group(Constants.DAY_OF_MONTH)) if m else None

    def wdd():
        m = regex.match(cfg.week_day_and_day_regex, t)
        if m:
            after = t[m.end():]
            unit = bool(cfg.unit_regex.search(after.strip()))
            return (1 if unit else 0, _group_number(cfg, m.group(Constants.DAY_GROUP_NAME)),
                    cfg.day_of_week.get(m.group(Constants.WEEKDAY_GROUP_NAME)))

    put('on', on)
    put('special', special)
    put('sdn', sdn)
    put('rel', rel)
    put('next', wd(cfg.next_regex))
    put('this', wd(cfg.this_regex))
    put('last', wd(cfg.last_regex))
    put('bare', wd(cfg.week_day_regex))
    put('forthe', forthe)
    put('wdom', wdom)
    put('wdd', wdd)
    return M


ORDER = ['on', 'special', 'sdn', 'rel', 'next', 'this', 'last', 'bare', 'forthe', 'wdom', 'wdd']


def branch_of(M):
    for k in ORDER:
        if M.get(k) is not None:
            return k
    return 'nothing'


def match_fields(M):
    f = []
    for k in ORDER:
        v = M.get(k)
        if v is None:
            f.append('-')
        elif k in ('sdn', 'rel'):
            f.append('%s,%d' % (inner(v[0]), v[1]))
        elif k == 'wdd':
            f.append('%d,%d,%d' % v)
        else:
            f.append(str(v))
    return '\t'.join(f)


def wom_of(C, source):
    """parse_weekday_of_month's reading of the text: (cardinal, dow, month | None, swift) or None."""
    import regex
    from recognizers_text.utilities import RegExpUtility
    from recognizers_date_time.date_time.constants import Constants
    cfg = C.cfg
    t = source.strip()
    m = regex.match(cfg.week_day_of_month_regex, t)
    if not m:
        return None
    cs = RegExpUtility.get_group(m, Constants.CARDINAL)
    ws = RegExpUtility.get_group(m, Constants.WEEKDAY_GROUP_NAME)
    ms = RegExpUtility.get_group(m, Constants.MONTH_GROUP_NAME)
    card = 5 if cfg.is_cardinal_last(cs) else cfg.cardinal_map.get(cs)
    dow = cfg.day_of_week.get(ws)
    if not ms:
        return (card, dow, None, cfg.get_swift_month(t))
    return (card, dow, cfg.month_of_year.get(ms), 0)


def wom_field(w):
    return '-' if w is None else '%d,%d,%s,%d' % (w[0], w[1], inner(w[2]), w[3])


def single_of(C, source):
    cfg = C.cfg
    t = source.strip()
    ers = cfg.ordinal_extractor.extract(t)
    if not ers or not ers[0].text:
        ers = cfg.integer_extractor.extract(t)
    if not ers or not ers[0].text:
        return None
    return int(cfg.number_parser.parse(ers[0]).value)


# ------------------------------------------------------------------ texts

def english_texts(r, R, quick_slot):
    """[(text, family, what the text states by construction)] for one reference: boundary first."""
    out = []
    dim = calendar.monthrange(R.year, R.month)[1]
    days = sorted({1, 15, 28, 29, 30, 31, R.day, min(R.day + 1, 31), max(R.day - 1, 1), dim, r.randint(1, 31)})
    wd_today = WEEKDAYS_EN[R.isoweekday() - 1]
    wds = [wd_today, WEEKDAYS_EN[R.isoweekday() % 7], 'sunday', 'monday', WEEKDAYS_EN[r.randint(0, 6)]]
    dow = lambda w: (WEEKDAYS_EN.index(w) + 1) % 7
    for k, d in enumerate(days):
        form = ('the %d%s', '%d%s', '%d', 'the %d')[(k + quick_slot) % 4]
        txt = form % ((d, ordsuf(d)) if form.count('%') == 2 else (d,))
        out.append((txt, 'on', ('on', d)))
    for w in wds[:3]:
        for d in days[:: 2] + [R.day]:
            out.append(('%s the %d%s' % (w, d, ordsuf(d)), 'wdom', ('wdom', d)))
    for w in wds:
        for d in (R.day, 15, 29, 30, 31, 13, r.randint(1, 28)):
            form = ('%s %d', '%s %d%s')[(d + quick_slot) % 2]
            txt = form % ((w, d, ordsuf(d)) if form.count('%') == 3 else (w, d))
            out.append((txt, 'wdd', ('wdd', (0, d, dow(w)))))
    out.append(('%s 3 weeks' % wds[1], 'wdd-unit', ('wdd', (1, 3, dow(wds[1])))))
    for n in (1, 2, 3, r.choice([4, 5, 6, 7, 9, 12, 20])):
        for w in (wds[0], wds[1], 'sunday', wds[4]):
            out.append(('%s %ss from now' % (NUMWORDS_EN[n], w), 'rel', ('rel', (n, dow(w)))))
        for day, sw in (('tomorrow', 1), ('today', 0), ('yesterday', -1)):
            out.append(('%s days from %s' % (NUMWORDS_EN[n], day), 'sdn', ('sdn', (n, sw))))
    for txt, key in (('today', 'special'), ('tomorrow', 'special'), ('the day before yesterday', 'special')):
        out.append((txt, 'special', None))
    for w in (wds[0], wds[1], 'sunday'):
        out.append(('next ' + w, 'next', ('next', dow(w))))
        out.append(('this ' + w, 'this', ('this', dow(w))))
        out.append(('last ' + w, 'last', ('last', dow(w))))
        out.append((w, 'bare', ('bare', dow(w))))
    for d in (15, R.day, 31, 30, 29, 1):
        if d in ORDWORDS_EN:
            out.append(('the ' + ORDWORDS_EN[d], 'single', d))
            out.append((ORDWORDS_EN[d], 'single', d))
    return out


def english_wom_texts(r, R, every):
    out = []
    cards = CARD_EN if every else [CARD_EN[0], CARD_EN[-1], CARD_EN[6], r.choice(CARD_EN)]
    wds = WEEKDAYS_EN if every else [WEEKDAYS_EN[R.isoweekday() - 1], 'sunday', r.choice(WEEKDAYS_EN)]
    months = range(1, 13) if every else sorted({R.month, R.month % 12 + 1, (R.month - 2) % 12 + 1, 2, r.randint(1, 12)})
    for cw, c in cards:
        for w in wds:
            dow = (WEEKDAYS_EN.index(w) + 1) % 7
            for mo in months:
                out.append(('%s %s of %s' % (cw, w, MONTHS_EN[mo - 1]), 'wom', (c, dow, mo)))
            for rel in ('this month', 'next month', 'last month'):
                out.append(('%s %s of %s' % (cw, w, rel), 'wom-rel', (c, dow, None)))
    return out


def other_texts(C, r, R):
    """French / German / Spanish texts: whatever branch the culture's patterns give them."""
    d1, d2 = R.day, r.choice([1, 15, 28, 29, 30, 31])
    i = R.isoweekday() - 1
    j = r.randint(0, 6)
    mo = r.randint(0, 11)
    if C.cul == 'fr-fr':
        W, MO = WEEKDAYS_FR, MONTHS_FR
        t = ['%d' % d1, '%d' % d2, 'pour le %d' % d1, 'pour le %d' % d2, '%s %d' % (W[i], d1), '%s %d' % (W[j], d2),
             '%s le %d' % (W[i], d1), '%s le %d' % (W[j], d2), 'premier %s de %s' % (W[j], MO[mo]),
             'troisième %s de %s' % (W[i], MO[R.month - 1]), '5 %s de %s' % (W[j], MO[mo]), W[j], "aujourd'hui", 'demain',
             '%s prochain' % W[j], 'le %d' % d2, 'quinze', 'le quinzième']
    elif C.cul == 'de-de':
        W, MO = WEEKDAYS_DE, MONTHS_DE
        t = ['%d.' % d1, 'dem %d.' % d2, 'den %d' % d2, 'für den %d.' % d1, 'für den %d' % d2, '%s %d' % (W[i], d1),
             '%s %d.' % (W[j], d2), '%s den %d.' % (W[i], d1), '%s den %d' % (W[j], d2), 'ersten %s im %s' % (W[j], MO[mo]),
             'letzten %s im %s' % (W[i], MO[R.month - 1]), 'dritten %s im %s' % (W[j], MO[mo]), W[j], 'heute', 'morgen',
             'nächsten %s' % W[j], 'zwei %se von heute' % W[j], 'zwei tage von morgen', 'fünfzehnten']
    else:
        W, MO = WEEKDAYS_ES, MONTHS_ES
        t = ['%d' % d1, 'el %d' % d2, 'para el %d' % d2, '%s %d' % (W[i], d1), '%s %d' % (W[j], d2), '%s el %d' % (W[i], d1),
             '%s el %d' % (W[j], d2), 'primer %s de %s' % (W[j], MO[mo]), 'primera %s de %s' % (W[j], MO[mo]),
             'último %s de %s' % (W[i], MO[R.month - 1]), W[j], 'hoy', 'mañana', 'el quince']
    return t


# ------------------------------------------------------------------ references

MUST_REFS = [dt.datetime(2020, 2, 12, 14), dt.datetime(2020, 1, 31, 14), dt.datetime(2020, 1, 31, 0), dt.datetime(2020, 3, 31, 0),
             dt.datetime(2020, 12, 12, 14), dt.datetime(2020, 12, 31, 23, 59, 59), dt.datetime(2021, 1, 1, 0), dt.datetime(2020, 2, 29, 0),
             dt.datetime(2021, 2, 28, 14, 30), dt.datetime(2020, 6, 1, 0), dt.datetime(2020, 6, 1, 10), dt.datetime(2020, 5, 31, 0),
             dt.datetime(2020, 3, 12, 14), dt.datetime(2019, 12, 30, 0), dt.datetime(2020, 11, 30, 0), dt.datetime(2020, 8, 31, 8),
             dt.datetime(2020, 5, 15, 0), dt.datetime(2020, 5, 15, 12), dt.datetime(2020, 7, 5, 0), dt.datetime(2020, 7, 5, 9)]


def references(ctx, tag, n_b, n_s):
    r = ctx.rng(tag)
    bdays = calcorr.boundary_days()
    days = r.sample(bdays, min(n_b, len(bdays))) + calcorr.seeded_days(r, n_s)
    return MUST_REFS + [at(d, calcorr.TIMES[i % 3]) for i, d in enumerate(days)]


# ------------------------------------------------------------------ unit level

def unit(ctx, CS):
    from recognizers_text.extractor import ExtractResult
    r = ctx.rng('dateparser-unit')
    refs = references(ctx, 'dateparser-refs', *((250, 150) if ctx.thorough else (12, 8)))
    lines, impl, descs, sigs = [], [], [], []
    dispatch_bad = 0
    sunday_walks = [24 if ctx.thorough else 3]

    def add(line, thunk, desc, sig):
        lines.append(line)
        impl.append(guarded(thunk))
        descs.append(desc)
        sigs.append(sig)

    en = CS[0]
    for i, R in enumerate(refs):
        rf = ref_fields(R)
        for C in CS:
            if C.cul == 'en-us':
                texts = english_texts(r, R, i)
                texts += english_wom_texts(r, R, every=(ctx.thorough and i % 25 == 0) or i == 0)
            else:
                if i % (1 if ctx.thorough else 2):
                    continue
                texts = [(t, 'other', None) for t in other_texts(C, r, R)]
            for (txt, fam, stated) in texts:
                dp = C.dp
                try:
                    M = matches_of(C, txt)
                    W = wom_of(C, txt)
                    S = single_of(C, txt)
                except EXC as e:
                    ctx.count('outcome computation raised (%s): text skipped' % C.cul)
                    continue
                br = branch_of(M)
                if br == 'wdd' and M['wdd'][2] == 0 and M['wdd'][0] == 0 and calendar.monthrange(R.year, R.month)[1] >= M['wdd'][1]:
                    # the Sunday search walks ~96,000 months before it raises (~0.5 s in Python): a few per run
                    if sunday_walks[0] <= 0:
                        ctx.count('Sunday search skipped (budget)')
                        continue
                    sunday_walks[0] -= 1
                    fam = 'wdd-sunday'
                ctx.count('parse_implicit_date:%s:%s' % (C.cul, br))
                # by construction (English): the patterns must read the text as it was built
                if C.cul == 'en-us' and stated is not None:
                    ok = True
                    if fam in ('on', 'wdom', 'wdd', 'wdd-sunday', 'wdd-unit', 'rel', 'sdn', 'next', 'this', 'last', 'bare'):
                        ok = br == stated[0] and M[br] == stated[1]
                    elif fam == 'wom':
                        ok = W is not None and (W[0], W[1], W[2]) == stated
                    elif fam == 'wom-rel':
                        ok = W is not None and (W[0], W[1], W[2]) == stated
                    elif fam == 'single':
                        ok = S == stated
                    if not ok:
                        dispatch_bad += 1
                        if dispatch_bad <= 3:
                            ctx.report('correspondence', 'dateparser-dispatch', '%r built as %s %r, the configuration reads it as '
                                       'branch %s %r / weekday-of-month %r / number %r' % (txt, fam, stated, br, M.get(br), W, S),
                                       failing_input={'text': txt, 'stated': repr(stated), 'matches': repr(M), 'wom': repr(W), 'single': repr(S)})
                d = '%s %%s(%r, %s)' % (C.cul, txt, R)
                add('dk.implicit\t%s\t%s' % (rf, match_fields(M)), lambda: show(dp.parse_implicit_date(txt, R)),
                    d % 'parse_implicit_date', 'implicit-' + br)
                if W is not None or fam.startswith('wom'):
                    if W is None:
                        add('dk.implicit\t%s\t%s' % (rf, match_fields({})), lambda: show(dp.parse_weekday_of_month(txt, R)),
                            d % 'parse_weekday_of_month', 'wom-nomatch')
                    elif None not in (W[0], W[1]):
                        add('dk.wom\t%s\t%d\t%d\t%s\t%d' % (rf, W[0], W[1], opt(W[2]), W[3]),
                            lambda: show(dp.parse_weekday_of_month(txt, R)), d % 'parse_weekday_of_month', 'wom')
                if S is not None and (fam in ('single', 'on', 'other')):
                    add('dk.single\t%s\t%d' % (rf, S), lambda: show(dp.parse_single_number(txt, R)), d % 'parse_single_number', 'single')
                # parse(): the three sub-parsers modelled elsewhere enter with their real outcomes (lazily irrelevant
                # ones included: the model must ignore what comes after the first success)
                if fam != 'wdd-sunday' and (fam in ('single', 'other', 'special', 'bare', 'wom-rel') or (i + len(lines)) % 4 == 0):
                    low = txt.lower()
                    basic = guarded(lambda: show(dp.parse_basic_regex_match(low, R)))
                    ago = guarded(lambda: show(dp.parser_duration_with_ago_and_later(low, R)))
                    nwm = guarded(lambda: show(dp.parse_number_with_month(low, R)))
                    wf = wom_field(W) if (W is None or None not in (W[0], W[1])) else None
                    if wf is not None:
                        er = ExtractResult()
                        er.start, er.length, er.text, er.type = 0, len(txt), txt, dp.parser_type_name

                        def run_parse():
                            pr = dp.parse(er, R)
                            if pr.value is None:
                                return 'none' if pr.timex_str == '' else 'bad:value None, timex %r' % pr.timex_str
                            v = pr.value
                            return '%s\t%s\t%s\t%s\t%s' % (pr.timex_str, v.future_resolution['date'], v.past_resolution['date'],
                                                           fmt_dt(v.future_value), fmt_dt(v.past_value))
                        add('dk.parse\t%s\t%s\t%s\t%s\t%s\t%s\t%s' % (rf, res_field(basic), match_fields(M), wf, res_field(ago),
                                                                  res_field(nwm), opt(S)),
                            run_parse, d % 'parse', 'parse')
    # _compute_date on every (cardinal, weekday, month) triple x years (leap, non-leap, century, the edges of datetime)
    years = [2019, 2020, 2021, 2024, 1900, 2000, 2100, 1, 9999] + ([r.randint(1950, 2090) for _ in range(6)] if ctx.thorough else
                                                                  [r.randint(1950, 2090)])
    dp = en.dp
    for y in years:
        for mo in range(1, 13):
            for dow in range(0, 8):
                for c in (1, 2, 3, 4, 5) + ((0, 6) if y in (2020, 2021) else ()):
                    add('dk.cd\t%d\t%d\t%d\t%d' % (c, dow, mo, y), lambda: fmt_dt(dp._compute_date(c, dow, mo, y)),
                        '_compute_date(%d, %d, %d, %d)' % (c, dow, mo, y), 'compute-date')
    for args in ((1, 1, 13, 2020), (1, 1, 0, 2020), (1, 1, 1, 0), (1, 1, 1, 10000)):
        add('dk.cd\t%d\t%d\t%d\t%d' % args, lambda: fmt_dt(dp._compute_date(*args)), '_compute_date%r' % (args,), 'compute-date')
    model = common.driver(lines)
    hist, shown = {}, {}
    for line, a, b, d, sig in zip(lines, impl, model, descs, sigs):
        op = line.split('\t')[0]
        hist[op] = hist.get(op, 0) + 1
        if a not in ('none', 'err:Other'):
            ctx.nontriv(('dateparser', d))
        if a == 'err:Other':
            ctx.count('BaseDateParser raises: ' + sig)
        if a != b:
            shown[sig] = shown.get(sig, 0) + 1
            if shown[sig] <= 3:
                ctx.report('correspondence', 'dateparser-' + sig, '%s: implementation %s, model %s' % (d, a, b),
                           failing_input={'op': line, 'call': d, 'implementation': a, 'model': b})
    for op, n in hist.items():
        ctx.count('BaseDateParser:' + op, n)
    k = len(lines) // 3
    ctx.sample({'op': lines[k], 'call': descs[k], 'implementation': impl[k]})
    return lines, impl, model


# ------------------------------------------------------------------ witnesses of Props/C09DateParser.lean, replayed

WITNESSES = [
    # (name of the Lean theorem, method, text, reference, model op, what the unchanged code answers)
    ('on_day_missing_raises', 'parse_implicit_date', 'the 31st', dt.datetime(2020, 2, 12, 14), 'dk.on\t2020\t2\t12\t50400\t31'),
    ('on_day_past_clamped', 'parse_implicit_date', 'the 31st', dt.datetime(2020, 12, 12, 14), 'dk.on\t2020\t12\t12\t50400\t31'),
    ('on_day_future_rolls', 'parse_implicit_date', 'the 31st', dt.datetime(2020, 1, 31, 14), 'dk.on\t2020\t1\t31\t50400\t31'),
    ('on_day_time_of_day', 'parse_implicit_date', 'the 15th', dt.datetime(2020, 5, 15, 12), 'dk.on\t2020\t5\t15\t43200\t15'),
    ('wom_last_means_fifth_raises', 'parse_weekday_of_month', 'last monday of june', dt.datetime(2020, 2, 12, 14),
     'dk.wom\t2020\t2\t12\t50400\t5\t1\t6\t0'),
    ('wom_next_month_december_raises', 'parse_weekday_of_month', 'first monday of next month', dt.datetime(2020, 12, 12, 14),
     'dk.wom\t2020\t12\t12\t50400\t1\t1\t-\t1'),
    ('wdd_sunday_raises', 'parse_implicit_date', 'sunday 15', dt.datetime(2020, 2, 12, 14), 'dk.wdd\t2020\t2\t12\t50400\t0\t15\t0'),
    ('wdd_short_month_raises', 'parse_implicit_date', 'monday 31', dt.datetime(2020, 2, 12, 14), 'dk.wdd\t2020\t2\t12\t50400\t0\t31\t1'),
    ('wdd_past_search_raises', 'parse_implicit_date', 'monday 31', dt.datetime(2020, 3, 12, 14), 'dk.wdd\t2020\t3\t12\t50400\t0\t31\t1'),
    ('single_december_raises', 'parse_single_number', 'the thirtieth', dt.datetime(2020, 12, 31, 10), 'dk.single\t2020\t12\t31\t36000\t30'),
    ('rel_weekday_zero_is_today', 'parse_implicit_date', 'one monday from now', dt.datetime(2020, 2, 12, 14), 'dk.rel\t2020\t2\t12\t50400\t1\t1'),
]


def witnesses(ctx, en):
    obs = {}
    ans = common.driver([w[4] for w in WITNESSES])
    for (name, meth, text, R, line), b in zip(WITNESSES, ans):
        a = guarded(lambda: show(getattr(en.dp, meth)(text, R)))
        obs[name] = {'call': '%s(%r, %s)' % (meth, text, R), 'implementation': a, 'model': b}
        if a != b:
            ctx.report('correspondence', 'dateparser-witness-' + name, '%s(%r, %s): implementation %s, model %s (the Lean witness '
                       'theorem %s no longer describes the code)' % (meth, text, R, a, b, name),
                       failing_input={'op': line, 'implementation': a, 'model': b})
    ctx.extra['dateparser_witnesses'] = obs


# ------------------------------------------------------------------ pipeline level

def iso(d):
    return '%04d-%02d-%02d' % (d.year, d.month, d.day)


def model_values(ans):
    """`dk.parse` answer -> the values the merged parser emits (past first, duplicates once, min_value dropped)."""
    if ans in ('none', 'err:Other'):
        return None
    f = ans.split('\t')
    vals = []
    for res in (f[2], f[1]):
        if res.startswith('0001-01-01'):
            continue
        v = {'timex': f[0], 'type': 'date', 'value': res}
        if v not in vals:
            vals.append(v)
    return vals


def nth_weekday(y, mo, iso_wd, c):
    """The c-th `iso_wd` of a month (c = 5: the last one), or None."""
    dim = calendar.monthrange(y, mo)[1]
    ds = [d for d in range(1, dim + 1) if dt.date(y, mo, d).isoweekday() == iso_wd]
    return dt.date(y, mo, ds[c - 1]) if c <= len(ds) else None


def statement_holds(fam, stated, R, got):
    """The family's own statement, evaluated on the values recognize_datetime returned. None = nothing is claimed."""
    try:
        vals = [dt.date(*map(int, v['value'].split('-'))) for v in got if v.get('type') == 'date' and v.get('value', '')[:1].isdigit()]
    except (ValueError, KeyError):
        return False
    if not vals:
        return None
    today = R.date()
    if fam == 'on':
        d = stated[1]
        if d <= 28:
            # on_day_spec: that day of two consecutive months, past < R <= future as datetimes (the values are midnights)
            here = dt.datetime(R.year, R.month, d)
            nxt = dt.datetime(R.year + R.month // 12, R.month % 12 + 1, d)
            prv = dt.datetime(R.year - (1 if R.month == 1 else 0), (R.month - 2) % 12 + 1, d)
            want = [prv.date(), here.date()] if here >= R else [here.date(), nxt.date()]
            return vals == want
        return all(v.day == d or calendar.monthrange(v.year, v.month)[1] < d or v.day == 1 for v in vals) and \
            all(abs((v - today).days) <= 62 for v in vals)
    if fam in ('wom', 'wom-rel'):
        c, dow, mo = stated
        iw = dow or 7
        for v in vals:
            if v.isoweekday() != iw or (mo is not None and v.month != mo):
                return False
            if c < 5 and not (7 * (c - 1) < v.day <= 7 * c):
                return False
        return True
    if fam == 'wdd':
        _u, d, dow = stated[1]
        return all(v.day == d and v.isoweekday() == (dow or 7) for v in vals) and vals[0] <= today <= vals[-1]
    if fam == 'wdom':
        return all(v.day == stated[1] and (v.year, v.month) == (R.year, R.month) for v in vals)
    if fam == 'rel':
        # relative_weekday_spec: the stated weekday k weeks after the reference's ISO week, k = n less one when the
        # reference's ISO weekday is past the culture map's value (Sunday = 0); k = 0: the reference's own date
        n, dow = stated[1]
        k = n - (1 if R.isoweekday() > dow else 0)
        want = today if k <= 0 else today - dt.timedelta(days=R.isoweekday() - 1) + dt.timedelta(days=7 * k + (dow or 7) - 1)
        return vals == [want]
    if fam == 'sdn':
        n, sw = stated[1]
        return vals == [today + dt.timedelta(days=n + sw)]
    return None


def pipeline(ctx, CS):
    from recognizers_text.extractor import ExtractResult
    en = CS[0]
    r = ctx.rng('dateparser-pipeline')
    refs = references(ctx, 'dateparser-pipe-refs', *((80, 60) if ctx.thorough else (6, 4)))
    cases = []
    for i, R in enumerate(refs):
        texts = english_texts(r, R, i)
        texts += english_wom_texts(r, R, every=False)
        if not ctx.thorough:
            texts = [t for k, t in enumerate(texts) if t[1] in ('wom', 'wom-rel', 'wdd', 'on', 'rel') and
                     ((k + i) % 4 == 0 or (t[1] == 'on' and t[2][1] == R.day))]
        for (txt, fam, stated) in texts:
            if fam in ('special', 'next', 'this', 'last', 'bare', 'single', 'wdd-unit') or stated is None:
                continue
            if fam == 'wdd' and stated[1][2] == 0:
                continue                                   # the Sunday search (0.5 s per query) is replayed at unit level
            if fam == 'on':
                txt = 'the %d%s' % (stated[1], ordsuf(stated[1]))      # the form the extractor takes on its own
            cases.append((txt, R, fam, stated))
    query = lambda c: ('on ' + c[0]) if c[2] == 'on' else c[0]          # `on_regex` looks behind for the word
    results = calcorr.run_pipeline([((query(c), 'en-us'), c[1]) for c in cases])
    lines, keep = [], []
    for ci, (txt, R, fam, stated) in enumerate(cases):
        dp = en.dp
        try:
            M, W, S = matches_of(en, txt), wom_of(en, txt), single_of(en, txt)
        except EXC:
            continue
        low = txt.lower()
        basic = guarded(lambda: show(dp.parse_basic_regex_match(low, R)))
        ago = guarded(lambda: show(dp.parser_duration_with_ago_and_later(low, R)))
        nwm = guarded(lambda: show(dp.parse_number_with_month(low, R)))
        lines.append('dk.parse\t%s\t%s\t%s\t%s\t%s\t%s\t%s' % (ref_fields(R), res_field(basic), match_fields(M), wom_field(W),
                                                           res_field(ago), res_field(nwm), opt(S)))
        keep.append(ci)
    answers = common.driver(lines)
    shown = {}
    for ci, ans in zip(keep, answers):
        txt, R, fam, stated = cases[ci]
        res = results[ci]
        ctx.count('pipeline:dateparser:' + fam)
        ent = calcorr.entity_with_text(res, txt) if fam == 'on' else calcorr.whole_entity(res, txt)
        mv = model_values(ans)
        if ent is None:
            if mv is None:
                ctx.count('pipeline:dateparser: no entity, as the model predicts (the parser raises / no result)')
            else:
                ctx.count('pipeline:dateparser: the extractor does not take the text as one date')
            continue
        if ent[3] != 'datetimeV2.date':
            ctx.count('pipeline:dateparser: entity of another type')
            continue
        got = ent[4]
        ctx.nontriv(('dateparser-pipeline', txt, str(R)))
        if got == mv:
            continue
        fi = {'op': 'recognize_datetime', 'query': query(cases[ci]), 'culture': 'en-us', 'reference': R.strftime('%Y-%m-%d %H:%M:%S'),
              'family': fam, 'implementation': got, 'model': mv}
        holds = statement_holds(fam, stated, R, got)
        shown[fam] = shown.get(fam, 0) + 1
        if shown[fam] > 4:
            continue
        if holds is False:
            ctx.report('property', 'dateparser-%s' % fam, '%r at %s: got %r; the stated %s %r is not what these values are (model: %r)' % (
                txt, fi['reference'], got, fam, stated, mv), failing_input=fi, property_fails=True)
        else:
            ctx.report('correspondence', 'dateparser-pipeline-' + fam, '%r at %s: implementation %r, model %r' % (
                txt, fi['reference'], got, mv), failing_input=fi)
    ctx.extra['dateparser_pipeline_cases'] = len(cases)
    if cases:
        ctx.sample({'query': cases[0][0], 'reference': str(cases[0][1]), 'implementation': results[0]})


def run(ctx):
    import recognizers_date_time
    common.assert_tree_modules(recognizers_date_time)
    from recognizers_date_time.date_time.base_date import BaseDateParser
    saved = {k: ctx.extra.get(k) for k in ('fingerprints', 'fingerprints_changed')}
    fp = calcorr.fingerprints(ctx, {'BaseDateParser.parse': BaseDateParser.parse,
                                    'BaseDateParser.parse_implicit_date': BaseDateParser.parse_implicit_date,
                                    'BaseDateParser.parse_weekday_of_month': BaseDateParser.parse_weekday_of_month,
                                    'BaseDateParser._compute_date': BaseDateParser._compute_date,
                                    'BaseDateParser.parse_single_number': BaseDateParser.parse_single_number}, FINGERPRINTS)
    ctx.extra['dateparser_fingerprints'] = fp
    for k, v in saved.items():
        if v is not None:
            ctx.extra[k] = v
    CS = cultures()
    ctx.extra['dateparser_cultures'] = [C.cul for C in CS]
    witnesses(ctx, CS[0])
    unit(ctx, CS)
    pipeline(ctx, CS)


FINGERPRINTS = {'BaseDateParser.parse': '7ef34b63170b189f', 'BaseDateParser.parse_implicit_date': '4f2120247cbf4084', 'BaseDateParser.parse_weekday_of_month': '5c86f6db6fbfb4c7', 'BaseDateParser._compute_date': '3f4aeef3540bd32a', 'BaseDateParser.parse_single_number': '2f87975185590418'}
