"""Unit correspondence of RTV.Model.DtPeriod (Lean driver ops `dp.*`) against the real methods of
BaseDateTimePeriodParser (English configuration: EnglishCommonDateTimeParserConfiguration().date_time_period_parser),
called directly on constructed texts x boundary-first references:
merge_two_time_points, merge_date_and_time_periods, parse_simple_cases, parse_specific_time_of_day (+ the part-of-day
table get_matched_time_range / get_swift_prefix), parse_duration, parse_relative_unit, DateTimeFormatUtil.luis_time_span
for negative spans.

The model takes the sub-results as inputs.  Here they are known by construction of the text (hours, unit, count, part of
day) or obtained from the SAME configuration calls the method makes (the extractors / parsers of the configuration for
the pieces, `get_swift_prefix`, the prefix regexes), never from the method's own result.

Pipeline level (`pipeline`): the same expression families through recognize_datetime; oracle = the C10 triple predicate
(`tripleOK`, a Lean function evaluated by the driver on the implementation's real output); every family carries a class
label, the signature of a failure is `dtperiod:<class>`.

Entry point used by corr/c10.py: `run(ctx)`."""
import datetime as dt

import regex

from . import common, calcorr, dtcorpus, dtpipe
from .calcorr import fmt_dt, ref_fields, at

MONTHS = ['january', 'february', 'march', 'april', 'may', 'june', 'july', 'august', 'september', 'october',
          'november', 'december']
TODS = ['morning', 'afternoon', 'evening', 'night']
UNITS = [('hour', 'H', 3600), ('minute', 'M', 60), ('second', 'S', 1)]


def tx(s):
    return s if s else '-'


def show(r, with_comment=False):
    if not r.success:
        out = 'none'
    else:
        out = '%s\t%s\t%s\t%s\t%s' % (r.timex, fmt_dt(r.future_value[0]), fmt_dt(r.future_value[1]),
                                    fmt_dt(r.past_value[0]), fmt_dt(r.past_value[1]))
    if with_comment:
        out += '\t%d' % (1 if (r.success and r.comment == 'ampm') else 0)
    return out


def guarded(fn):
    try:
        return fn()
    except (OverflowError, ValueError):
        return 'err:Other'


def h12(h):
    return '%d%s' % (h % 12 or 12, 'am' if h < 12 else 'pm')


def clock(h, m=0, s=0):
    """a clock time with am/pm: '3pm', '3:30pm', '3:30:15pm'"""
    if s:
        return '%d:%02d:%02d%s' % (h % 12 or 12, m, s, 'am' if h < 12 else 'pm')
    if m:
        return '%d:%02d%s' % (h % 12 or 12, m, 'am' if h < 12 else 'pm')
    return h12(h)


def date_texts(r, R):
    """date phrases: relative, month-day without a year, absolute"""
    d = R.date() + dt.timedelta(days=r.randint(-400, 400))
    return ['tomorrow', 'today', 'yesterday',
            '%s %d' % (MONTHS[d.month - 1], min(d.day, 28)),
            '%s %d %d' % (MONTHS[d.month - 1], d.day, d.year),
            '%d/%d/%d' % (d.month, d.day, d.year)]


PROBE_REF = dt.datetime(2019, 6, 12, 10, 30, 15)


def probe_fixes(pp):
    """Which of the three day-roll patches (/verif/findings/dtperiod/*.diff) the working tree carries, read off three
    fixed probe inputs: '1' when the range is rolled over midnight (model variant *Fixed), '0' for the unpatched code."""
    def rolled(meth, text):
        try:
            r = getattr(pp, meth)(text, PROBE_REF)
            return '1' if r.success and r.future_value[0] < r.future_value[1] else '0'
        except Exception:
            return '0'
    return (rolled('merge_two_time_points', 'from tomorrow 11pm to 2am') +
            rolled('merge_two_time_points', 'from 5pm to tomorrow 3pm') +
            rolled('merge_date_and_time_periods', 'tomorrow from 10pm to 1am'))


class Cases:
    def __init__(self, ctx, cfg):
        self.ctx = ctx
        self.cfg = cfg
        self.pp = cfg.date_time_period_parser
        self.c = self.pp.config
        self.fixes = probe_fixes(self.pp)
        self.out = []        # (driver line, implementation answer, description, class label)
        self.skipped = {}

    def skip(self, why):
        self.skipped[why] = self.skipped.get(why, 0) + 1

    def add(self, line, impl, desc):
        self.out.append((line, impl, desc))

    # ------------------------------------------------------------------ merge_two_time_points
    def merge(self, text, R):
        c = self.c
        time_ers = c.time_extractor.extract(text, R)
        dt_ers = c.date_time_extractor.extract(text, R)
        # the dispatch of the method, on the same extractor results
        if len(dt_ers) == 2:
            kind, p1, p2 = 'both', c.date_time_parser.parse(dt_ers[0], R), c.date_time_parser.parse(dt_ers[1], R)
        elif len(dt_ers) == 1 and len(time_ers) == 2:
            if not dt_ers[0].overlap(time_ers[0]):
                kind, p1, p2 = 'end', c.time_parser.parse(time_ers[0], R), c.date_time_parser.parse(dt_ers[0], R)
            else:
                kind, p1, p2 = 'begin', c.date_time_parser.parse(dt_ers[0], R), c.time_parser.parse(time_ers[1], R)
        elif len(dt_ers) == 1 and len(time_ers) == 1:
            if time_ers[0].start < dt_ers[0].start:
                kind, p1, p2 = 'end', c.time_parser.parse(time_ers[0], R), c.date_time_parser.parse(dt_ers[0], R)
            elif time_ers[0].start >= dt_ers[0].start + dt_ers[0].length:
                kind, p1, p2 = 'begin', c.date_time_parser.parse(dt_ers[0], R), c.time_parser.parse(time_ers[0], R)
            else:
                return self.skip('merge: time inside the date-time')
        else:
            return self.skip('merge: no two points')
        if not p1.value or not p2 or not p2.value:
            return self.skip('merge: a point without value')
        c1 = bool(p1.value.comment and p1.value.comment.endswith('ampm'))
        c2 = bool(p2.value.comment and p2.value.comment.endswith('ampm'))
        line = 'dp.merge\t%s\t%s\t%s\t%s\t%s\t%s\t%s\t%d\t%d\t%s' % (
            kind, fmt_dt(p1.value.future_value), fmt_dt(p1.value.past_value), tx(p1.timex_str),
            fmt_dt(p2.value.future_value), fmt_dt(p2.value.past_value), tx(p2.timex_str), c1, c2, self.fixes)
        impl = guarded(lambda: show(self.pp.merge_two_time_points(text, R), True))
        self.add(line, impl, 'merge_two_time_points(%r, %s) [%s]' % (text, R, kind))
        return kind

    # ------------------------------------------------------------------ merge_date_and_time_periods
    def datetp(self, text, R):
        c = self.c
        src = text.strip().lower()
        ers = c.time_period_extractor.extract(src, R)
        if len(ers) != 1:
            return self.skip('datetp: not exactly one time period')
        tp = c.time_period_parser.parse(ers[0])
        if tp.value is None or not (tp.value.timex and tp.value.timex.startswith('(')):
            return self.skip('datetp: time period without a range timex')
        rest = src.replace(ers[0].text, '')
        date_ers = c.date_extractor.extract(rest, R)
        date_text = rest.strip()
        if c.token_before_date:
            date_text = date_text.replace(c.token_before_date, '').strip()
        if c.token_before_time:
            date_text = date_text.replace(c.token_before_time.strip(), '').strip()
        if not (len(date_ers) == 1 and date_text == date_ers[0].text):
            return self.skip('datetp: the rest is not one date')
        pr = c.date_parser.parse(date_ers[0], R)
        if not pr.value:
            return self.skip('datetp: date without value')
        fv = tp.value.future_value
        line = 'dp.datetp\t%s\t%s\t%s\t%s\t%s\t%s\t%d\t%s' % (
            fmt_dt(pr.value.future_value), fmt_dt(pr.value.past_value), tx(pr.timex_str), tx(tp.value.timex),
            fmt_dt(fv.start), fmt_dt(fv.end), 1 if tp.value.comment == 'ampm' else 0, self.fixes)
        impl = guarded(lambda: show(self.pp.merge_date_and_time_periods(text, R), True))
        self.add(line, impl, 'merge_date_and_time_periods(%r, %s)' % (text, R))
        return True

    # ------------------------------------------------------------------ parse_simple_cases
    def simple(self, text, bh, eh, R):
        from recognizers_text.utilities import RegExpUtility
        c = self.c
        m = regex.search(c.pure_number_from_to_regex, text) or regex.search(c.pure_number_between_and_regex, text)
        if not m or m.start() != 0:
            return self.skip('simple: the hour-pair regex does not match at 0')
        ers = c.date_extractor.extract(text.replace(m.group(), ''), R)
        if not ers:
            return self.skip('simple: no date')
        pr = c.date_parser.parse(ers[0], R)
        if not pr or not pr.value:
            return self.skip('simple: date without value')
        desc = RegExpUtility.get_group(m, 'desc')
        is_am = bool(RegExpUtility.get_group(m, 'am')) or desc.startswith('a')
        is_pm = bool(RegExpUtility.get_group(m, 'pm')) or desc.startswith('p')
        line = 'dp.simple\t%d\t%d\t%d\t%d\t%s\t%s\t%s' % (bh, eh, is_am, is_pm, fmt_dt(pr.value.future_value),
                                                        fmt_dt(pr.value.past_value), tx(pr.timex_str))
        impl = guarded(lambda: show(self.pp.parse_simple_cases(text, R), True))
        self.add(line, impl, 'parse_simple_cases(%r, %s)' % (text, R))
        return True

    # ------------------------------------------------------------------ parse_specific_time_of_day
    def tod(self, text, tod, date_text, R):
        from recognizers_text.utilities import RegExpUtility
        c = self.c
        src = text.strip()
        m = regex.search(c.period_time_of_day_with_date_regex, src)
        early = late = False
        time_text = src
        if m:
            time_text = RegExpUtility.get_group(m, 'timeOfDay')
            early = bool(RegExpUtility.get_group(m, 'early'))
            late = bool(RegExpUtility.get_group(m, 'late'))
        else:
            return self.skip('tod: no part-of-day match')
        v = c.get_matched_time_range(time_text)
        if not v.success:
            return self.skip('tod: get_matched_time_range fails on the matched group')
        impl = guarded(lambda: show(self.pp.parse_specific_time_of_day(text, R)))
        if RegExpUtility.is_exact_match(c.specific_time_of_day_regex, src, True):
            line = 'dp.tod\t%s\t%d\t%s\t%d\t%d' % (ref_fields(R), c.get_swift_prefix(src), tod, early, late)
            self.add(line, impl, 'parse_specific_time_of_day(%r, %s) [exact]' % (text, R))
            return 'exact'
        if date_text is None:
            return self.skip('tod: not an exact match and no date')
        ers = c.date_extractor.extract(date_text, R)
        if len(ers) != 1 or ers[0].text != date_text:
            return self.skip('tod: date not extracted as a whole')
        if c.time_period_extractor.extract(src.replace(m.group(), ' ')):
            return self.skip('tod: a time period next to the part of day')
        pr = c.date_parser.parse(ers[0], R)
        if not pr.value:
            return self.skip('tod: date without value')
        line = 'dp.datetod\t%s\t%s\t%s\t%s\t%d\t%d' % (fmt_dt(pr.value.future_value), fmt_dt(pr.value.past_value),
                                                     tx(pr.timex_str), tod, early, late)
        self.add(line, impl, 'parse_specific_time_of_day(%r, %s) [date]' % (text, R))
        return 'date'

    def todp(self, text, tod, date_text, period_text, R):
        """part of day + date + a time period ("june 5 in the morning from 9am to 11am")"""
        from recognizers_text.utilities import RegExpUtility
        c = self.c
        src = text.strip()
        m = regex.search(c.period_time_of_day_with_date_regex, src)
        if not m or RegExpUtility.is_exact_match(c.specific_time_of_day_regex, src, True):
            return self.skip('todp: no part-of-day match')
        v = c.get_matched_time_range(RegExpUtility.get_group(m, 'timeOfDay'))
        if not v.success:
            return self.skip('todp: get_matched_time_range fails')
        early = bool(RegExpUtility.get_group(m, 'early'))
        late = bool(RegExpUtility.get_group(m, 'late'))
        before, after = src[:m.start()].strip(), src[m.end():].strip()
        tps = c.time_period_extractor.extract(before) or c.time_period_extractor.extract(after)
        if not tps or tps[0].text != period_text:
            return self.skip('todp: the time period is not extracted as a whole')
        tpr = c.time_period_parser.parse(tps[0], R)
        ers = c.date_extractor.extract(date_text, R)
        if len(ers) != 1 or ers[0].text != date_text or not tpr or not tpr.value:
            return self.skip('todp: date / period not parsed')
        pr = c.date_parser.parse(ers[0], R)
        if not pr.value:
            return self.skip('todp: date without value')
        fv, pv = tpr.value.future_value, tpr.value.past_value
        line = 'dp.datetodp\t%s\t%s\t%s\t%s\t%d\t%d\t%s\t%s\t%s\t%s' % (
            fmt_dt(pr.value.future_value), fmt_dt(pr.value.past_value), tx(pr.timex_str), tod, early, late,
            fmt_dt(fv.start), fmt_dt(fv.end), fmt_dt(pv.start), fmt_dt(pv.end))
        impl = guarded(lambda: show(self.pp.parse_specific_time_of_day(text, R)))
        # the model stands for the method only when the method's own date extraction (on its edited before/after
        # strings) lands on the same date: compare only then
        self.add(line, impl, 'parse_specific_time_of_day(%r, %s) [date+period]' % (text, R))
        return True

    # ------------------------------------------------------------------ parse_duration
    def dur(self, before, n, unit, after, R):
        from recognizers_text.utilities import RegExpUtility
        c = self.c
        word, code, secs = unit
        body = '%d %s%s' % (n, word, '' if n == 1 else 's')
        text = ' '.join(x for x in (before, body, after) if x)
        ex = lambda rx, s: 1 if RegExpUtility.is_exact_match(rx, s, True) else 0
        flags = (ex(c.previous_prefix_regex, before), ex(c.within_next_prefix_regex, before),
                 ex(c.within_next_prefix_regex, after) if c.check_both_before_after else 0,
                 ex(c.future_regex, before), ex(c.previous_prefix_regex, after), ex(c.future_regex, after),
                 ex(c.future_suffix_regex, after))
        timex = ('PT%d%s' % (n, code)) if code in 'HMS' else 'P%d%s' % (n, code)
        line = 'dp.dur\t%s\t%d\t%s\t%s' % (ref_fields(R), n * secs, timex, '\t'.join(str(f) for f in flags))
        impl = guarded(lambda: show(self.pp.parse_duration(text, R)))
        self.add(line, impl, 'parse_duration(%r, %s)' % (text, R))
        return True

    # ------------------------------------------------------------------ parse_relative_unit
    def rel(self, text, unit, past, R):
        line = 'dp.rel\t%s\t%s\t%d' % (ref_fields(R), unit, past)
        impl = guarded(lambda: show(self.pp.parse_relative_unit(text, R)))
        self.add(line, impl, 'parse_relative_unit(%r, %s)' % (text, R))


def build_cases(ctx, cfg, refs):
    r = ctx.rng('dtperiod-cases')
    cs = Cases(ctx, cfg)
    hist = {}

    def cnt(k, v=True):
        if v:
            hist[k] = hist.get(k, 0) + 1
    times = [(0, 0, 0), (1, 0, 0), (9, 30, 0), (11, 59, 59), (12, 0, 0), (13, 0, 0), (15, 0, 0), (16, 30, 20), (23, 0, 0),
             (23, 59, 59)]
    for i, R in enumerate(refs):
        dts = date_texts(r, R)
        d1 = dts[i % len(dts)]
        d2 = dts[(i // 2 + 1) % len(dts)]
        # ---- merge_two_time_points: both dated / begin dated / end dated; ordered and reversed clock times
        t1 = times[i % len(times)]
        t2 = times[(i * 3 + 1) % len(times)]
        t3 = (r.randint(0, 23), r.choice([0, 0, 15, 30, 59]), r.choice([0, 0, 0, 20, 59]))
        tpairs = ((t1, t2), (t2, t3), (t3, t1))
        for (ta, tb) in (tpairs if ctx.thorough or i % 6 == 0 else tpairs[i % 3: i % 3 + 1]):
            a, b = clock(*ta), clock(*tb)
            cnt('merge:' + str(cs.merge('from %s %s to %s %s' % (d1, a, d2, b), R)))
            cnt('merge:' + str(cs.merge('from %s %s to %s' % (d1, a, b), R)))
            cnt('merge:' + str(cs.merge('from %s to %s %s' % (a, d2, b), R)))
        if i % 4 == 0:
            cnt('merge:' + str(cs.merge('from %s %d to %s %d' % (d1, t1[0] % 12 or 12, d2, t2[0] % 12 or 12), R)))     # no am/pm: comment
            cnt('merge:' + str(cs.merge('between %s %s and %s %s' % (d1, clock(*t1), d1, clock(*t2)), R)))
            # boundary: equal clock times (a zero span, or exactly one day once rolled)
            cnt('merge:' + str(cs.merge('from %s %s to %s' % (d1, clock(*t1), clock(*t1)), R)))
            cnt('merge:' + str(cs.merge('from %s to %s %s' % (clock(*t1), d2, clock(*t1)), R)))
        # ---- merge_date_and_time_periods
        (ha, ma, sa), (hb, mb, sb) = sorted([t1, t2])
        for text in ('%s from %s to %s' % (d1, clock(ha, ma), clock(hb, mb)),
                     'from %s to %s on %s' % (clock(ha, ma), clock(hb, mb), d1),
                     '%s between %s and %s' % (d1, clock(hb, mb), clock(ha, ma)),       # reversed: crosses midnight
                     '%s %d:%02d to %d' % (d1, ha % 12 or 12, ma, (hb % 12) or 12)):
            cnt('datetp', cs.datetp(text, R))
        # ---- parse_simple_cases
        pairs = [(3, 5), (11, 1), (12, 1), (10, 12), (5, 3), (13, 14), (0, 1), (r.randint(0, 23), r.randint(0, 24))]
        words = {1: 'one', 3: 'three', 5: 'five', 10: 'ten', 11: 'eleven', 12: 'twelve'}
        for (bh, eh) in (pairs if i % 4 == 0 else [pairs[i % 8], pairs[(i + 3) % 8]]):
            for suf in ('', ' pm', ' am', 'pm', ' in the afternoon', ' in the morning', ' p.m.'):
                if bh > 12 and suf:
                    continue
                cnt('simple', cs.simple('from %d to %d%s %s' % (bh, eh, suf, d1), bh, eh, R))
            cnt('simple', cs.simple('between %d and %d %s' % (bh, eh, d1), bh, eh, R))
            cnt('simple', cs.simple('from %dam to %d %s' % (bh % 12 or 12, eh, d1), bh % 12 or 12, eh, R))
            if bh in words and eh in words:
                cnt('simple', cs.simple('from %s to %s pm %s' % (words[bh], words[eh], d1), bh, eh, R))
        # ---- parse_specific_time_of_day
        for tod in (TODS if ctx.thorough or i % 4 == 0 else [TODS[i % 4], TODS[(i + 1) % 4]]):
            for pre in ('this', 'next', 'last'):
                cnt('tod:' + str(cs.tod('%s %s' % (pre, tod), tod, None, R)))
                if i % 3 == 0:
                    cnt('tod:' + str(cs.tod('early %s %s' % (pre, tod), tod, None, R)))
                    cnt('tod:' + str(cs.tod('late %s %s' % (pre, tod), tod, None, R)))
            cnt('tod:' + str(cs.tod('%s %s' % (d1, tod), tod, d1, R)))
            cnt('tod:' + str(cs.tod('%s in the %s' % (d2, tod), tod, d2, R)))
            cnt('tod:' + str(cs.tod('%s early in the %s' % (d1, tod), tod, d1, R)))
            cnt('tod:' + str(cs.tod('%s late in the %s' % (d2, tod), tod, d2, R)))
            cnt('tod:' + str(cs.tod('in the %s on %s' % (tod, d2), tod, d2, R)))
            if i % 4 == 0:
                a, b = (9, 11) if tod == 'morning' else ((13, 15) if tod == 'afternoon' else ((17, 19) if tod == 'evening' else (21, 23)))
                per = 'from %s to %s' % (h12(a), h12(b))
                cnt('todp', cs.todp('%s in the %s %s' % (d2, tod, per), tod, d2, per, R))
        cnt('tod:' + str(cs.tod('tonight', 'night', None, R)))
        # ---- parse_duration
        for unit in UNITS + [('day', 'D', 86400)]:
            for n in (1, 3, 36, r.randint(2, 5000)):
                for before, after in (('last', ''), ('past', ''), ('previous', ''), ('next', ''), ('within', ''),
                                      ('within the next', ''), ('', 'hence'), ('', 'in the future'), ('for', ''),
                                      ('the coming', '')):
                    if (n + len(before)) % 5 == i % 5 or (n == 3 and i % 4 == 0):
                        cnt('dur', cs.dur(before, n, unit, after, R))
        # ---- parse_relative_unit
        for (word, code, _s) in UNITS:
            for pre, past in (('next', 0), ('last', 1), ('past', 1), ('previous', 1), ('this', 0), ('following', 0)):
                cs.rel('%s %s' % (pre, word), code, past, R)
                cnt('rel')
        for text in ('rest of the day', 'rest of my day', 'remaining of current day', 'rest of this day'):
            cs.rel(text, 'D', 0, R)
            cnt('rel')
    return cs, hist


def table_cases(cfg):
    """the part-of-day table and luis_time_span on negative / zero / positive spans"""
    from recognizers_date_time.date_time.utilities import DateTimeFormatUtil
    c = cfg.date_time_period_parser.config
    out = []
    for tod in TODS:
        v = c.get_matched_time_range(tod)
        out.append(('dp.table\t%s' % tod, '%s\t%d\t%d\t%d' % (v.time_str, v.begin_hour, v.end_hour, v.end_min) if v.success else 'none',
                    'get_matched_time_range(%r)' % tod))
    b = dt.datetime(2019, 3, 1, 12, 0, 0)
    for secs in [0, 1, 59, 60, 3599, 3600, 3661, 86399, 86400, 90061, 172800, -1, -60, -3600, -3601, -75600, -86399, -86400,
                 -86401, -90000, -172800, -200000]:
        out.append(('dp.span\t%d' % secs, DateTimeFormatUtil.luis_time_span(b, b + dt.timedelta(seconds=secs)),
                    'luis_time_span(%+d s)' % secs))
    return out


def references(ctx):
    r = ctx.rng('dtperiod-refs')
    bdays = calcorr.boundary_days()
    n_b, n_s = (200, 100) if ctx.thorough else (36, 20)
    days = [dt.date(2019, 6, 12), dt.date(2020, 2, 28), dt.date(2020, 2, 29), dt.date(2019, 12, 31), dt.date(2021, 1, 1)] + \
        r.sample(bdays, min(n_b, len(bdays))) + calcorr.seeded_days(r, n_s)
    times = calcorr.TIMES + [(10, 30, 15), (23, 0, 0), (0, 59, 59)]
    return [at(d, times[i % len(times)]) for i, d in enumerate(days)]


def unit(ctx):
    from recognizers_date_time.date_time.english.common_configs import EnglishCommonDateTimeParserConfiguration
    import recognizers_date_time
    common.assert_tree_modules(recognizers_date_time)
    cfg = EnglishCommonDateTimeParserConfiguration()
    refs = references(ctx)
    cs, hist = build_cases(ctx, cfg, refs)
    rows = cs.out + table_cases(cfg)
    model = common.driver([c[0] for c in rows])
    shown = {}
    for (line, impl, desc), m in zip(rows, model):
        op = line.split('\t')[0]
        ctx.count('BaseDateTimePeriodParser:' + op)
        if impl not in ('none', 'none\t0'):
            ctx.nontriv(('dtperiod', desc))
        if impl != m:
            shown[op] = shown.get(op, 0) + 1
            if shown[op] <= 3:
                ctx.report('correspondence', 'dtperiod-' + op[3:], '%s: implementation %s, model %s' % (desc, impl, m),
                           failing_input={'op': line, 'call': desc, 'implementation': impl, 'model': m})
    ctx.extra['dtperiod_tree_variant'] = {'begin-date roll': cs.fixes[0], 'end-date roll': cs.fixes[1], 'date+period roll': cs.fixes[2]}
    ctx.extra['dtperiod_unit_families'] = dict(sorted(hist.items()))
    ctx.extra['dtperiod_unit_skipped'] = dict(sorted(cs.skipped.items()))
    ctx.sample({'op': rows[0][0], 'call': rows[0][2], 'implementation': rows[0][1]})
    return rows, model


# ---------------------------------------------------------------------- pipeline level

def pipeline_jobs(ctx):
    """(class label, query, reference). The class says how the expression was built; classes ending in `:reversed` /
    `:cross-midnight` are the ones where the end clock time is not after the begin clock time."""
    r = ctx.rng('dtperiod-pipe')
    refs = references(ctx)
    refs = refs[:: (1 if ctx.thorough else 6)]
    jobs = []
    for i, R in enumerate(refs):
        d = R.date() + dt.timedelta(days=r.randint(1, 300))
        # (no numeric m/d/y dates here: "2/22/2020 2pm to 2/22/2020 10pm" is cut by the extractors into "2/22/2020 2pm to 2" + …,
        #  which is the date+period:cross-midnight class through another door)
        dates = ['tomorrow', '%s %d %d' % (MONTHS[d.month - 1], d.day, d.year), 'today']
        d1 = dates[i % 3]
        ha = r.randint(0, 22)
        hb = r.randint(ha + 1, 23)
        ma, mb = r.choice([0, 0, 15, 30]), r.choice([0, 0, 45])
        a, b = clock(ha, ma), clock(hb, mb)
        day = [R.date() + dt.timedelta(days=1), d, R.date()][i % 3]
        ta, tb = dt.time(ha, ma), dt.time(hb, mb)
        on = lambda dd, t: dt.datetime.combine(dd, t)
        nxt, prv = day + dt.timedelta(days=1), day - dt.timedelta(days=1)
        # the 4th field: the (start, end) the stated date and clock times denote once the range is rolled over midnight
        jobs += [('begin-date:ordered', 'from %s %s to %s' % (d1, a, b), R, (on(day, ta), on(day, tb))),
                 ('begin-date:reversed', 'from %s %s to %s' % (d1, b, a), R, (on(day, tb), on(nxt, ta))),
                 ('end-date:ordered', 'from %s to %s %s' % (a, d1, b), R, (on(day, ta), on(day, tb))),
                 ('end-date:reversed', 'from %s to %s %s' % (b, d1, a), R, (on(prv, tb), on(day, ta))),
                 ('both-dates:same-day:ordered', 'from %s %s to %s %s' % (d1, a, d1, b), R, (on(day, ta), on(day, tb))),
                 ('both-dates:same-day:reversed', 'from %s %s to %s %s' % (d1, b, d1, a), R, None),
                 ('date+period:ordered', '%s from %s to %s' % (d1, a, b), R, (on(day, ta), on(day, tb))),
                 ('date+period:cross-midnight', '%s from %s to %s' % (d1, b, a), R, (on(day, tb), on(nxt, ta)))]
        lo, hi = sorted(r.sample(range(1, 12), 2))
        jobs += [('hour-pair:ordered', 'from %d to %d pm %s' % (lo, hi, d1), R),
                 ('hour-pair:ordered', 'between %d and %d %s' % (lo, hi, d1), R),
                 ('hour-pair:reversed', 'from %d to %d %s' % (hi, lo, d1), R)]
        for pre in ('this', 'next', 'last'):
            jobs.append(('part-of-day', '%s %s' % (pre, TODS[i % 4]), R))
        jobs.append(('part-of-day', '%s %s' % (d1, TODS[(i + 1) % 4]), R))
        n = r.choice([1, 2, 3, 36, r.randint(2, 5000)])
        word, code, secs = UNITS[i % 3]
        body = '%d %s%s' % (n, word, '' if n == 1 else 's')
        jobs += [('duration:last', 'last %s' % body, R), ('duration:next', 'next %s' % body, R),
                 ('duration:within', 'within %s' % body, R), ('duration:past', 'past %s' % body, R),
                 ('relative-unit', 'next %s' % word, R), ('relative-unit', 'last %s' % word, R),
                 ('relative-unit', 'rest of the day', R)]
    return jobs


# Recorded findings `dtperiod:hour-pair:reversed` and `dtperiod:both-dates:same-day:reversed` (audit item 5: the class
# alone used to exempt ANY inconsistent triple of the class).  What is recorded is one defect: both stated clock times are put
# on the same stated day in the stated order, so the end lies before the start and the duration is written negative
# (`(2019-06-13T09,2019-06-13T02,PT-7H)`).  Only a bad value of exactly that shape carries the recorded signature.
NARROW_REVERSED = ('hour-pair:reversed', 'both-dates:same-day:reversed')


def reversed_same_day(v):
    st, en, tx = v.get('start') or '', v.get('end') or '', v.get('timex') or ''
    return (len(st) == 19 and len(en) == 19 and st[:10] == en[:10] and en < st and tx.startswith('(')
            and tx.split(',')[-1].startswith('PT-'))


def pipeline(ctx):
    jobs = pipeline_jobs(ctx)
    jobs = [j if len(j) == 4 else j + (None,) for j in jobs]
    res = dtpipe.run([('en-us', q, R) for (_c, q, R, _x) in jobs])
    common.setup_repo_imports()
    from recognizers_date_time.date_time.english.common_configs import EnglishCommonDateTimeParserConfiguration
    fixes = probe_fixes(EnglishCommonDateTimeParserConfiguration().date_time_period_parser)
    repaired = {'begin-date': fixes[0] == '1', 'end-date': fixes[1] == '1', 'date+period': fixes[2] == '1'}
    ents, meta = [], []
    for (cls, q, R, expect), got in zip(jobs, res):
        ctx.count('dtperiod pipeline %s' % cls.split(':')[0])
        if isinstance(got, str):
            ctx.report('property', 'dtperiod:%s:error' % cls, '%r (reference %s): %s' % (q, R, got),
                       failing_input={'query': q, 'reference': str(R), 'got': got}, property_fails=False)
            continue
        for e in got:
            if e['values'] and e['type_name'].endswith('range') and e['end'] == len(q) - 1:
                ents.append(e)
                meta.append((cls, q, R))
        # on a tree that carries the day-roll patch of this family: the stated date and clock times are the resolved ones,
        # the end after the begin (on the unpatched tree the reversed classes are the recorded findings)
        if expect and (repaired.get(cls.split(':')[0]) or cls.endswith(':ordered')):
            want = tuple(x.strftime('%Y-%m-%d %H:%M:%S') for x in expect)
            have = [(v.get('start'), v.get('end')) for e in got if e['values'] for v in e['values']]
            if want not in have:
                ctx.report('property', 'dtperiod:%s:end-points' % cls, 'en-us %r (reference %s): expected %s .. %s, got %r' % (
                    q, R, want[0], want[1], have[:3]),
                    failing_input={'culture': 'en-us', 'query': q, 'reference': str(R), 'expected': want, 'got': have[:3]},
                    property_fails=True)
    for (cls, q, R), e, (tn, vs) in zip(meta, ents, dtcorpus.evaluate_wf(ents)):
        bad = [v for v, (s, d, t) in zip(e['values'], vs) if not t]
        if bad:
            sig = 'dtperiod:%s' % cls
            if cls in NARROW_REVERSED and not all(reversed_same_day(v) for v in bad):
                sig += ':other-shape'      # not the recorded defect (recorded nowhere: a new violation)
            ctx.report('property', sig, 'en-us %r (reference %s): the triple is not consistent: %r' % (q, R, bad[:2]),
                       failing_input={'culture': 'en-us', 'query': q, 'reference': str(R), 'values': bad[:2]},
                       property_fails=True)
        else:
            ctx.nontriv(('dtperiod-pipe', q, str(R)))


def run(ctx):
    unit(ctx)
    pipeline(ctx)
