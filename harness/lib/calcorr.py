"""Shared plumbing of C08 / C09 (layer L5 Cal / DateUtils): canonical forms, reference-date generators
(boundary first, then seeded), the multiprocessing runner for `recognize_datetime`, and the unit-level
correspondence of the CPython calendar and of the datedelta shim against `RTV.Model.Cal`.

Canonical forms on the wire: a date is `Y-M-D`, a datetime `Y-M-D@secs` (seconds since midnight), a raised
OverflowError / ValueError of date arithmetic is `err:Other`."""
import calendar
import datetime as _dt
import multiprocessing
import warnings

from . import common

LO_YEAR, HI_YEAR = 1950, 2090
TIMES = [(0, 0, 0), (14, 30, 0), (23, 59, 59)]


def fmt_date(d):
    return '%d-%d-%d' % (d.year, d.month, d.day)


def fmt_dt(d):
    secs = (d.hour * 3600 + d.minute * 60 + d.second) if isinstance(d, _dt.datetime) else 0
    return '%d-%d-%d@%d' % (d.year, d.month, d.day, secs)


def ref_fields(r):
    return '%d\t%d\t%d\t%d' % (r.year, r.month, r.day, r.hour * 3600 + r.minute * 60 + r.second)


def cpstr(s):
    """str -> what `showStr` of the driver prints (plain text; the strings here are ASCII)."""
    return s


def guarded(fn):
    try:
        return fn()
    except (OverflowError, ValueError):
        return 'err:Other'


# ------------------------------------------------------------------ reference generators

BOUNDARY_YEARS = [1950, 1951, 1952, 1999, 2000, 2001, 2004, 2015, 2016, 2019, 2020, 2021, 2024, 2026, 2027, 2088,
                  2089, 2090]


def boundary_days(years=BOUNDARY_YEARS):
    """Month ends and starts, leap days, year boundaries, ISO week 52/53/1 transitions, one full week per year."""
    out = []
    seen = set()

    def add(d):
        if LO_YEAR <= d.year <= HI_YEAR and d not in seen:
            seen.add(d)
            out.append(d)
    for y in years:
        for m in range(1, 13):
            last = calendar.monthrange(y, m)[1]
            for dd in (1, 2, last - 2, last - 1, last):
                add(_dt.date(y, m, dd))
        for k in range(-5, 6):
            add(_dt.date(y, 1, 1) + _dt.timedelta(days=k))      # ISO week 52/53/1 transitions, year boundary
        for k in range(7):
            add(_dt.date(y, 5, 10) + _dt.timedelta(days=k))     # every weekday
        add(_dt.date(y, 2, 28))
        add(_dt.date(y, 3, 1))
    return out


def seeded_days(rng, n):
    lo = _dt.date(LO_YEAR, 1, 1).toordinal()
    hi = _dt.date(HI_YEAR, 12, 31).toordinal()
    return [_dt.date.fromordinal(rng.randint(lo, hi)) for _ in range(n)]


def all_days(y0=LO_YEAR, y1=HI_YEAR):
    lo = _dt.date(y0, 1, 1).toordinal()
    hi = _dt.date(y1, 12, 31).toordinal()
    return [_dt.date.fromordinal(o) for o in range(lo, hi + 1)]


def at(d, t):
    return _dt.datetime(d.year, d.month, d.day, t[0], t[1], t[2])


# ------------------------------------------------------------------ pipeline runner

_W = {}


def _init_worker():
    warnings.simplefilter('ignore')
    common.setup_repo_imports()
    import recognizers_date_time
    common.assert_tree_modules(recognizers_date_time)
    from recognizers_date_time import recognize_datetime
    _W['rec'] = recognize_datetime
    recognize_datetime('tomorrow', 'en-us', reference=_dt.datetime(2020, 1, 1))      # warm the culture


def _run_chunk(chunk):
    rec = _W['rec']
    out = []
    for i, q, ref in chunk:
        cul = 'en-us'
        if isinstance(q, tuple):
            q, cul = q
        try:
            rs = rec(q, cul, reference=ref)
            out.append((i, [(r.text, r.start, r.end, r.type_name,
                             [dict(v) for v in ((r.resolution or {}).get('values') or [])]) for r in rs]))
        except Exception as e:     # Model.parse swallows exceptions; anything here is reported as such
            out.append((i, 'error:%s: %s' % (type(e).__name__, e)))
    return out


def run_pipeline(tasks, nproc=16, chunk=40):
    """tasks: [(query | (query, culture), reference datetime)] -> list aligned with tasks of
    [(text, start, end, type_name, [value dict, ...]), ...] or 'error:...'."""
    items = [(i, q, r) for i, (q, r) in enumerate(tasks)]
    # keep the queries of one culture together (a worker loads a culture's model on first use), English first
    def cul_of(t):
        return t[1][1] if isinstance(t[1], tuple) else 'en-us'
    items.sort(key=lambda t: (cul_of(t) != 'en-us', cul_of(t), t[0]))
    chunks = [items[k:k + chunk] for k in range(0, len(items), chunk)]
    res = [None] * len(tasks)
    if not chunks:
        return res
    ctx = multiprocessing.get_context('fork')
    with ctx.Pool(min(nproc, len(chunks)), initializer=_init_worker) as pool:
        for part in pool.imap_unordered(_run_chunk, chunks):
            for i, r in part:
                res[i] = r
    return res


def whole_entity(results, query):
    """The entity that covers the whole query (the property speaks about the expression as a whole)."""
    if isinstance(results, str) or results is None:
        return None
    for r in results:
        if r[1] == 0 and r[2] == len(query) - 1:
            return r
    return None


def entity_with_text(results, text):
    """The entity whose text is `text` (case-insensitive) inside a carrier sentence."""
    if isinstance(results, str) or results is None:
        return None
    for r in results:
        if r[0].strip().lower() == text.strip().lower():
            return r
    return None


def retry_in_carrier(cases, results, carriers):
    """For bare expressions the pipeline did not recognise as a whole, ask again inside the Specs' own sentence.
    cases[i] = (expr, R, ..., culture at index 4); carriers[i] = sentence or None. Returns {i: entity}."""
    todo = [i for i, c in enumerate(cases) if carriers[i] and whole_entity(results[i], c[0]) is None
            and c[0].lower() in carriers[i].lower()]
    if not todo:
        return {}
    res2 = run_pipeline([((carriers[i], cases[i][4]), cases[i][1]) for i in todo])
    out = {}
    for i, r in zip(todo, res2):
        e = entity_with_text(r, cases[i][0])
        if e:
            out[i] = e
    return out


# ------------------------------------------------------------------ unit level: CPython calendar + datedelta shim

def calendar_unit(ctx, tag):
    """`_ymd2ord/_ord2ymd`/weekday/isoweekday/isocalendar of CPython vs the model; datetime() validity."""
    maxord = _dt.date.max.toordinal()
    if ctx.thorough:
        ords = range(1, maxord + 1)
    else:
        lo = _dt.date(LO_YEAR, 1, 1).toordinal()
        hi = _dt.date(HI_YEAR, 12, 31).toordinal()
        ords = sorted(set(list(range(lo, hi + 1)) + list(range(1, maxord + 1, 97)) + list(range(1, 800)) +
                          list(range(maxord - 800, maxord + 1))))
    lines, impl = [], []
    for o in ords:
        d = _dt.date.fromordinal(o)
        ic = d.isocalendar()
        lines.append('cal.oford\t%d' % o)
        impl.append('%s\t%d\t%d\t%d,%d,%d' % (fmt_date(d), d.weekday(), d.isoweekday(), ic[0], ic[1], ic[2]))
    model = common.driver(lines)
    ctx.count('cal.ord2ymd+weekday+isocalendar', len(lines))
    for l, a, b in zip(lines, impl, model):
        if a != b:
            ctx.report('correspondence', 'cal-ord2ymd', '%s: CPython %s, model %s' % (l, a, b),
                       failing_input={'op': l, 'implementation': a, 'model': b})
            break
    ctx.sample({'op': lines[len(lines) // 2], 'implementation': impl[len(impl) // 2]})
    # ymd -> ordinal and validity, including invalid month/day numbers
    years = sorted(set([1, 2, 3, 4, 100, 400, 1900, 2000, 2100, 9996, 9999] + list(range(LO_YEAR, HI_YEAR + 1)) +
                       ([] if not ctx.thorough else list(range(1, 10000, 7)))))
    lines, impl = [], []
    for y in years:
        for m in range(0, 14):
            for dd in (0, 1, 2, 15, 27, 28, 29, 30, 31, 32):
                try:
                    o = _dt.date(y, m, dd).toordinal()
                    impl.append('1\t%d' % o)
                except ValueError:
                    impl.append('0')
                lines.append('cal.ord\t%d\t%d\t%d' % (y, m, dd))
    model = common.driver(lines)
    ctx.count('cal.ymd2ord+validity', len(lines))
    for l, a, b in zip(lines, impl, model):
        ok = (a == b) if a != '0' else b.startswith('0\t')
        if not ok:
            ctx.report('correspondence', 'cal-ymd2ord', '%s: CPython %s, model %s' % (l, a, b),
                       failing_input={'op': l, 'implementation': a, 'model': b})
            break


def datedelta_unit(ctx, days):
    from datedelta import datedelta
    deltas = [(0, k, 0) for k in (-25, -13, -12, -11, -2, -1, 1, 2, 11, 12, 13, 25)] + \
             [(k, 0, 0) for k in (-4, -1, 1, 4, 100)] + [(1, 1, 1), (-1, -1, -1), (0, 1, -1), (0, 0, 7), (0, 0, -7)]
    lines, impl = [], []
    for d in days:
        for (yy, mm, dd) in deltas:
            lines.append('cal.dd\t%d\t%d\t%d\t%d\t%d\t%d' % (d.year, d.month, d.day, yy, mm, dd))
            impl.append(guarded(lambda: fmt_date(d + datedelta(years=yy, months=mm, days=dd))))
    # the edges of the supported range
    for d in (_dt.date(1, 1, 31), _dt.date(1, 3, 31), _dt.date(9999, 12, 31), _dt.date(9999, 1, 31), _dt.date(9998, 12, 31)):
        for (yy, mm, dd) in deltas:
            lines.append('cal.dd\t%d\t%d\t%d\t%d\t%d\t%d' % (d.year, d.month, d.day, yy, mm, dd))
            impl.append(guarded(lambda: fmt_date(d + datedelta(years=yy, months=mm, days=dd))))
    model = common.driver(lines)
    ctx.count('datedelta-shim', len(lines))
    for l, a, b in zip(lines, impl, model):
        if a != b:
            ctx.report('correspondence', 'datedelta-shim', '%s: shim %s, model %s' % (l, a, b),
                       failing_input={'op': l, 'implementation': a, 'model': b})
            break


# ------------------------------------------------------------------ fingerprints of the mirrored Python sources

def fingerprints(ctx, funcs, expected):
    """Normalised `ast.dump` hash of every Python function a model function mirrors. A changed fingerprint never
    fails a check; it is recorded in the evidence (the correspondence is what decides)."""
    import ast
    import hashlib
    import inspect
    import textwrap
    got, changed = {}, []
    for name, fn in funcs.items():
        try:
            src = textwrap.dedent(inspect.getsource(fn))
            h = hashlib.sha256(ast.dump(ast.parse(src)).encode()).hexdigest()[:16]
        except Exception as e:          # pragma: no cover
            h = 'unavailable:%s' % type(e).__name__
        got[name] = h
        if expected.get(name) not in (None, h):
            changed.append(name)
    ctx.extra['fingerprints'] = got
    ctx.extra['fingerprints_changed'] = changed
    if changed:
        ctx.notes.append('source fingerprint changed: ' + ', '.join(changed))
    return got


# ------------------------------------------------------------------ the properties, stated independently of the tree
# (shared by the checks and by harness/mkcontracts_c08_c09.py, which classifies Specs expressions with them)

def monday_of(d):
    return d - _dt.timedelta(days=d.isoweekday() - 1)


def iso(d):
    return '%04d-%02d-%02d' % (d.year, d.month, d.day)


def shift_month(y, m, k):
    t = y * 12 + (m - 1) + k
    return t // 12, t % 12 + 1


HMS_SECONDS = {'hour': 3600, 'minute': 60, 'second': 1}


def c08_oracle(fam, par, R):
    """Expected `values` list of property C08 for family `fam` with parameters `par` at reference datetime R."""
    today = R.date()
    if fam == 'special':
        v = today + _dt.timedelta(days=par)
        return [{'timex': iso(v), 'type': 'date', 'value': iso(v)}]
    if fam == 'ago':
        unit, n, sign = par
        v = today + _dt.timedelta(days=sign * n * (7 if unit == 'week' else 1))
        return [{'timex': iso(v), 'type': 'date', 'value': iso(v)}]
    if fam == 'hms':
        unit, n, sign = par
        v = R + _dt.timedelta(seconds=sign * n * HMS_SECONDS[unit])
        return [{'timex': v.strftime('%Y-%m-%dT%H:%M:%S'), 'type': 'datetime', 'value': v.strftime('%Y-%m-%d %H:%M:%S')}]
    if fam == 'weekday':
        k, wd = par           # wd: 1..7
        v = monday_of(today) + _dt.timedelta(days=7 * k + wd - 1)
        return [{'timex': iso(v), 'type': 'date', 'value': iso(v)}]
    if fam == 'week':
        s = monday_of(today) + _dt.timedelta(days=7 * par)
        e = s + _dt.timedelta(days=7)
        ic = s.isocalendar()
        return [{'timex': '%04d-W%02d' % (ic[0], ic[1]), 'type': 'daterange', 'start': iso(s), 'end': iso(e)}]
    if fam == 'weekend':
        s = monday_of(today) + _dt.timedelta(days=7 * par + 5)
        e = s + _dt.timedelta(days=2)
        ic = s.isocalendar()
        return [{'timex': '%04d-W%02d-WE' % (ic[0], ic[1]), 'type': 'daterange', 'start': iso(s), 'end': iso(e)}]
    if fam == 'month':
        y, m = shift_month(today.year, today.month, par)
        y2, m2 = shift_month(y, m, 1)
        return [{'timex': '%04d-%02d' % (y, m), 'type': 'daterange', 'start': iso(_dt.date(y, m, 1)),
                 'end': iso(_dt.date(y2, m2, 1))}]
    if fam == 'year':
        y = today.year + par
        return [{'timex': '%04d' % y, 'type': 'daterange', 'start': '%04d-01-01' % y, 'end': '%04d-01-01' % (y + 1)}]
    if fam == 'ytd':
        return [{'timex': '%04d' % today.year, 'type': 'daterange', 'start': '%04d-01-01' % today.year, 'end': iso(today)}]
    if fam == 'mtd':
        return [{'timex': '%04d-%02d' % (today.year, today.month), 'type': 'daterange',
                 'start': iso(today.replace(day=1)), 'end': iso(today)}]
    if fam == 'now':
        return [{'timex': 'PRESENT_REF', 'type': 'datetime', 'value': R.strftime('%Y-%m-%d %H:%M:%S')}]
    raise KeyError(fam)


def occurrences_monthday(m, d, today):
    """(latest occurrence strictly before today, earliest occurrence on or after today)."""
    def exists(y):
        return 1 <= y <= 9999 and d <= calendar.monthrange(y, m)[1]
    y = today.year
    fut = next(_dt.date(k, m, d) for k in range(y, y + 9) if exists(k) and _dt.date(k, m, d) >= today)
    past = next(_dt.date(k, m, d) for k in range(y, y - 9, -1) if exists(k) and _dt.date(k, m, d) < today)
    return past, fut


def c09_oracle(fam, par, R):
    today = R.date()
    if fam == 'monthday':
        past, fut = occurrences_monthday(par[0], par[1], today)
        tx = 'XXXX-%02d-%02d' % (par[0], par[1])
    else:
        fut = today + _dt.timedelta(days=(par - today.isoweekday()) % 7)
        past = fut - _dt.timedelta(days=7)
        tx = 'XXXX-WXX-%d' % par
    return [{'timex': tx, 'type': 'date', 'value': iso(past)}, {'timex': tx, 'type': 'date', 'value': iso(fut)}]


CULTURES = {'Spanish': 'es-es', 'French': 'fr-fr', 'Portuguese': 'pt-br', 'Italian': 'it-it', 'German': 'de-de',
            'Dutch': 'nl-nl', 'Chinese': 'zh-cn', 'English': 'en-us'}


def load_contract(name):
    import json
    import os
    with open(os.path.join(common.VERIF, 'contracts', name + '.json'), encoding='utf-8') as f:
        return json.load(f)


def cap_reports(ctx, per_signature=12):
    """Keep at most `per_signature` reports of one not-yet-known signature (vcheck keeps 200 reports in all), so that a
    frequent signature cannot crowd out a rare one; totals go to the evidence. Known findings are counted in full."""
    raw = ctx.report
    counts = {}

    def report(kind, signature, detail, failing_input=None, property_fails=None):
        known = any(f.get('property') == ctx.prop and f.get('signature') == signature for f in ctx.known.get('findings', []))
        counts[signature] = counts.get(signature, 0) + 1
        ctx.extra['signature_counts'] = dict(counts)
        if known or counts[signature] <= per_signature:
            raw(kind, signature, detail, failing_input=failing_input, property_fails=property_fails)
    ctx.report = report
